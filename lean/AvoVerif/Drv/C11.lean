/-
C11 driver.
  print <cfg> <file>                      → hex of the model's rendering of the assembly file
  wf <cfg> <file>                         → 1 | 0: the token hypotheses of print_faithful hold
  accept-print <cfg> <file> <output-hex>  → ok | bad-…   (the implementation's text, read back with
                                            splitNL/lexLine/parseFile, says what the file says)
  accept-asm <cfg> <file> <output-hex> <n> fn* → ok | bad-…   (decoded object code: instruction order per
                                            symbol and branch targets against the label binding)
     fn := <sym-hex> <argsize> <locals> <nosplit 0/1> <n> (line addr target+1)* <n> (instrIdx label-hex)* <n> (label-hex instrIdx)*
-/
import AvoVerif.Drv.Print
import AvoVerif.Gen.TextFlags
import AvoVerif.Oracle.TextFlagH
namespace Avo.Drv.C11
open Avo.Drv Avo.Drv.Print Avo.Print Avo.Attr

def names : List (Nat × String) := Avo.Gen.attrname

def parseAttrText (t : Txt) : List Tok :=
  ((String.ofList t).splitOn "|").map (fun p => match p.toNat? with
    | some v => Tok.num v
    | none => Tok.name p)

/-- The TEXT line's clause and sizes mean the function's attributes, frame and
argument size (attribute macros valued by the installed textflag.h). -/
def acceptRest (f : Function) (rest : Txt) : Option String :=
  match parseTextRest rest with
  | none => some "bad-text-line"
  | some (at?, frame, args) =>
    let v : Option (BitVec 16) := match at? with
      | none => some 0#16
      | some t => evalToks Avo.Oracle.textflagH (parseAttrText t)
    if v != some f.attrs then some "bad-attrs"
    else if frame != f.frame then some "bad-frame"
    else if args != (if f.args > 0 then f.args else 0) then some "bad-args"
    else none

def acceptSec (s : Sec) (g : SecSum) : Option String :=
  match s, g with
  | .fn f, .fn p =>
    if p.name != f.name then some "bad-name"
    else if p.instrs != (instrsOf f.nodes).map Instr.key then some "bad-instructions"
    else if p.labels != labelsFrom f.nodes 0 then some "bad-labels"
    else acceptRest f p.rest
  | .gl g, .gl p => if p != glSum names g then some "bad-global" else none
  | _, _ => some "bad-section-kind"

def firstBad : List (Option String) → Option String
  | [] => none
  | some e :: _ => some e
  | none :: r => firstBad r

def acceptPrint (f : File) (out : Txt) : String :=
  let ls := splitNL out
  if ls.getLast? != some [] then "bad-no-final-newline" else
  match parseFile (ls.dropLast.map lexLine) with
  | none => "bad-grammar"
  | some (incl, secs) =>
    if incl != (fileSum names f).1 then "bad-includes"
    else if secs.length != f.sections.length then "bad-section-count"
    else match firstBad (List.zipWith acceptSec f.sections secs) with
      | some e => e
      | none => "ok"

/-! ### object code -/

structure Ent where
  line : Nat
  addr : Nat
  target : Option Nat

structure AsmFn where
  sym : Txt
  args : Int
  locals : Int
  nosplit : Bool
  ents : List Ent
  branches : List (Nat × Txt)
  targets : List (Txt × Nat)

def entTok : P Ent := fun ts => do
  let (l, ts) ← natTok ts
  let (a, ts) ← natTok ts
  let (t, ts) ← natTok ts
  some (⟨l, a, if t == 0 then none else some (t - 1)⟩, ts)

def brTok : P (Nat × Txt) := fun ts => do
  let (i, ts) ← natTok ts
  let (l, ts) ← txtTok ts
  some ((i, l), ts)

def ltTok : P (Txt × Nat) := fun ts => do
  let (l, ts) ← txtTok ts
  let (i, ts) ← natTok ts
  some ((l, i), ts)

def asmFnTok : P AsmFn := fun ts => do
  let (sym, ts) ← txtTok ts
  let (args, ts) ← intTok ts
  let (locals, ts) ← intTok ts
  let (nosplit, ts) ← boolTok ts
  let (ents, ts) ← listOf entTok ts
  let (brs, ts) ← listOf brTok ts
  let (lts, ts) ← listOf ltTok ts
  some (⟨sym, args, locals, nosplit, ents, brs, lts⟩, ts)

/-- Per function of the implementation's text: line number of the TEXT line and
of every instruction line (1-based). -/
def fnLineNumbers : List LLine → Nat → List (Nat × List Nat) → List (Nat × List Nat)
  | [], _, acc => acc.reverse
  | .text .. :: ls, n, acc => fnLineNumbers ls (n + 1) ((n, []) :: acc)
  | .instr .. :: ls, n, acc =>
    match acc with
    | (t, is) :: r => fnLineNumbers ls (n + 1) ((t, is ++ [n]) :: r)
    | [] => fnLineNumbers ls (n + 1) acc
  | _ :: ls, n, acc => fnLineNumbers ls (n + 1) acc

/-- Consecutive entries of one source line are one instruction. -/
def groupEnts : List Ent → List (Nat × Nat × List Ent)
  | [] => []
  | e :: es =>
    match groupEnts es with
    | (l, a, g) :: r =>
      if l == e.line then (l, e.addr, e :: g) :: r else (e.line, e.addr, [e]) :: (l, a, g) :: r
    | [] => [(e.line, e.addr, [e])]

def lookupTxt (k : Txt) : List (Txt × Nat) → Option Nat
  | [] => none
  | (a, b) :: r => if a == k then some b else lookupTxt k r

def sameBinding (a b : List (Txt × Nat)) : Bool :=
  a.length == b.length && a.all (fun p => lookupTxt p.1 b == some p.2)

def lookupNat (k : Nat) : List (Nat × Txt) → Option Txt
  | [] => none
  | (a, b) :: r => if a == k then some b else lookupNat k r

/-- The assembler threads jumps: a branch whose target is an unconditional
`JMP label` is encoded with that jump's own target (and a branch into a chain
that never leaves unconditional jumps with a jump to itself).  `followJmps`
lists the instruction indices a branch bound to instruction `j` may therefore
land on, and whether the chain is cyclic. -/
def followJmps (is : List Instr) (brs : List (Nat × Txt)) (binding : List (Txt × Nat)) : Nat → Nat → List Nat × Bool
  | 0, _ => ([], true)
  | fuel + 1, j =>
    match is[j]?, lookupNat j brs with
    | some i, some l =>
      if i.isUncondBranch then
        match lookupTxt l binding with
        | some k => let r := followJmps is brs binding fuel k; (j :: r.1, r.2)
        | none => ([j], false)
      else ([j], false)
    | _, _ => ([j], false)

def acceptAsmFn (f : Function) (ln : Nat × List Nat) (a : AsmFn) : Option String :=
  if a.sym != f.name then some "bad-symbol" else
  -- without a positive argument size the TEXT line has no `-args` and the object says "unknown" (-1)
  if (if f.args > 0 then a.args != f.args else a.args > 0) then some "bad-object-argsize" else
  if f.attrs.getLsbD 2 && !a.nosplit then some "bad-object-nosplit" else
  -- the object's frame is the TEXT line's, plus the saved frame pointer when there is a frame
  if !(a.locals == f.frame || (f.frame > 0 && a.locals == f.frame + 8)) then some "bad-object-frame" else
  let groups := groupEnts (a.ents.filter (fun e => e.line != ln.1))
  if groups.map (·.1) != ln.2 then some "bad-instruction-sequence" else
  let binding := labelsFrom f.nodes 0
  if !sameBinding binding a.targets then some "bad-label-binding" else
  let is := instrsOf f.nodes
  firstBad (a.branches.map (fun (i, l) =>
    match groups[i]?, lookupTxt l binding with
    | some (_, self, g), some j =>
      match g.filterMap (·.target) with
      | [t] =>
        let ch := followJmps is a.branches binding (is.length + 1) j
        let addrs := ch.1.filterMap (fun k => groups[k]?.map (·.2.1))
        if addrs.contains t || (ch.2 && t == self) then none else some s!"bad-branch-target {i}"
      | _ => some s!"bad-branch-decode {i}"
    | _, _ => some s!"bad-branch-label {i}"))

def acceptAsm (f : File) (out : Txt) (fns : List AsmFn) : String :=
  let lns := fnLineNumbers ((splitNL out).dropLast.map lexLine) 1 []
  let fs := f.functions
  if fs.length != fns.length || lns.length != fs.length then "bad-symbol-count" else
  match firstBad (List.zipWith (fun (p : Function × (Nat × List Nat)) a => acceptAsmFn p.1 p.2 a) (fs.zip lns) fns) with
  | some e => e
  | none => "ok"

def handle : Handler
  | "print" :: ts => do
    let (cfg, ts) ← cfgTok ts
    let (f, _) ← fileTok ts
    some (hexTxt (render (printFile names cfg f)))
  | "wf" :: ts => do
    -- the hypotheses of print_faithful (and a non-negative frame), evaluated
    let (cfg, ts) ← cfgTok ts
    let (f, _) ← fileTok ts
    some (if decide (WFFile names cfg f) && f.functions.all (fun fn => decide (0 ≤ fn.frame)) then "1" else "0")
  | "accept-print" :: ts => do
    let (_, ts) ← cfgTok ts
    let (f, ts) ← fileTok ts
    let (out, _) ← txtTok ts
    some (acceptPrint f out)
  | "accept-asm" :: ts => do
    let (_, ts) ← cfgTok ts
    let (f, ts) ← fileTok ts
    let (out, ts) ← txtTok ts
    let (fns, _) ← listOf asmFnTok ts
    some (acceptAsm f out fns)
  -- verdicts measured by the harness with the Go toolchain / binutils
  | "accept-assembles" :: r :: _ => some (if r == "ok" then "ok" else "bad-assembler-rejects " ++ r)
  | "accept-decode" :: r :: _ => some (if r == "ok" then "ok" else "bad-decode " ++ r)
  | _ => none

def handlers : List (String × Handler) :=
  ["print", "wf", "accept-print", "accept-asm", "accept-assembles", "accept-decode"].map (·, handle)

end Avo.Drv.C11
