import AvoVerif.Drv.Common
import AvoVerif.Model.Layout
import AvoVerif.Model.LayoutCtx
/-!
Protocol of C07 (tokens separated by one space).

type   := `b <basic>` | `p <type>` | `s <type>` | `a <n> <type>` | `t <k> (<field> <type>)^k` | `n <name> <type>`
          | `l <name> <type>` (alias `type name = type`; transparent like a defined type)
          | `o eface|iface|map|chan|func` (kinds without components)
group  := `<k> <name>^k <type>`                 (k = 0: unnamed)
sig    := `<np> group^np <nr> group^nr`
sel    := `at:<int>` | `name:<ident>`
step   := `base|len|cap|real|imag|i:<int>|f:<name>|d:<reg>`
path   := `<n> step^n`

resolve <sig> <P|R> <sel> <path>                → `ok <sym|-> <disp> <base> <basic>` | `err`
accept-resolve <sig> <P|R> <sel> <path> => <ok <sym|-> <disp> <base> <basic> <asmtext> | err | panic>
argsize <sig>                                   → `<total bytes>`
accept-argsize <sig> <total>                    → ok | bad-argsize want <n>
accept-text <sig> <$frame-args>                 → ok | …
sizes <type>                                    → `<size> <align> <k> <off>^k`
accept-count <n> <tag…>                         → ok iff n = 0   (toolchain diagnostics on generated files)

Navigation sessions (components are values; store entry 0 = the selected variable, every `d` appends one):
cmd    := `d <parent> <step>` | `r <i>`
tree <sig> <P|R> <sel> <n> cmd^n                → `<m> | outcome | …`   (one outcome per `r`, as for `resolve`)
accept-tree <sig> <P|R> <sel> <n> cmd^n => <m> (ok <sym|-> <disp> <base> <basic> <asmtext> | err | panic)^m
                                                → ok | bad-resolve <j> <verdict>   (each against its OWN path)

Histories of calls on one build.Context (Model/LayoutCtx):
cls    := gp8|gp16|gp32|gp64|xmm
regref := `p:<NAME>:<cls>` | `a:<k>`                       (register returned by allocation call k)
ref    := `r <P|R> <sel> <path>` | `h <k> <path>`          (component returned by Dereference call k)
op     := `F <name> <sig>` | `A <cls>` | `D <ref>` | `L <ref> <regref>` | `S <regref> <ref>`
          | `X <opcode> <k> regref^k` | `B`                (B = Label)
arg    := `m <sym|-> <disp> <FP|p<NAME>|v<k>>` | `r <p<NAME>|v<k>>`
instr  := `<opcode> <k> arg^k`                             (label: `# 0`)
file   := `<nf> (fn <name> <ni> instr^ni)^nf`
ctxhist <n> op^n                                → `<file> errs <k> <call>^k`
obs    := `<D|A> <call> <fn index> <nodes so far> <v<k>|->`   (register handed out by an allocation / Dereference call)
accept-ctxhist <n> op^n => <file> obs <k> obs^k → ok | bad-functions | bad-pointer-not-loaded fn <name> instr <i>
                                                  | bad-register-not-fresh call <k>
accept-hresolve <call> <n> op^n => <sig> <P|R> <sel> <path> => <outcome>     → as accept-resolve
-/
namespace Avo.Drv.C07
open Avo.Drv Avo.Layout

def basicTable : List (String × Basic) :=
  [("bool", .bool), ("int8", .int8), ("int16", .int16), ("int32", .int32), ("int64", .int64),
   ("uint8", .uint8), ("uint16", .uint16), ("uint32", .uint32), ("uint64", .uint64),
   ("int", .int), ("uint", .uint), ("uintptr", .uintptr), ("float32", .float32), ("float64", .float64),
   ("complex64", .complex64), ("complex128", .complex128), ("string", .string), ("uptr", .unsafePointer)]

def basicOfName (s : String) : Option Basic := (basicTable.find? (·.1 == s)).map (·.2)
def basicName (b : Basic) : String := ((basicTable.find? (·.2 == b)).map (·.1)).getD "?"

mutual
def parseTy : Nat → List String → Option (Ty × List String)
  | 0, _ => none
  | f + 1, ts =>
    match ts with
    | "b" :: n :: ts => (basicOfName n).map (fun b => (Ty.basic b, ts))
    | "p" :: ts => (parseTy f ts).map (fun (e, ts) => (Ty.ptr e, ts))
    | "s" :: ts => (parseTy f ts).map (fun (e, ts) => (Ty.slice e, ts))
    | "a" :: n :: ts =>
      match n.toNat? with
      | some n => (parseTy f ts).map (fun (e, ts) => (Ty.array n e, ts))
      | none => none
    | "t" :: k :: ts =>
      match k.toNat? with
      | some k => (parseFields f k ts).map (fun (fs, ts) => (Ty.struct fs, ts))
      | none => none
    | "n" :: name :: ts => (parseTy f ts).map (fun (u, ts) => (Ty.named name.toList u, ts))
    | "l" :: name :: ts => (parseTy f ts).map (fun (u, ts) => (Ty.named name.toList u, ts))
    | "o" :: k :: ts =>
      match k with
      | "eface" => some (Ty.other .eface, ts)
      | "iface" => some (Ty.other .iface, ts)
      | "map" => some (Ty.other .map, ts)
      | "chan" => some (Ty.other .chan, ts)
      | "func" => some (Ty.other .func, ts)
      | _ => none
    | _ => none
def parseFields : Nat → Nat → List String → Option (Fields × List String)
  | 0, _, _ => none
  | _ + 1, 0, ts => some (.nil, ts)
  | f + 1, k + 1, ts =>
    match ts with
    | name :: ts =>
      match parseTy f ts with
      | some (t, ts) => (parseFields f k ts).map (fun (r, ts) => (Fields.cons name.toList t r, ts))
      | none => none
    | [] => none
end

def tyTok (ts : List String) : Option (Ty × List String) := parseTy (ts.length + 1) ts

def groupTok (ts : List String) : Option (Group × List String) := do
  let (names, ts) ← listOf strTok ts
  let (t, ts) ← tyTok ts
  pure (⟨names.map String.toList, t⟩, ts)

def sigTok (ts : List String) : Option (Sig × List String) := do
  let (ps, ts) ← listOf groupTok ts
  let (rs, ts) ← listOf groupTok ts
  pure (⟨ps, rs⟩, ts)

def retTok : List String → Option (Bool × List String)
  | "P" :: ts => some (false, ts)
  | "R" :: ts => some (true, ts)
  | _ => none

def afterColon (s : String) : String := ":".intercalate ((s.splitOn ":").drop 1)

def selTok : List String → Option (Sel × List String)
  | t :: ts =>
    if t.startsWith "at:" then (afterColon t).toInt?.map (fun i => (Sel.at i, ts))
    else if t.startsWith "name:" then some (Sel.name (afterColon t).toList, ts)
    else none
  | [] => none

def stepTok : List String → Option (Step × List String)
  | "base" :: ts => some (.base, ts)
  | "len" :: ts => some (.len, ts)
  | "cap" :: ts => some (.cap, ts)
  | "real" :: ts => some (.real, ts)
  | "imag" :: ts => some (.imag, ts)
  | t :: ts =>
    if t.startsWith "i:" then (afterColon t).toInt?.map (fun i => (Step.index i, ts))
    else if t.startsWith "f:" then some (Step.field (afterColon t).toList, ts)
    else if t.startsWith "d:" then some (Step.deref (afterColon t).toList, ts)
    else none
  | [] => none

def baseName : Base → String
  | .fp => "FP"
  | .reg r => String.ofList r

def baseOfName (s : String) : Base := if s == "FP" then .fp else .reg s.toList

def symName (n : Name) : String := if n.isEmpty then "-" else String.ofList n

/-- Text of `operand.Mem.Asm()` for symbol/displacement/base, as the Go
assembler reads it: `sym+d(B)`, `sym-d(B)`, `d(B)`, `(B)`. -/
def asmText (a : Addr) : String :=
  let b := "(" ++ baseName a.base ++ ")"
  if a.sym.isEmpty then (if a.disp == 0 then b else toString a.disp ++ b)
  else String.ofList a.sym ++ (if a.disp < 0 then toString a.disp else "+" ++ toString a.disp) ++ b

def renderResolved (a : Addr) (b : Basic) : String :=
  joinSp ["ok", symName a.sym, toString a.disp, baseName a.base, basicName b]

/-- Parse the implementation's outcome tokens. -/
def outcomeTok : List String → Option (Outcome × Option String)
  | ["err"] => some (.err, none)
  | ["panic"] => some (.panic, none)
  | ["ok", sym, disp, base, basic, text] => do
    let d ← disp.toInt?
    let b ← basicOfName basic
    pure (.ok ⟨⟨if sym == "-" then [] else sym.toList, d, baseOfName base⟩, b⟩, some text)
  | _ => none

/-- `$frame-args` / `$frame`. -/
def parseTextSize (s : String) : Option (Nat × Nat) :=
  if !s.startsWith "$" then none else
  match ((s.drop 1).toString.splitOn "-") with
  | [f] => f.toNat?.map (·, 0)
  | [f, a] => do let f ← f.toNat?; let a ← a.toNat?; pure (f, a)
  | _ => none

/-- `<sig> <P|R> <sel> <path> => <outcome>` judged by `acceptResolve` (+ the `Mem.Asm()` text). -/
def acceptResolveToks (rest : List String) : Option String := do
  let (s, rest) ← sigTok rest
  let (isRet, rest) ← retTok rest
  let (sel, rest) ← selTok rest
  let (path, rest) ← listOf stepTok rest
  match rest with
  | "=>" :: out =>
    let (o, text) ← outcomeTok out
    let v := acceptResolve s isRet sel path o
    if v != "ok" then some v else
    match o, text with
    | .ok r, some t => some (if asmText r.addr == t then "ok" else "bad-asm-text want " ++ asmText r.addr)
    | _, _ => some "ok"
  | _ => none

def handle : Handler
  | "resolve" :: rest => do
    let (s, rest) ← sigTok rest
    let (isRet, rest) ← retTok rest
    let (sel, rest) ← selTok rest
    let (path, _) ← listOf stepTok rest
    match resolve s isRet sel path with
    | .ok (a, b) => some (renderResolved a b)
    | .error _ => some "err"
  | "accept-resolve" :: rest => acceptResolveToks rest
  | "argsize" :: rest => do
    let (s, _) ← sigTok rest
    some (toString s.bytes)
  | "accept-argsize" :: rest => do
    let (s, rest) ← sigTok rest
    let (n, _) ← natTok rest
    some (if n == asmArgSize s then "ok" else s!"bad-argsize want {asmArgSize s}")
  | "accept-text" :: rest => do
    let (s, rest) ← sigTok rest
    match rest with
    | [t] =>
      match parseTextSize t with
      | some (_, a) => some (if a == asmArgSize s then "ok" else s!"bad-text-argsize want {asmArgSize s}")
      | none => some "bad-text-syntax"
    | _ => none
  | "sizes" :: rest => do
    let (t, _) ← tyTok rest
    let offs := match t.under with
      | .struct fs => fieldOffsets fs
      | _ => []
    some (joinSp [toString (sizeof t), toString (alignof t), natList offs])
  | "accept-count" :: n :: _ => do
    let n ← n.toNat?
    some (if n == 0 then "ok" else s!"bad-diagnostics {n}")
  | _ => none

/-! ## Histories on one Context -/
section Hist
open Avo.LayoutCtx

def clsOfName : String → Option RegCls
  | "gp8" => some .gp8 | "gp16" => some .gp16 | "gp32" => some .gp32 | "gp64" => some .gp64
  | "xmm" => some .xmm | _ => none

def regRefTok : List String → Option (RegRef × List String)
  | t :: ts =>
    match t.splitOn ":" with
    | ["p", n, c] => (clsOfName c).map (fun c => (RegRef.phys n.toList c, ts))
    | ["a", k] => k.toNat?.map (fun k => (RegRef.alloc k, ts))
    | _ => none
  | [] => none

def refTok : List String → Option (CRef × List String)
  | "r" :: rest => do
    let (isRet, rest) ← retTok rest
    let (sel, rest) ← selTok rest
    let (path, rest) ← listOf stepTok rest
    pure (.root isRet sel path, rest)
  | "h" :: k :: rest => do
    let k ← k.toNat?
    let (path, rest) ← listOf stepTok rest
    pure (.handle k path, rest)
  | _ => none

def opTok : List String → Option (Op × List String)
  | "F" :: name :: rest => do
    let (s, rest) ← sigTok rest
    pure (.func name.toList s, rest)
  | "A" :: c :: rest => (clsOfName c).map (fun c => (Op.alloc c, rest))
  | "D" :: rest => do
    let (c, rest) ← refTok rest
    pure (.deref c, rest)
  | "L" :: rest => do
    let (c, rest) ← refTok rest
    let (r, rest) ← regRefTok rest
    pure (.load c r, rest)
  | "S" :: rest => do
    let (r, rest) ← regRefTok rest
    let (c, rest) ← refTok rest
    pure (.store r c, rest)
  | "X" :: opc :: rest => do
    let (rs, rest) ← listOf regRefTok rest
    pure (.other opc.toList rs, rest)
  | "B" :: rest => some (.label, rest)
  | _ => none

def rgName : Rg → String
  | .phys n => "p" ++ String.ofList n
  | .virt k => "v" ++ toString k

def mbaseName : MBase → String
  | .fp => "FP"
  | .phys n => "p" ++ String.ofList n
  | .virt k => "v" ++ toString k

def argText : Arg → String
  | .mem m => joinSp ["m", symName m.sym, toString m.disp, mbaseName m.base]
  | .reg r => joinSp ["r", rgName r]

def instrText (i : Instr) : String :=
  joinSp ([String.ofList i.op, toString i.args.length] ++ i.args.map argText)

def fnText (f : Fn) : String :=
  joinSp (["fn", String.ofList f.name, toString f.body.length] ++ f.body.map instrText)

def fileText (fs : List Fn) : String := joinSp (toString fs.length :: fs.map fnText)

def rgOfName (s : String) : Option Rg :=
  if s.startsWith "p" then some (.phys (s.drop 1).toString.toList)
  else if s.startsWith "v" then (s.drop 1).toString.toNat?.map Rg.virt
  else none

def mbaseOfName (s : String) : Option MBase :=
  if s == "FP" then some .fp
  else match rgOfName s with
    | some (.phys n) => some (.phys n)
    | some (.virt k) => some (.virt k)
    | none => none

def argTok : List String → Option (Arg × List String)
  | "m" :: sym :: disp :: base :: rest => do
    let d ← disp.toInt?
    let b ← mbaseOfName base
    pure (.mem ⟨if sym == "-" then [] else sym.toList, d, b⟩, rest)
  | "r" :: r :: rest => (rgOfName r).map (fun r => (Arg.reg r, rest))
  | _ => none

def instrTok : List String → Option (Instr × List String)
  | opc :: rest => do
    let (args, rest) ← listOf argTok rest
    pure (⟨opc.toList, args⟩, rest)
  | [] => none

/-- A function of the implementation's file: name and body (the signature is in the history). -/
def fnTok : List String → Option ((String × List Instr) × List String)
  | "fn" :: name :: rest => do
    let (body, rest) ← listOf instrTok rest
    pure ((name, body), rest)
  | _ => none

/-- Index of the first instruction the forward scan rejects. -/
def firstBad : List Nat → List Instr → Nat → Option Nat
  | _, [], _ => none
  | L, ins :: rest, i => if usesOK L ins then firstBad (stepLoaded L ins) rest (i + 1) else some i

def obsTok : List String → Option (Obs × List String)
  | _ :: k :: fi :: pos :: r :: rest => do
    let k ← k.toNat?
    let fi ← fi.toNat?
    let pos ← pos.toNat?
    let v ← (if r == "-" then some none else
      match rgOfName r with
      | some (.virt v) => some (some v)
      | _ => none)
    pure (⟨k, fi, pos, v⟩, rest)
  | _ => none

/-- The first call whose register the freshness acceptor rejects (`obsOKb` = there is none). -/
def firstStale (fns : List (List Instr)) : List Nat → List Obs → Option Nat
  | _, [] => none
  | seen, o :: rest =>
    match o.reg with
    | none => firstStale fns seen rest
    | some v => if !seen.contains v && freshB fns o.fi o.pos v then firstStale fns (v :: seen) rest else some o.call

def splitArrow : List String → List String × List String
  | [] => ([], [])
  | "=>" :: rest => ([], rest)
  | t :: rest => let (a, b) := splitArrow rest; (t :: a, b)

def funcNames : List Op → List String
  | [] => []
  | .func n _ :: r => String.ofList n :: funcNames r
  | _ :: r => funcNames r

def handleHist : Handler
  | "ctxhist" :: rest => do
    let (ops, _) ← listOf opTok rest
    let st := run ops
    some (joinSp [fileText st.fns, "errs", natList st.errs])
  | "accept-ctxhist" :: rest => do
    let (h, o) := splitArrow rest
    let (ops, _) ← listOf opTok h
    let (fns, o) ← listOf fnTok o
    let obs ← (match o with
      | "obs" :: o => (listOf obsTok o).map (·.1)
      | _ => none)
    if fns.map (·.1) != funcNames ops then some "bad-functions" else
    match fns.find? (fun f => !domOKb [] f.2) with
    | some f => some s!"bad-pointer-not-loaded fn {f.1} instr {(firstBad [] f.2 0).getD 0}"
    | none =>
      match firstStale (fns.map (·.2)) [] obs with
      | some k => some s!"bad-register-not-fresh call {k}"
      | none => some "ok"
  | "accept-hresolve" :: _ :: rest =>
    -- `<call> <history> => <accept-resolve request>`: the operand of the instruction call number <call> emitted,
    -- against the signature of the function the call was made in (the history is carried for replay only)
    acceptResolveToks (splitArrow rest).2
  | _ => none

end Hist

/-! ## Navigation sessions: components as values -/
section Tree

def tcmdTok : List String → Option (TCmd × List String)
  | "d" :: p :: rest => do
    let p ← p.toNat?
    let (s, rest) ← stepTok rest
    pure (.derive p s, rest)
  | "r" :: i :: rest => i.toNat?.map (fun i => (TCmd.resolve i, rest))
  | _ => none

/-- One recorded outcome of the implementation: `ok sym disp base basic text` | `err` | `panic`. -/
def toutcomeTok : List String → Option ((Outcome × Option String) × List String)
  | "err" :: rest => some ((.err, none), rest)
  | "panic" :: rest => some ((.panic, none), rest)
  | "ok" :: sym :: disp :: base :: basic :: text :: rest =>
    (outcomeTok ["ok", sym, disp, base, basic, text]).map (·, rest)
  | _ => none

def judgeOne (s : Sig) (isRet : Bool) (sel : Sel) (path : Option (List Step)) (o : Outcome × Option String) : String :=
  match path with
  | none => "bad-no-such-component"
  | some p =>
    let v := acceptResolve s isRet sel p o.1
    if v != "ok" then v else
    match o.1, o.2 with
    | .ok r, some t => if asmText r.addr == t then "ok" else "bad-asm-text want " ++ asmText r.addr
    | _, _ => "ok"

def firstBadResolve (s : Sig) (isRet : Bool) (sel : Sel) :
    List (Option (List Step)) → List (Outcome × Option String) → Nat → Option String
  | [], [], _ => none
  | p :: ps, o :: os, j =>
    let v := judgeOne s isRet sel p o
    if v == "ok" then firstBadResolve s isRet sel ps os (j + 1) else some s!"bad-resolve {j} {v}"
  | _, _, j => some s!"bad-number-of-outcomes {j}"

def handleTree : Handler
  | "tree" :: rest => do
    let (s, rest) ← sigTok rest
    let (isRet, rest) ← retTok rest
    let (sel, rest) ← selTok rest
    let (cmds, _) ← listOf tcmdTok rest
    let st := runTree ((s.tuple isRet).select sel) cmds
    some (" | ".intercalate (toString st.out.length :: st.out.map (fun
      | .ok (a, b) => renderResolved a b
      | .error _ => "err")))
  | "accept-tree" :: rest => do
    let (s, rest) ← sigTok rest
    let (isRet, rest) ← retTok rest
    let (sel, rest) ← selTok rest
    let (cmds, rest) ← listOf tcmdTok rest
    match rest with
    | "=>" :: out =>
      let (os, _) ← listOf toutcomeTok out
      -- every Resolve of the session against the specification for the resolved component's OWN path
      some ((firstBadResolve s isRet sel (resolvePaths cmds) os 0).getD "ok")
    | _ => none
  | _ => none

end Tree

def handlers : List (String × Handler) :=
  ["resolve", "accept-resolve", "argsize", "accept-argsize", "accept-text", "sizes", "accept-count"].map (·, handle)
    ++ ["ctxhist", "accept-ctxhist", "accept-hresolve"].map (·, handleHist)
    ++ ["tree", "accept-tree"].map (·, handleTree)

end Avo.Drv.C07
