/-
Helpers for the line-protocol driver.  Requests are space-separated tokens;
lists are `n x1 … xn`; byte strings are hex.  Core Lean only.
-/
namespace Avo.Drv

abbrev Handler := List String → Option String

def tokens (line : String) : List String :=
  (line.splitOn " ").filter (· ≠ "")

def nat? (s : String) : Option Nat := s.toNat?

def int? (s : String) : Option Int := s.toInt?

/-- Parse `n x1 … xn` with element parser `p` consuming tokens. -/
def listOf {α} (p : List String → Option (α × List String)) : List String → Option (List α × List String)
  | [] => none
  | n :: rest =>
    match n.toNat? with
    | none => none
    | some k =>
      let rec go (k : Nat) (ts : List String) (acc : List α) : Option (List α × List String) :=
        match k with
        | 0 => some (acc.reverse, ts)
        | k+1 => match p ts with
          | none => none
          | some (a, ts') => go k ts' (a :: acc)
      go k rest []

def natTok : List String → Option (Nat × List String)
  | [] => none
  | t :: ts => t.toNat?.map (·, ts)

def intTok : List String → Option (Int × List String)
  | [] => none
  | t :: ts => t.toInt?.map (·, ts)

def strTok : List String → Option (String × List String)
  | [] => none
  | t :: ts => some (t, ts)

def hexDigit (c : Char) : Option Nat :=
  if '0' ≤ c ∧ c ≤ '9' then some (c.toNat - '0'.toNat)
  else if 'a' ≤ c ∧ c ≤ 'f' then some (c.toNat - 'a'.toNat + 10)
  else none

/-- Decode a hex string ("-" is the empty string) to bytes. -/
def unhex (s : String) : Option (List Nat) :=
  if s == "-" then some [] else
  let rec go : List Char → Option (List Nat)
    | [] => some []
    | [_] => none
    | a :: b :: rest => do
      let x ← hexDigit a; let y ← hexDigit b; let r ← go rest
      pure ((x * 16 + y) :: r)
  go s.toList

def hexByte (b : Nat) : String :=
  let d (n : Nat) : Char := if n < 10 then Char.ofNat (n + 48) else Char.ofNat (n - 10 + 97)
  String.ofList [d (b / 16 % 16), d (b % 16)]

def hex (bs : List Nat) : String :=
  if bs.isEmpty then "-" else String.join (bs.map hexByte)

/-- hex of the UTF-8 bytes of a string -/
def hexStr (s : String) : String := hex (s.toUTF8.toList.map (·.toNat))

def unhexStr (s : String) : Option String := do
  let bs ← unhex s
  String.fromUTF8? (ByteArray.mk (bs.map (fun b => UInt8.ofNat b)).toArray)

def joinSp (xs : List String) : String := " ".intercalate xs

def natList (xs : List Nat) : String := joinSp (toString xs.length :: xs.map toString)

/-- Dispatch one request line to the handler registered for its command word.
A request no handler understands yields `bad-op` (never a default value). -/
def dispatch (handlers : List (String × Handler)) (line : String) : String :=
  let ts := tokens line
  match ts with
  | [] => "bad-op"
  | cmd :: _ =>
    match handlers.find? (·.1 == cmd) with
    | none => "bad-op"
    | some (_, h) => (h ts).getD "bad-op"

partial def loop (handlers : List (String × Handler)) (hin hout : IO.FS.Stream) : IO Unit := do
  let line ← hin.getLine
  if line.isEmpty then return ()
  let l := if line.endsWith "\n" then (line.dropEnd 1).toString else line
  hout.putStrLn (dispatch handlers l)
  loop handlers hin hout

/-- One-line-in, one-line-out driver over stdin/stdout. -/
def mainLoop (handlers : List (String × Handler)) : IO Unit := do
  let hin ← IO.getStdin
  let hout ← IO.getStdout
  loop handlers hin hout
  hout.flush

end Avo.Drv
