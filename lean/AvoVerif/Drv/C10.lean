import AvoVerif.Drv.Common
import AvoVerif.Model.Cleanup
import AvoVerif.Props.C10Accept
namespace Avo.Drv.C10
open Avo.Drv Avo.Func Avo.Reg Avo.Cleanup

def mopTok : List String → Option (MOp × List String)
  | "R" :: a :: b :: ts => do let id ← a.toNat?; let m ← b.toNat?; some (.reg ⟨id, m⟩, ts)
  | "O" :: t :: ts => do let n ← t.toNat?; some (.other n, ts)
  | _ => none

/-- `L hex | C | I uid br cond term (-|=hex) opcode nops ops*` -/
def nodeTok : List String → Option (XNode × List String)
  | "L" :: h :: ts => do let s ← unhexStr h; some (.label s, ts)
  | "C" :: ts => some (.comment, ts)
  | "I" :: u :: b :: c :: t :: l :: opc :: ts => do
    let uid ← u.toNat?
    let lbl : Option String ←
      (if l == "-" then some none
       else if l.startsWith "=" then (unhexStr (l.drop 1).toString).map some else none)
    let (ops, ts) ← listOf mopTok ts
    some (.instr ⟨uid, ⟨b == "1", c == "1", t == "1", lbl⟩, opc, ops⟩, ts)
  | _ => none

def renderNodes (ns : List XNode) : String :=
  joinSp (toString ns.length :: ns.map (fun n => match n with
    | .label l => "L " ++ hexStr l
    | .comment => "C"
    | .instr i => s!"I {i.uid}"))

/-- result nodes: `n (L hex | C | I uid)*` resolved against the original instructions -/
def resTok (orig : List XInstr) : List String → Option (XNode × List String)
  | "L" :: h :: ts => do let s ← unhexStr h; some (.label s, ts)
  | "C" :: ts => some (.comment, ts)
  | "I" :: u :: ts => do
    let uid ← u.toNat?
    let i ← orig.find? (·.uid == uid)
    some (.instr i, ts)
  | _ => none

def runPass (pass : String) (ns : List XNode) : Option (List XNode) :=
  if pass == "jumps" then some (pruneJumps ns)
  else if pass == "labels" then some (pruneLabels ns)
  else if pass == "selfmoves" then some (pruneSelfMoves ns)
  else if pass == "compile" then some (pruneSelfMoves (pruneLabels (pruneJumps ns)))
  else none

/-- successor sets by uid (`none` = fall off the end); `none` if the CFG cannot be built -/
def succByUid (ns : List XNode) : Option (List (Nat × List (Option Nat))) :=
  match buildCFG (ns.map XNode.toNode) with
  | .error _ => none
  | .ok g =>
    let is := xinstrs ns
    some ((is.zip g.succ).map (fun (i, ss) => (i.uid, ss.map (fun s => s.bind (fun k => (is[k]?).map (·.uid))))))

def dedupSort (xs : List (Option Nat)) : List Int :=
  ((xs.map (fun x => match x with | none => (-1 : Int) | some n => (n : Int))).toArray.qsort (· < ·)).toList.eraseDups

/-- the point after the last node ("fall off the end"), made explicit so that a label
left at the very end still denotes a program point -/
def endMarker : XNode := .instr ⟨1000000000, ⟨false, false, true, none⟩, "END", []⟩

/-- Second, independent judgement on the control-flow graphs (model of LabelTarget+CFG, `Model/Func`): every
surviving instruction has the same successors once the deleted instructions are contracted to the instruction
that followed them. Only defined when the original function has a well-formed CFG. -/
def cfgVerdicts (orig0 res0 : List XNode) : List Verdict :=
  let orig := orig0 ++ [endMarker]
  let res := res0 ++ [endMarker]
  let oi := xinstrs orig
  let ri := xinstrs res
  let deleted := oi.filter (fun i => !ri.any (·.uid == i.uid))
  match succByUid orig with
  | none => []     -- no well-defined control flow (reported by LabelTarget/CFG): nothing to compare
  | some os =>
    match succByUid res with
    | none => [.cfgBroken]
    | some rs =>
      let idxOf (uid : Nat) : Option Nat := oi.findIdx? (·.uid == uid)
      let contract (fuel : Nat) (u : Option Nat) : Option Nat :=
        (List.range fuel).foldl (fun u _ => match u with
          | none => none
          | some v => if deleted.any (·.uid == v) then
              ((idxOf v).bind (fun k => oi[k+1]?)).map (·.uid) else some v) u
      (rs.filter (fun (uid, ss) =>
        let want := ((os.find? (·.1 == uid)).map (·.2) |>.getD []).map (contract (deleted.length + 1))
        dedupSort ss != dedupSort want)).map (fun (uid, _) => Verdict.successors uid)

/-- All objections, most severe first; the class that is a listed finding (a label referenced only by a
non-branch instruction was deleted) comes LAST so that it can never hide another failure on the same input. -/
def verdicts (orig res : List XNode) : List Verdict :=
  let w := walk res orig res
  let isNB : Verdict → Bool := fun v => match v with | .labelNonBranchRef _ => true | _ => false
  w.filter (fun v => !isNB v) ++ cfgVerdicts orig res ++ w.filter isNB

def renderVerdict : Verdict → String
  | .notSublist => "bad-not-a-sublist"
  | .deleted uid => s!"bad-deleted uid={uid}"
  | .labelBranchRef l => s!"bad-label-deleted-branch-ref l={hexStr l}"
  | .labelNonBranchRef l => s!"bad-label-deleted-nonbranch-ref l={hexStr l}"
  | .cfgBroken => "bad-cfg-broken"
  | .successors uid => s!"bad-successors uid={uid}"

def accept (orig res : List XNode) : String :=
  match verdicts orig res with
  | [] => "ok"
  | v :: _ => renderVerdict v

def handle : Handler
  | "cleanup" :: pass :: rest => do
    let (ns, _) ← listOf nodeTok rest
    let r ← runPass pass ns
    some (renderNodes r)
  | "accept-cleanup" :: _pass :: _tag :: rest => do
    -- the judgement does not depend on which pass produced the output (Props/C10Accept.lean, `walk_sound`)
    let (ns, rest) ← listOf nodeTok rest
    match rest with
    | "=>" :: rest =>
      let (rs, _) ← listOf (resTok (xinstrs ns)) rest
      some (accept ns rs)
    | _ => none
  | _ => none

def handlers : List (String × Handler) := ["cleanup", "accept-cleanup"].map (·, handle)
end Avo.Drv.C10
