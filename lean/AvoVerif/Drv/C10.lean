import AvoVerif.Drv.Common
import AvoVerif.Model.Cleanup
namespace Avo.Drv.C10
open Avo.Drv Avo.Func Avo.Reg Avo.Cleanup

def mopTok : List String → Option (MOp × List String)
  | "R" :: a :: b :: ts => do let id ← a.toNat?; let m ← b.toNat?; some (.reg ⟨id, m⟩, ts)
  | "O" :: t :: ts => do let n ← t.toNat?; some (.other n, ts)
  | _ => none

/-- `L hex | C | I uid br cond term (-|=hex) opcode nops ops*` -/
def nodeTok : List String → Option (XNode × List String)
  | "L" :: h :: ts => do let s ← unhexStr h; some (.label s, ts)
  | "C" :: ts => some (.comment, ts)
  | "I" :: u :: b :: c :: t :: l :: opc :: ts => do
    let uid ← u.toNat?
    let lbl : Option String ←
      (if l == "-" then some none
       else if l.startsWith "=" then (unhexStr (l.drop 1).toString).map some else none)
    let (ops, ts) ← listOf mopTok ts
    some (.instr ⟨uid, ⟨b == "1", c == "1", t == "1", lbl⟩, opc, ops⟩, ts)
  | _ => none

def renderNodes (ns : List XNode) : String :=
  joinSp (toString ns.length :: ns.map (fun n => match n with
    | .label l => "L " ++ hexStr l
    | .comment => "C"
    | .instr i => s!"I {i.uid}"))

/-- result nodes: `n (L hex | C | I uid)*` resolved against the original instructions -/
def resTok (orig : List XInstr) : List String → Option (XNode × List String)
  | "L" :: h :: ts => do let s ← unhexStr h; some (.label s, ts)
  | "C" :: ts => some (.comment, ts)
  | "I" :: u :: ts => do
    let uid ← u.toNat?
    let i ← orig.find? (·.uid == uid)
    some (.instr i, ts)
  | _ => none

def runPass (pass : String) (ns : List XNode) : Option (List XNode) :=
  if pass == "jumps" then some (pruneJumps ns)
  else if pass == "labels" then some (pruneLabels ns)
  else if pass == "selfmoves" then some (pruneSelfMoves ns)
  else none

def isSub : List XNode → List XNode → Bool
  | [], _ => true
  | _ :: _, [] => false
  | a :: as, b :: bs => if a == b then isSub as bs else isSub (a :: as) bs

/-- successor sets by uid (`none` = fall off the end); `none` if the CFG cannot be built -/
def succByUid (ns : List XNode) : Option (List (Nat × List (Option Nat))) :=
  match buildCFG (ns.map XNode.toNode) with
  | .error _ => none
  | .ok g =>
    let is := xs ns
    some ((is.zip g.succ).map (fun (i, ss) => (i.uid, ss.map (fun s => s.bind (fun k => (is[k]?).map (·.uid))))))
where xs : List XNode → List XInstr
  | [] => []
  | .instr i :: r => i :: xs r
  | _ :: r => xs r

def dedupSort (xs : List (Option Nat)) : List Int :=
  ((xs.map (fun x => match x with | none => (-1 : Int) | some n => (n : Int))).toArray.qsort (· < ·)).toList.eraseDups

/-- A semantic no-op move: a plain general-purpose register move onto itself. -/
def semanticNoop (i : XInstr) : Bool :=
  match i.ops with
  | [.reg a, .reg b] => decide (a = b) && movKind i.opcode a b == .plain
  | _ => false

/-- the point after the last node ("fall off the end"), made explicit so that a label
left at the very end still denotes a program point -/
def endMarker : XNode := .instr ⟨1000000000, ⟨false, false, true, none⟩, "END", []⟩

def accept (pass : String) (orig0 res0 : List XNode) : String :=
  if !isSub res0 orig0 then "bad-not-a-sublist" else
  let orig := orig0 ++ [endMarker]
  let res := res0 ++ [endMarker]
  let oi := succByUid.xs orig
  let ri := succByUid.xs res
  let deleted := oi.filter (fun i => !ri.any (·.uid == i.uid))
  match succByUid orig with
  | none => "ok"     -- the function has no well-defined control flow (reported later by LabelTarget/CFG)
  | some os =>
    match succByUid res with
    | none => "bad-cfg-broken"
    | some rs =>
      -- every deleted instruction must be removable: a jump to the very next instruction, or a no-op move
      let idxOf (uid : Nat) : Option Nat := oi.findIdx? (·.uid == uid)
      let bad := deleted.find? (fun d =>
        let ss := dedupSort ((os.find? (·.1 == d.uid)).map (·.2) |>.getD [])
        let nextUid : Int := match (idxOf d.uid).bind (fun k => oi[k+1]?) with | some n => n.uid | none => -1
        if pass == "jumps" then !(d.cf.isBranch && !d.cf.isCond && ss == [nextUid])
        else if pass == "selfmoves" then !(semanticNoop d && ss == [nextUid])
        else true)
      match bad with
      | some d => s!"bad-deleted uid={d.uid}"
      | none =>
        -- contract deleted instructions: each has the single successor `next`
        let contract (fuel : Nat) (u : Option Nat) : Option Nat :=
          (List.range fuel).foldl (fun u _ => match u with
            | none => none
            | some v => if deleted.any (·.uid == v) then
                ((idxOf v).bind (fun k => oi[k+1]?)).map (·.uid) else some v) u
        let mism := rs.find? (fun (uid, ss) =>
          let want := ((os.find? (·.1 == uid)).map (·.2) |>.getD []).map (contract (deleted.length + 1))
          dedupSort ss != dedupSort want)
        match mism with
        | some (uid, _) => s!"bad-successors uid={uid}"
        | none => "ok"

def handle : Handler
  | "cleanup" :: pass :: rest => do
    let (ns, _) ← listOf nodeTok rest
    let r ← runPass pass ns
    some (renderNodes r)
  | "accept-cleanup" :: pass :: rest => do
    let (ns, rest) ← listOf nodeTok rest
    match rest with
    | "=>" :: rest =>
      let (rs, _) ← listOf (resTok (succByUid.xs ns)) rest
      some (accept pass ns rs)
    | _ => none
  | _ => none

def handlers : List (String × Handler) := ["cleanup", "accept-cleanup"].map (·, handle)
end Avo.Drv.C10
