import AvoVerif.Drv.Common
import AvoVerif.Model.Func
import AvoVerif.Props.C09Accept
namespace Avo.Drv.C09
open Avo.Drv Avo.Func

/-- What x86 control flow says about an opcode, independently of avo's table:
`JMP` is an unconditional jump, every other `J…` opcode a conditional branch,
`RET` the (near) return. -/
def specFlags (opcode : String) : Bool × Bool × Bool :=
  let isJ := opcode.startsWith "J"
  (isJ, isJ && opcode != "JMP", opcode == "RET")

/-- Parse `n (L hex | C | I br cond term (-|=hex) opcode)*`; with `spec` the
branch flags are recomputed from the opcode instead of taken from the request. -/
def parseNode (spec : Bool) : List String → Option (Node × List String)
  | "L" :: h :: ts => do let s ← unhexStr h; some (.label s, ts)
  | "C" :: ts => some (.comment, ts)
  | "I" :: b :: c :: t :: l :: opc :: ts =>
    let lbl : Option (Option String) :=
      if l == "-" then some none
      else if l.startsWith "=" then (unhexStr (l.drop 1).toString).map some
      else none
    lbl.map (fun lo =>
      if spec then
        let f := specFlags opc
        (.instr ⟨f.1, f.2.1, f.2.2, lo⟩, ts)
      else (.instr ⟨b == "1", c == "1", t == "1", lo⟩, ts))
  | _ => none

def parseNodes (ts : List String) (spec : Bool := false) : Option (List Node × List String) :=
  listOf (parseNode spec) ts

def sortDedup (xs : List Nat) : List Nat :=
  let a := xs.toArray.qsort (· < ·)
  a.toList.eraseDups

def errName : Err → String
  | .dupLabel => "dup" | .trailingLabel => "trailing" | .noLabel => "nolabel" | .unknownLabel => "unknown"

/-- The model's outcome in the canonical text form: successor and predecessor index sets, sorted, without
duplicates; Go's nil successor (fall off the end) is not part of the outcome (`Avo.Func.outcomeOf`). -/
def renderOutcome : Outcome → String
  | .err => "err"   -- which of the four errors is reported first is not part of the property
  | .graph s p =>
    joinSp (["ok", toString s.length] ++ s.map (fun x => natList (sortDedup x)) ++ p.map (fun x => natList (sortDedup x)))

def render (nodes : List Node) : String := renderOutcome (outcomeOf (buildCFG nodes))

/-- `k x1 … xk` -/
def natListTok (ts : List String) : Option (List Nat × List String) :=
  listOf (fun ts => match ts with
    | t :: rest => t.toNat?.map (·, rest)
    | [] => none) ts

def nLists : Nat → List String → Option (List (List Nat) × List String)
  | 0, ts => some ([], ts)
  | n + 1, ts => do
    let (x, ts) ← natListTok ts
    let (xs, ts) ← nLists n ts
    some (x :: xs, ts)

/-- The implementation's answer: `err` | `ok n succ-lists pred-lists`. A panic is not an outcome the
property allows. -/
def parseOutcome : List String → Option Outcome
  | ["err"] => some .err
  | "ok" :: n :: ts => do
    let n ← n.toNat?
    let (s, ts) ← nLists n ts
    let (p, ts) ← nLists n ts
    if ts.isEmpty then some (.graph s p) else none
  | _ => none

def handle : Handler
  | "cfg" :: rest => do
    let (nodes, _) ← parseNodes rest
    some (render nodes)
  | "accept-cfg" :: rest => do
    -- judged with the control-flow class of each opcode as x86 defines it, by the acceptor of
    -- Props/C09Accept.lean (`acceptCFG_sound`: accepted ⇒ the outcome meets the property)
    let (nodes, rest) ← parseNodes rest (spec := true)
    match rest with
    | "=>" :: impl =>
      match parseOutcome impl with
      | none => some ("bad-outcome (panic or unreadable) want " ++ render nodes)
      | some o =>
        if acceptCFG nodes o then some "ok"
        else match o, outcomeOf (buildCFG nodes) with
          | .graph _ _, .err => some "bad-missing-error want err"
          | .err, m => some ("bad-spurious-error want " ++ renderOutcome m)
          | _, m => some ("bad-graph want " ++ renderOutcome m)
    | _ => none
  | _ => none

def handlers : List (String × Handler) := ["cfg", "accept-cfg"].map (·, handle)

end Avo.Drv.C09
