import AvoVerif.Drv.Common
import AvoVerif.Model.Func
namespace Avo.Drv.C09
open Avo.Drv Avo.Func

/-- What x86 control flow says about an opcode, independently of avo's table:
`JMP` is an unconditional jump, every other `J…` opcode a conditional branch,
`RET` the (near) return. -/
def specFlags (opcode : String) : Bool × Bool × Bool :=
  let isJ := opcode.startsWith "J"
  (isJ, isJ && opcode != "JMP", opcode == "RET")

/-- Parse `n (L hex | C | I br cond term (-|=hex) opcode)*`; with `spec` the
branch flags are recomputed from the opcode instead of taken from the request. -/
def parseNode (spec : Bool) : List String → Option (Node × List String)
  | "L" :: h :: ts => do let s ← unhexStr h; some (.label s, ts)
  | "C" :: ts => some (.comment, ts)
  | "I" :: b :: c :: t :: l :: opc :: ts =>
    let lbl : Option (Option String) :=
      if l == "-" then some none
      else if l.startsWith "=" then (unhexStr (l.drop 1).toString).map some
      else none
    lbl.map (fun lo =>
      if spec then
        let f := specFlags opc
        (.instr ⟨f.1, f.2.1, f.2.2, lo⟩, ts)
      else (.instr ⟨b == "1", c == "1", t == "1", lo⟩, ts))
  | _ => none

def parseNodes (ts : List String) (spec : Bool := false) : Option (List Node × List String) :=
  listOf (parseNode spec) ts

def sortDedup (xs : List Int) : List Int :=
  let a := xs.toArray.qsort (· < ·)
  a.toList.eraseDups

def succInt : Option Nat → Int
  | none => -1
  | some n => n

def intList (xs : List Int) : String := joinSp (toString xs.length :: xs.map toString)

def errName : Err → String
  | .dupLabel => "dup" | .trailingLabel => "trailing" | .noLabel => "nolabel" | .unknownLabel => "unknown"

def render (nodes : List Node) : String :=
  match buildCFG nodes with
  | .error _ => "err"   -- which of the four errors is reported first is not part of the property
  | .ok g =>
    let ss := g.succ.map (fun s => intList (sortDedup (s.map succInt)))
    let ps := g.pred.map (fun p => intList (sortDedup (p.map (fun (n : Nat) => (n : Int)))))
    joinSp (["ok", toString g.succ.length] ++ ss ++ ps)

def handle : Handler
  | "cfg" :: rest => do
    let (nodes, _) ← parseNodes rest
    some (render nodes)
  | "accept-cfg" :: rest => do
    -- judged with the control-flow class of each opcode as x86 defines it
    let (nodes, rest) ← parseNodes rest (spec := true)
    match rest with
    | "=>" :: impl =>
      let m := render nodes
      let implS := joinSp impl
      -- The property pins the graph exactly, and demands *an* error (not a particular message).
      if m.startsWith "err" then
        some (if implS.startsWith "err" then "ok" else "bad-missing-error want " ++ m)
      else some (if implS == m then "ok" else "bad-graph want " ++ m)
    | _ => none
  | _ => none

def handlers : List (String × Handler) := ["cfg", "accept-cfg"].map (·, handle)

end Avo.Drv.C09
