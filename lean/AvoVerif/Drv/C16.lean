import AvoVerif.Drv.Common
import AvoVerif.Model.Locals
namespace Avo.Drv.C16
open Avo.Drv Avo.Locals

/-- `a<size>` = AllocLocal(size), `i0`/`i1` = instruction (1: writes BP). -/
def opTok : List String → Option (Op × List String)
  | [] => none
  | t :: ts =>
    match t.toList with
    | 'a' :: rest => (String.ofList rest).toInt?.map (fun v => (Op.alloc v, ts))
    | ['i', '0'] => some (Op.instr false, ts)
    | ['i', '1'] => some (Op.instr true, ts)
    | _ => none

def regionTok (r : Region) : String :=
  s!"{r.off}:{r.size}:{String.ofList (stackAddrAsm r.off)}"

/-- `off size asm` -/
def regTok3 : List String → Option ((Region × String) × List String)
  | o :: s :: a :: ts => do
    let o ← o.toInt?; let s ← s.toInt?
    some ((⟨o, s⟩, a), ts)
  | _ => none

def forcedTok? (t : String) : Option (Option Region) :=
  if t == "-" then some none else
  match t.splitOn ":" with
  | [o, s] => do let o ← o.toInt?; let s ← s.toInt?; some (some ⟨o, s⟩)
  | _ => none

/-- The byte the measured function stores at position `k` of local number `i`. -/
def pattern (i k : Nat) : Nat := (i * 41 + k * 7 + 13) % 251 + 1

/-- one measured local: `off size npos (pos val)*` -/
def cpuLocalTok : List String → Option ((Region × List (Nat × Nat)) × List String)
  | o :: s :: rest => do
    let o ← o.toInt?; let s ← s.toInt?
    let (pv, rest) ← listOf (fun ts => match ts with
      | p :: v :: ts => do let p ← p.toNat?; let v ← v.toNat?; some ((p, v), ts)
      | _ => none) rest
    some ((⟨o, s⟩, pv), rest)
  | _ => none

def handle : Handler
  | "locals" :: nf :: args :: rest => do
    let args ← args.toInt?
    let (ops, _) ← listOf opTok rest
    match compile ops (nf == "1") with
    | none => some "error"
    | some c =>
      let forced := match c.forced with
        | none => "-"
        | some r => s!"{r.off}:{r.size}"
      some (joinSp (["ok", toString c.regions.length] ++ c.regions.map regionTok ++
        [forced, toString c.frame, String.ofList (textSize c.frame args)]))
  | "accept-locals" :: rest => do
    let (regs, rest) ← listOf regTok3 rest
    match rest with
    | [forced, frame, text] =>
      let forced ← forcedTok? forced
      let frame ← frame.toInt?
      if regs.any (fun p => p.1.size < 0) then some "ok"  -- outside the property's quantifier
      else
        let all := regs.map (·.1) ++ forced.toList
        if !acceptLocals all frame then some "bad-regions"
        else if (parseTextSize text.toList).map (fun p => (p.1 : Int)) != some frame then some "bad-text-frame"
        else if regs.any (fun p => parseStackAddr p.2.toList != some p.1.off) then some "bad-operand"
        -- the property against the frame the assembler really allocates for that TEXT line (int32 truncation)
        else if !acceptLocalsText all text.toList then
          some s!"bad-frame-wraps-int32 declared={frame} assembler-allocates={(asmTextFrame text.toList).getD 0}"
        else some "ok"
    | _ => none
  | "accept-cpu" :: bp :: rest => do
    let (locals, _) ← listOf cpuLocalTok rest
    if bp != "1" then some "bad-bp-not-preserved" else
    let rec check (i : Nat) : List (Region × List (Nat × Nat)) → String
      | [] => "ok"
      | (r, pv) :: more =>
        if pv.any (fun p => decide ((p.1 : Int) ≥ r.size) || p.2 != pattern i p.1) then s!"bad-readback {i}"
        else check (i + 1) more
    some (check 0 locals)
  | "accept-cpu-build" :: _ => some "bad-generated-assembly-does-not-build"
  /- `accept-bpwrite <requested> <compiled>`: the generator emitted an instruction whose destination is a view of
     BP; the compiled function must still write BP (the model's clobber input is the generator's request) -/
  | ["accept-bpwrite", req, got] => some (if req == "1" && got != "1" then "bad-requested-bp-write-missing" else "ok")
  | _ => none

def handlers : List (String × Handler) :=
  ["locals", "accept-locals", "accept-cpu", "accept-cpu-build", "accept-bpwrite"].map (·, handle)

end Avo.Drv.C16
