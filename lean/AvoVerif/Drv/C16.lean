import AvoVerif.Drv.Common
import AvoVerif.Model.Locals
namespace Avo.Drv.C16
open Avo.Drv Avo.Locals

/-- `a<size>` = AllocLocal(size), `i0`/`i1` = instruction (1: writes BP). -/
def opTok : List String → Option (Op × List String)
  | [] => none
  | t :: ts =>
    match t.toList with
    | 'a' :: rest => (String.ofList rest).toInt?.map (fun v => (Op.alloc v, ts))
    | ['i', '0'] => some (Op.instr false, ts)
    | ['i', '1'] => some (Op.instr true, ts)
    | _ => none

def regionTok (r : Region) : String :=
  s!"{r.off}:{r.size}:{String.ofList (stackAddrAsm r.off)}"

/-- `off size asm` -/
def regTok3 : List String → Option ((Region × String) × List String)
  | o :: s :: a :: ts => do
    let o ← o.toInt?; let s ← s.toInt?
    some ((⟨o, s⟩, a), ts)
  | _ => none

def forcedTok? (t : String) : Option (Option Region) :=
  if t == "-" then some none else
  match t.splitOn ":" with
  | [o, s] => do let o ← o.toInt?; let s ← s.toInt?; some (some ⟨o, s⟩)
  | _ => none

/-- The byte the measured function stores at position `k` of local number `i`. -/
def pattern (i k : Nat) : Nat := (i * 41 + k * 7 + 13) % 251 + 1

/-- one measured local: `off size npos (pos val)*` -/
def cpuLocalTok : List String → Option ((Region × List (Nat × Nat)) × List String)
  | o :: s :: rest => do
    let o ← o.toInt?; let s ← s.toInt?
    let (pv, rest) ← listOf (fun ts => match ts with
      | p :: v :: ts => do let p ← p.toNat?; let v ← v.toNat?; some ((p, v), ts)
      | _ => none) rest
    some ((⟨o, s⟩, pv), rest)
  | _ => none

/-- `loc:delta:width` -/
def refTok? (t : String) : Option Ref :=
  match t.splitOn ":" with
  | [l, d, w] => do let l ← l.toNat?; let d ← d.toInt?; let w ← w.toInt?; some ⟨l, d, w⟩
  | _ => none

def allSome {α} : List (Option α) → Option (List α)
  | [] => some []
  | none :: _ => none
  | some a :: rest => (allSome rest).map (a :: ·)

/-- `a<size>` = AllocLocal(size); `i<w>[/loc:delta:width]*[@tag]` = one emitted instruction (w = 1: writes a BP
view) with its stack operands; the tag only tells the Go side how to rebuild the instruction on replay. -/
def popTok : List String → Option (POp × List String)
  | [] => none
  | t :: ts =>
    let body := (t.splitOn "@").headD ""
    match body.toList with
    | 'a' :: rest => (String.ofList rest).toInt?.map (fun v => (POp.alloc v, ts))
    | 'i' :: w :: rest =>
      if w != '0' && w != '1' then none else
      match (String.ofList rest).splitOn "/" with
      | "" :: refs => (allSome (refs.map refTok?)).map (fun rs => (POp.instr (w == '1') rs, ts))
      | _ => none
    | _ => none

/-- `off size` -/
def regTok2 : List String → Option (Region × List String)
  | o :: s :: ts => do let o ← o.toInt?; let s ← s.toInt?; some (⟨o, s⟩, ts)
  | _ => none

/-- `loc delta width <printed operand text>`: the displacement is read from the text by `parseStackAddr` -/
def seenTextTok : List String → Option ((Ref × String) × List String)
  | l :: d :: w :: a :: ts => do
    let l ← l.toNat?; let d ← d.toInt?; let w ← w.toInt?
    some ((⟨l, d, w⟩, a), ts)
  | _ => none

/-- `loc delta width disp` (measured width and displacement) -/
def seenTok : List String → Option (Seen × List String)
  | l :: d :: w :: x :: ts => do
    let l ← l.toNat?; let d ← d.toInt?; let w ← w.toInt?; let x ← x.toInt?
    some (⟨⟨l, d, w⟩, x⟩, ts)
  | _ => none

def regionsStr (rs : List Region) : String :=
  ",".intercalate (rs.map (fun r => s!"[{r.off},{r.off + r.size})"))

/-- First operand that does not sit on the region handed out for its local. -/
def firstMoved (regions : List Region) (seen : List Seen) : String :=
  match seen.find? (fun s => !addrOKB regions s) with
  | none => "-"
  | some s =>
    let want := match regions[s.ref.loc]? with
      | some g => toString (g.off + s.ref.delta)
      | none => "?"
    s!"local={s.ref.loc} handed-out-address={want}(SP) observed={s.disp}(SP)"

def handle : Handler
  | "locals" :: nf :: args :: rest => do
    let args ← args.toInt?
    let (ops, _) ← listOf opTok rest
    match compile ops (nf == "1") with
    | none => some "error"
    | some c =>
      let forced := match c.forced with
        | none => "-"
        | some r => s!"{r.off}:{r.size}"
      some (joinSp (["ok", toString c.regions.length] ++ c.regions.map regionTok ++
        [forced, toString c.frame, String.ofList (textSize c.frame args)]))
  | "accept-locals" :: rest => do
    let (regs, rest) ← listOf regTok3 rest
    match rest with
    | [forced, frame, text] =>
      let forced ← forcedTok? forced
      let frame ← frame.toInt?
      if regs.any (fun p => p.1.size < 0) then some "ok"  -- outside the property's quantifier
      else
        let all := regs.map (·.1) ++ forced.toList
        if !acceptLocals all frame then some "bad-regions"
        else if (parseTextSize text.toList).map (fun p => (p.1 : Int)) != some frame then some "bad-text-frame"
        else if regs.any (fun p => parseStackAddr p.2.toList != some p.1.off) then some "bad-operand"
        -- the property against the frame the assembler really allocates for that TEXT line (int32 truncation)
        else if !acceptLocalsText all text.toList then
          some s!"bad-frame-wraps-int32 declared={frame} assembler-allocates={(asmTextFrame text.toList).getD 0}"
        else some "ok"
    | _ => none
  /- `final nf args nops ops…`: frame, TEXT size and the displacement of every stack operand of the COMPILED function,
     in program order; `=`: every SP-relative memory in Inputs/Outputs is one of the instruction's operands -/
  | "final" :: nf :: args :: rest => do
    let args ← args.toInt?
    let (ops, _) ← listOf popTok rest
    match compileP ops (nf == "1") with
    | none => some "error"
    | some c =>
      some (joinSp (["ok", toString c.frame.frame, String.ofList (textSize c.frame.frame args), toString c.mems.length] ++
        c.mems.map (fun p => toString p.2) ++ ["="]))
  /- `accept-final nreg (off size)* forced nseen (loc delta width text)* textsize`: the function as it is finally PRINTED -/
  | "accept-final" :: rest => do
    let (regs, rest) ← listOf regTok2 rest
    match rest with
    | forced :: rest =>
      let forced ← forcedTok? forced
      let (seenT, rest) ← listOf seenTextTok rest
      match rest with
      | [text] =>
        if regs.any (fun r => r.size < 0) then some "ok" else  -- outside the property's quantifier
        match allSome (seenT.map (fun p => (parseStackAddr p.2.toList).map (fun d => (⟨p.1, d⟩ : Seen)))) with
        | none => some "bad-operand-not-a-plain-hardware-SP-reference"
        | some seen =>
          if acceptFinal regs forced seen text.toList then some "ok"
          else
            let fin := finalRegionsFrom seen 0 regs
            if !acceptLocalsText (fin ++ forced.toList) text.toList then
              some s!"bad-printed-locals-not-disjoint-inside-frame text={text} printed-regions={regionsStr fin} {firstMoved regs seen}"
            else if !seen.all (addrOKB regs) then some s!"bad-printed-operand-moved-off-its-local {firstMoved regs seen}"
            else some s!"bad-regions text={text} regions={regionsStr regs}"
      | _ => none
    | _ => none
  /- `accept-asm nreg (off size)* forced top nres (off size)* nseen (loc delta width disp)*`: the function as ASSEMBLED
     (prologue and every RSP displacement decoded from the object file) -/
  | "accept-asm" :: rest => do
    let (regs, rest) ← listOf regTok2 rest
    match rest with
    | forced :: top :: rest =>
      let forced ← forcedTok? forced
      let top ← top.toInt?
      let (reserved, rest) ← listOf regTok2 rest
      let (seen, _) ← listOf seenTok rest
      let all := regs ++ forced.toList
      if acceptMeasured all seen top reserved then some "ok"
      else if !seen.all (addrOKB all) then some s!"bad-assembled-operand-moved-off-its-local {firstMoved all seen}"
      else if !seen.all (accessInB all) then some "bad-assembled-access-leaves-its-local"
      else some s!"bad-assembled-locals-not-disjoint-inside-frame top={top} reserved={regionsStr reserved} regions={regionsStr all}"
    | _ => none
  | "accept-asm-build" :: _ => some "bad-printed-assembly-does-not-assemble"
  | "accept-cpu" :: bp :: rest => do
    let (locals, _) ← listOf cpuLocalTok rest
    if bp == "canary" then some "bad-caller-frame-overwritten" else
    if bp != "1" then some "bad-bp-not-preserved" else
    let rec check (i : Nat) : List (Region × List (Nat × Nat)) → String
      | [] => "ok"
      | (r, pv) :: more =>
        if pv.any (fun p => decide ((p.1 : Int) ≥ r.size) || p.2 != pattern i p.1) then s!"bad-readback {i}"
        else check (i + 1) more
    some (check 0 locals)
  | "accept-cpu-build" :: _ => some "bad-generated-assembly-does-not-build"
  /- `accept-bpwrite <requested> <compiled>`: the generator emitted an instruction whose destination is a view of
     BP; the compiled function must still write BP (the model's clobber input is the generator's request) -/
  | ["accept-bpwrite", req, got] => some (if req == "1" && got != "1" then "bad-requested-bp-write-missing" else "ok")
  | _ => none

def handlers : List (String × Handler) :=
  ["locals", "accept-locals", "final", "accept-final", "accept-asm", "accept-asm-build", "accept-cpu", "accept-cpu-build",
    "accept-bpwrite"].map (·, handle)

end Avo.Drv.C16
