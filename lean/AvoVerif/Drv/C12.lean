/-
C12 driver.
  stubs <cfg> <file>                      → hex of the model's stub text (the input of go/format)
  wf-stubs <cfg> <file>                   → 1 | 0   (the token hypotheses `WFStubs` of the text-level theorems)
  accept-stubs <cfg> <file> <output-hex>  → ok | bad-…  (the implementation's formatted stub file:
                                            one package clause as configured, one `func` line per
                                            function in file order, its directives directly above it)
  accept-verbatim <cfg> <file> <output-hex> → ok | bad-… (first line = generated-code comment with the tool name /
                                            command line as given; every declaration = Stub() up to layout)
  cli <cwd-base-hex> <n> arg-hex*          → err | pkg=<hex or -> out=<dest> stubs=<dest>   (the configuration layer:
                                            flag.Parse of the command line on build.NewFlags, Flags.Config; the package
                                            clause a stub file gets — `-` when no stub file is written — and where the
                                            assembly and the stub file go; dest = none | stdout | file:<name-hex>)
  accept-cons <file> <asm-hex> <stub-hex> → ok | bad-…  (both outputs carry the same constraint lines)
  accept-gostub <verdict> …, accept-cli <verdict> …, accept-build <verdict> … → ok iff the harness measured `ok`
                                            (go/parser, go/types, go/format; go list/build/vet/link)

Request encoding (harness/c12enc.go):
  cfg     := <name-hex> <0 | 1 n arg-hex*> <pkg-hex>
  file    := <hasConstraints 0/1> <n> cons-line-hex* <n> section*
  section := fn <name-hex> <stub-hex> <n> doc-hex* <n> (dir-hex <n> arg-hex*)*  |  gl <sym-hex>
(the parts of the structured file the stub printer does not look at are not transmitted)
-/
import AvoVerif.Drv.Common
import AvoVerif.Model.Stubs
namespace Avo.Drv.C12
open Avo.Drv Avo.Print

abbrev P (α : Type) := List String → Option (α × List String)

def txtTok : P Txt
  | [] => none
  | t :: ts => (unhexStr t).map (fun s => (s.toList, ts))

def boolTok : P Bool
  | "0" :: ts => some (false, ts)
  | "1" :: ts => some (true, ts)
  | _ => none

def pragmaTok : P Pragma := fun ts => do
  let (d, ts) ← txtTok ts
  let (as, ts) ← listOf txtTok ts
  some (⟨d, as⟩, ts)

def secTok : P Sec
  | "fn" :: ts => do
    let (name, ts) ← txtTok ts
    let (stub, ts) ← txtTok ts
    let (doc, ts) ← listOf txtTok ts
    let (pragmas, ts) ← listOf pragmaTok ts
    some (.fn { name := name, attrs := 0#16, frame := 0, args := 0, isa := [], stub := stub, doc := doc,
                pragmas := pragmas, nodes := [] }, ts)
  | "gl" :: ts => do
    let (sym, ts) ← txtTok ts
    some (.gl { sym := sym, static := true, attrs := 0#16, size := 0, data := [] }, ts)
  | _ => none

def cfgTok : P Config := fun ts => do
  let (name, ts) ← txtTok ts
  let (hasArgv, ts) ← boolTok ts
  let (argv, ts) ← (if hasArgv then (listOf txtTok ts).map (fun p => (some p.1, p.2)) else some (none, ts))
  let (pkg, ts) ← txtTok ts
  some ({ name := name, argv := argv, pkg := pkg }, ts)

def fileTok : P File := fun ts => do
  let (hc, ts) ← boolTok ts
  let (cons, ts) ← listOf txtTok ts
  let (secs, ts) ← listOf secTok ts
  some ({ hasConstraints := hc, constraints := cons, includes := [], sections := secs }, ts)

def hexTxt (t : Txt) : String := hexStr (String.ofList t)

def destStr : Dest → String
  | .none => "none"
  | .stdout => "stdout"
  | .file n => "file:" ++ hexTxt n

def handle : Handler
  | "stubs" :: ts => do
    let (cfg, ts) ← cfgTok ts
    let (f, _) ← fileTok ts
    some (hexTxt (render (printStubs cfg f)))
  | "wf-stubs" :: ts => do
    let (cfg, ts) ← cfgTok ts
    let (f, _) ← fileTok ts
    some (if wfStubsB cfg f then "1" else "0")
  | "accept-stubs" :: ts => do
    let (cfg, ts) ← cfgTok ts
    let (f, ts) ← fileTok ts
    let (out, _) ← txtTok ts
    some (acceptStubs cfg f out)
  | "accept-verbatim" :: ts => do
    let (cfg, ts) ← cfgTok ts
    let (f, ts) ← fileTok ts
    let (out, _) ← txtTok ts
    some (acceptVerbatim cfg f out)
  | "cli" :: ts => do
    let (cwd, ts) ← txtTok ts
    let (args, _) ← listOf txtTok ts
    some (match parseArgs args CliFlags.init with
      | none => "err"
      | some fl =>
        let pkg := match fl.stubs with
          | .none => "-"
          | _ => hexTxt (cliPkg cwd fl)
        "pkg=" ++ pkg ++ " out=" ++ destStr fl.out ++ " stubs=" ++ destStr fl.stubs)
  | "accept-cons" :: ts => do
    let (f, ts) ← fileTok ts
    let (a, ts) ← txtTok ts
    let (s, _) ← txtTok ts
    some (acceptCons f a s)
  -- verdicts measured by the harness with the Go toolchain
  | "accept-gostub" :: r :: _ => some (if r == "ok" then "ok" else "bad-go-toolchain-rejects " ++ r)
  | "accept-cli" :: r :: _ => some (if r == "ok" then "ok" else "bad-cli " ++ r)
  | "accept-build" :: r :: _ => some (if r == "ok" then "ok" else "bad-build " ++ r)
  | _ => none

def handlers : List (String × Handler) :=
  ["stubs", "wf-stubs", "cli", "accept-stubs", "accept-verbatim", "accept-cons", "accept-gostub", "accept-cli", "accept-build"].map (·, handle)

end Avo.Drv.C12
