/-
C12 driver.
  stubs <cfg> <file>                      → hex of the model's stub text (the input of go/format)
  accept-stubs <cfg> <file> <output-hex>  → ok | bad-…  (the implementation's formatted stub file:
                                            one package clause as configured, one `func` line per
                                            function in file order, its directives directly above it)
  accept-cons <file> <asm-hex> <stub-hex> → ok | bad-…  (both outputs carry the same constraint lines)
  accept-gostub <verdict> …, accept-build <verdict> … → ok iff the harness measured `ok`
                                            (go/parser, go/types, go/format; go list/build/vet)
-/
import AvoVerif.Drv.Print
namespace Avo.Drv.C12
open Avo.Drv Avo.Drv.Print Avo.Print

def hasPrefix (p : String) (t : Txt) : Bool := (stripPrefix p.toList t).isSome

def isConstraintLine (t : Txt) : Bool := hasPrefix "//go:build" t || hasPrefix "// +build" t

/-- Constraint lines of the header: everything before the first line that is
neither blank nor a `//` comment nor an `#include`. -/
def headerConstraints : List Txt → List Txt
  | [] => []
  | l :: ls =>
    if l.isEmpty || hasPrefix "//" l || hasPrefix "#include" l then
      (if isConstraintLine l then [l] else []) ++ headerConstraints ls
    else []

/-- The comment block directly above position `i` (nearest line first). -/
def commentsAbove (rev : List Txt) : List Txt := rev.takeWhile (hasPrefix "//")

/-- `func` lines with the directive lines of the comment block above each. -/
def funcDecls : List Txt → List Txt → List (Txt × List Txt)
  | [], _ => []
  | l :: ls, rev =>
    match stripPrefix ['f', 'u', 'n', 'c', ' '] l with
    | some r =>
      (r.takeWhile (fun c => c != '('), ((commentsAbove rev).filter (hasPrefix "//go:")).reverse) ::
        funcDecls ls (l :: rev)
    | none => funcDecls ls (l :: rev)

def acceptStubs (cfg : Config) (f : File) (out : Txt) : String :=
  let ls := splitNL out
  if ls.getLast? != some [] then "bad-no-final-newline" else
  let ls := ls.dropLast
  let pk := ls.filterMap (stripPrefix ['p', 'a', 'c', 'k', 'a', 'g', 'e', ' '])
  if pk != [cfg.pkg] then "bad-package" else
  if headerConstraints ls != f.constraints then "bad-constraints" else
  let ds := funcDecls ls []
  let fs := f.functions
  if ds.map (·.1) != fs.map (·.name) then "bad-declarations" else
  if ds.map (·.2) != fs.map (fun fn => fn.pragmas.map (fun p => pragmaText p.directive p.args)) then "bad-pragmas"
  else "ok"

def acceptCons (f : File) (asm stub : Txt) : String :=
  let a := headerConstraints (splitNL asm)
  let s := headerConstraints (splitNL stub)
  if a != s then "bad-constraints-differ"
  else if a != f.constraints then "bad-constraints-lost"
  else "ok"

def handle : Handler
  | "stubs" :: ts => do
    let (cfg, ts) ← cfgTok ts
    let (f, _) ← fileTok ts
    some (hexTxt (render (printStubs cfg f)))
  | "accept-stubs" :: ts => do
    let (cfg, ts) ← cfgTok ts
    let (f, ts) ← fileTok ts
    let (out, _) ← txtTok ts
    some (acceptStubs cfg f out)
  | "accept-cons" :: ts => do
    let (f, ts) ← fileTok ts
    let (a, ts) ← txtTok ts
    let (s, _) ← txtTok ts
    some (acceptCons f a s)
  -- verdicts measured by the harness with the Go toolchain
  | "accept-gostub" :: r :: _ => some (if r == "ok" then "ok" else "bad-go-toolchain-rejects " ++ r)
  | "accept-build" :: r :: _ => some (if r == "ok" then "ok" else "bad-build " ++ r)
  | _ => none

def handlers : List (String × Handler) :=
  ["stubs", "accept-stubs", "accept-cons", "accept-gostub", "accept-build"].map (·, handle)

end Avo.Drv.C12
