import AvoVerif.Drv.Common
import AvoVerif.Props.C15
import AvoVerif.Gen.Regs
namespace Avo.Drv.C15
open Avo.Drv Avo.Reg Avo.BP

def regTok : List String → Option (R × List String)
  | a :: b :: ts => do let id ← a.toNat?; let m ← b.toNat?; some (⟨id, m⟩, ts)
  | _ => none

def boolTok : List String → Option (Bool × List String)
  | "1" :: ts => some (true, ts)
  | "0" :: ts => some (false, ts)
  | _ => none

/-- Why the acceptor says no (first violated clause of the property). -/
def explain (attrs : Nat) (ls : Int) (hasCall : Bool) (o : Outcome) : String :=
  match o with
  | .err => "bad-refused-although-not-noframe"
  | .ok ls' =>
    if attrNoFrame attrs then "bad-noframe-not-refused"
    else if ls' ≤ 0 then s!"bad-no-frame {ls'}"
    else if !asmSavesBP ls' (attrNoFrame attrs) (attrNoSplit attrs) hasCall then "bad-assembler-does-not-save"
    else if !asmSavesBPQuoted ls' (attrNoFrame attrs) (attrNoSplit attrs) hasCall then "bad-older-assembler-does-not-save"
    else s!"bad {ls} {ls'}"

def handle : Handler
  /- `bp <attrs> <localSize> <n (id mask)*>`: exact model of EnsureBasePointerCalleeSaved on the
     bound output registers → `err noframe` | `ok <localSize>` -/
  | "bp" :: a :: l :: rest => do
    let attrs ← a.toNat?
    let ls ← l.toInt?
    let (outs, _) ← listOf regTok rest
    some (match ensureBP (attrNoFrame attrs) ls (clobbersBP Avo.Gen.regs [outs]) with
      | .error .noframeClobbersBP => "err noframe"
      | .ok ls' => s!"ok {ls'}")
  /- `accept-bp <attrs> <localSize> <hasCall> <n (id mask)*> => err <class> | ok <localSize'>`: the property
     itself on the implementation's outcome; "modifies BP" is the hardware notion (GP number 5) -/
  | "accept-bp" :: a :: l :: rest => do
    let attrs ← a.toNat?
    let ls ← l.toInt?
    let (hasCall, rest) ← boolTok rest
    let (outs, rest) ← listOf regTok rest
    let clob := clobbersBPHW [outs]
    match rest with
    | "=>" :: "panic" :: _ => some "bad-panic"
    | "=>" :: "err" :: _ =>
      some (if acceptBP attrs ls hasCall clob .err then "ok" else explain attrs ls hasCall .err)
    | ["=>", "ok", l'] =>
      let ls' ← l'.toInt?
      some (if acceptBP attrs ls hasCall clob (.ok ls') then "ok" else explain attrs ls hasCall (.ok ls'))
    | _ => none
  /- `accept-bp-exec <attrs> <frame> <hasCall> <clobbersHW> <same|changed|crash>`: measured by calling the
     printed, assembled function: the caller's BP must be unchanged -/
  | ["accept-bp-exec", _, _, _, _, res] =>
    some (if res == "same" then "ok" else "bad-bp-" ++ res)
  | "accept-bp-exec-build" :: _ => some "bad-build"
  | _ => none

def handlers : List (String × Handler) :=
  ["bp", "accept-bp", "accept-bp-exec", "accept-bp-exec-build"].map (·, handle)

end Avo.Drv.C15
