import AvoVerif.Drv.Common
import AvoVerif.Props.C15
import AvoVerif.Props.C15Arch
import AvoVerif.Model.Locals
import AvoVerif.Gen.Regs
namespace Avo.Drv.C15
open Avo.Drv Avo.Reg Avo.BP

def regTok : List String → Option (R × List String)
  | a :: b :: ts => do let id ← a.toNat?; let m ← b.toNat?; some (⟨id, m⟩, ts)
  | _ => none

def boolTok : List String → Option (Bool × List String)
  | "1" :: ts => some (true, ts)
  | "0" :: ts => some (false, ts)
  | _ => none

/-- Why the acceptor says no (first violated clause of the property).  `what`:
"" for the resulting LocalSize, "text-" for the frame printed on the TEXT line. -/
def explain (what : String) (attrs : Nat) (hasCall clob : Bool) (o : Outcome) : String :=
  match o with
  | .err => if !clob then "bad-refused-although-bp-untouched" else "bad-refused-although-not-noframe"
  | .ok ls' =>
    if attrNoFrame attrs then "bad-noframe-not-refused"
    else if ls' ≤ 0 then s!"bad-{what}no-frame {ls'}"
    else if autoffset ls' != ls' && !(autoffset ls' > 0) then
      -- the declared frame does not survive the assembler's int32 truncation: nothing is allocated
      s!"bad-{what}frame-wraps-int32 declared={ls'} assembler-allocates={autoffset ls'}"
    else if !asmSavesBP ls' (attrNoFrame attrs) (attrNoSplit attrs) hasCall then s!"bad-{what}assembler-does-not-save"
    else if !asmSavesBPQuoted ls' (attrNoFrame attrs) (attrNoSplit attrs) hasCall then s!"bad-{what}older-assembler-does-not-save"
    else s!"bad {ls'}"

/-- The frame on a printed TEXT line, `$frame[-args]`, as a number (the assembler's truncation is applied
by the acceptor). -/
def textFrame? (t : String) : Option Int :=
  (Avo.Locals.parseTextSize t.toList).map (fun p => (p.1 : Int))

/-- The part of an `accept-bp…` request behind the register lists: `=> err | panic | ok <localSize'> [<$frame[-args]>]`,
judged with `acceptBP` for the given notion of "modifies BP". -/
def judgeTail (attrs : Nat) (ls : Int) (hasCall : Bool) (clob : Outcome → Bool) (note : String) (rest : List String) : Option String :=
  let judge := fun (what : String) (o : Outcome) =>
    if acceptBP attrs ls hasCall (clob o) o then "ok" else explain what attrs hasCall (clob o) o ++ note
  match rest with
  | "=>" :: "panic" :: _ => some "bad-panic"
  | "=>" :: "err" :: _ => some (judge "" .err)
  | ["=>", "ok", l'] => do
    let ls' ← l'.toInt?
    some (judge "" (.ok ls'))
  | ["=>", "ok", l', text] => do
    let ls' ← l'.toInt?
    match judge "" (.ok ls') with
    | "ok" =>
      match textFrame? text with
      | none => some "bad-text-unreadable"
      | some fr => some (judge "text-" (.ok fr))
    | bad => some bad
  | _ => none

def handle : Handler
  /- `bp <attrs> <localSize> <n (id mask)*>`: exact model of EnsureBasePointerCalleeSaved on the
     bound output registers → `err` | `ok <localSize>` (error versus no error: the message is not compared) -/
  | "bp" :: a :: l :: rest => do
    let attrs ← a.toNat?
    let ls ← l.toInt?
    let (outs, _) ← listOf regTok rest
    some (match ensureBP (attrNoFrame attrs) ls (clobbersBP Avo.Gen.regs [outs]) with
      | .error .noframeClobbersBP => "err"
      | .ok ls' => s!"ok {ls'}")
  /- `accept-bp <attrs> <localSize> <hasCall> <n (id mask)*> => err | panic | ok <localSize'> [<$frame[-args]>]`: the
     property itself on the implementation's outcome; "modifies BP" is the hardware notion (GP number 5); with the
     last token the frame printed on the function's TEXT line is judged as well -/
  | "accept-bp" :: a :: l :: rest => do
    let attrs ← a.toNat?
    let ls ← l.toInt?
    let (hasCall, rest) ← boolTok rest
    let (outs, rest) ← listOf regTok rest
    judgeTail attrs ls hasCall (fun _ => clobbersBPHW [outs]) "" rest
  /- `accept-bp-form <shape> <attrs> <localSize> <hasCall> <measured> <n (id mask)*> <n (id mask)*> => …` (form sweep,
     harness/c15forms.go): the one-instruction function `<shape>`; "can modify BP" = `clobArch`: the instruction was
     MEASURED to change the caller's BP when executed alone, or a destination operand of its table row (first list)
     or a declared output after compilation (second list) is a view of GP register 5.  `acceptBP … (formClob … o) o`
     is `acceptBPForm` (Props/C15Arch, `acceptBPForm_sound/iff`): a refusal is judged with `clobArch`, an accepted
     function with "measured or declared" -/
  | "accept-bp-form" :: _shape :: a :: l :: rest => do
    let attrs ← a.toNat?
    let ls ← l.toInt?
    let (hasCall, rest) ← boolTok rest
    let (measured, rest) ← boolTok rest
    let (dests, rest) ← listOf regTok rest
    let (outs, rest) ← listOf regTok rest
    let note := if measured && !(outs.any isBPHW) then " (measured: executing the instruction changes BP; no declared output is a BP register)"
      else if !measured && !(dests.any isBPHW) && !(outs.any isBPHW) then " (the instruction does not write BP)" else ""
    judgeTail attrs ls hasCall (formClob measured dests outs) note rest
  /- `accept-bp-exec <attrs> <frame> <hasCall> <clobbersHW> <same|changed|crash>`: measured by calling the
     printed, assembled function: the caller's BP must be unchanged -/
  | ["accept-bp-exec", _, _, _, _, res] =>
    some (if res == "same" then "ok" else "bad-bp-" ++ res)
  | "accept-bp-exec-build" :: _ => some "bad-build"
  | _ => none

def handlers : List (String × Handler) :=
  ["bp", "accept-bp", "accept-bp-form", "accept-bp-exec", "accept-bp-exec-build"].map (·, handle)

end Avo.Drv.C15
