/-
Request decoding shared by the C11 and C12 drivers: the structured file.

  cfg  := <name-hex> <0 | 1 n arg-hex*> <pkg-hex>
  file := <hasConstraints 0/1> <n> cons-line-hex* <n> incl-hex* <n> section*
  section := fn <name-hex> <attrs> <frame> <args> <n> isa-hex* <stub-hex> <n> doc-hex*
                <n> (dir-hex <n> arg-hex*)* <n> node*
           | gl <sym-hex> <static 0/1> <attrs> <size> <n> (off bytes value-hex)*
  node := i <opcode-hex> <n> suffix-hex* <n> operand-hex* <terminal 0/1> <uncondBranch 0/1>
        | l <label-hex>
        | c <n> line-hex*
-/
import AvoVerif.Drv.Common
import AvoVerif.Model.Print
namespace Avo.Drv.Print
open Avo.Drv Avo.Print

abbrev P (α : Type) := List String → Option (α × List String)

def txtTok : P Txt
  | [] => none
  | t :: ts => (unhexStr t).map (fun s => (s.toList, ts))

def boolTok : P Bool
  | "0" :: ts => some (false, ts)
  | "1" :: ts => some (true, ts)
  | _ => none

def attrTok : P (BitVec 16) := fun ts => do
  let (n, ts) ← natTok ts
  if n ≥ 65536 then none else some (BitVec.ofNat 16 n, ts)

def nodeTok : P Node
  | "i" :: ts => do
    let (opc, ts) ← txtTok ts
    let (sufs, ts) ← listOf txtTok ts
    let (ops, ts) ← listOf txtTok ts
    let (term, ts) ← boolTok ts
    let (ubr, ts) ← boolTok ts
    some (.instr ⟨opc, sufs, ops, term, ubr⟩, ts)
  | "l" :: ts => do
    let (l, ts) ← txtTok ts
    some (.label l, ts)
  | "c" :: ts => do
    let (ls, ts) ← listOf txtTok ts
    some (.comment ls, ts)
  | _ => none

def pragmaTok : P Pragma := fun ts => do
  let (d, ts) ← txtTok ts
  let (as, ts) ← listOf txtTok ts
  some (⟨d, as⟩, ts)

def datumTok : P Datum := fun ts => do
  let (off, ts) ← intTok ts
  let (b, ts) ← intTok ts
  let (v, ts) ← txtTok ts
  some (⟨off, b, v⟩, ts)

def secTok : P Sec
  | "fn" :: ts => do
    let (name, ts) ← txtTok ts
    let (attrs, ts) ← attrTok ts
    let (frame, ts) ← intTok ts
    let (args, ts) ← intTok ts
    let (isa, ts) ← listOf txtTok ts
    let (stub, ts) ← txtTok ts
    let (doc, ts) ← listOf txtTok ts
    let (pragmas, ts) ← listOf pragmaTok ts
    let (nodes, ts) ← listOf nodeTok ts
    some (.fn ⟨name, attrs, frame, args, isa, stub, doc, pragmas, nodes⟩, ts)
  | "gl" :: ts => do
    let (sym, ts) ← txtTok ts
    let (st, ts) ← boolTok ts
    let (attrs, ts) ← attrTok ts
    let (size, ts) ← intTok ts
    let (data, ts) ← listOf datumTok ts
    some (.gl ⟨sym, st, attrs, size, data⟩, ts)
  | _ => none

def cfgTok : P Config := fun ts => do
  let (name, ts) ← txtTok ts
  let (hasArgv, ts) ← boolTok ts
  let (argv, ts) ← (if hasArgv then (listOf txtTok ts).map (fun p => (some p.1, p.2)) else some (none, ts))
  let (pkg, ts) ← txtTok ts
  some (⟨name, argv, pkg⟩, ts)

def fileTok : P File := fun ts => do
  let (hc, ts) ← boolTok ts
  let (cons, ts) ← listOf txtTok ts
  let (incl, ts) ← listOf txtTok ts
  let (secs, ts) ← listOf secTok ts
  some (⟨hc, cons, incl, secs⟩, ts)

def hexTxt (t : Txt) : String := hexStr (String.ofList t)

def showTxt (t : Txt) : String := hexTxt t

end Avo.Drv.Print
