import AvoVerif.Drv.Common
import AvoVerif.Drv.C02
import AvoVerif.Model.Covers
import AvoVerif.Model.BuildRW
import AvoVerif.Model.DeclCover
namespace Avo.Drv.C04
open Avo.Drv Avo.Reg Avo.MaskSet Avo.RW Avo.BuildRW

def lanesStr (m : Nat) : String :=
  ",".intercalate (((List.range 16).filter (fun i => m.testBit i)).map toString)

/-- `gp3:0,1` / `v17:5,6` / `k2:0,1,2,3`: register class and hardware index from the id, then the lanes. -/
def locStr (p : Nat × Nat) : String :=
  let k := idKind p.1
  let cls := if k == kindGP then "gp" else if k == kindVector then "v" else if k == kindOpmask then "k" else s!"kind{k}_"
  s!"{cls}{idIndex p.1}:{lanesStr p.2}"

def locsStr (s : MS) : String := joinSp (s.map locStr)

/-- `accept-rw <id> <opcode> <types> <isas> <asm hex> D <declared reads> <declared writes> O <observed reads> <observed writes>`
with every set as `n (id mask)*`.  Answers `ok` exactly when `judge` holds; otherwise names the
undeclared lanes. -/
def handle : Handler
  | "accept-rw" :: _id :: _opc :: _types :: _isas :: _asm :: "D" :: rest => do
    let (dR, rest) ← C02.msTok rest
    let (dW, rest) ← C02.msTok rest
    match rest with
    | "O" :: rest =>
      let (oR, rest) ← C02.msTok rest
      let (oW, _) ← C02.msTok rest
      if judge dR dW oR oW then some "ok" else
      let uw := undeclared dW oW
      let ur := undeclared dR oR
      some (match uw.isEmpty, ur.isEmpty with
        | false, true => "bad-undeclared-write " ++ locsStr uw
        | true, false => "bad-undeclared-read " ++ locsStr ur
        | false, false => "bad-undeclared-write " ++ locsStr uw ++ " undeclared-read " ++ locsStr ur
        | true, true => "bad-inconsistent")
    | _ => none
  | _ => none

/-- `accept-exec <id> <opcode.suffixes> <types> <operands> <isas> <outcome>`: an instruction avo built, the
assembler encoded and whose ISA extensions the host reports must execute (`executed`); a fault
(`SIGILL`, `SIGSEGV`, …) means the processor does something no declared read/write set covers. -/
def handleExec : Handler
  | ["accept-exec", _id, _opc, _types, _ops, _isas, outcome] =>
    some (if executes outcome then "ok" else "bad-fault " ++ outcome)
  | _ => none

/-- `accept-build <id> <opcode.suffixes> <types> <operands> <outcome>`: building the instruction, running the
compile pipeline on it and extracting its input/output registers must terminate normally (`built`). -/
def handleBuild : Handler
  | ["accept-build", _id, _opc, _types, _ops, outcome] =>
    some (if builds outcome then "ok" else "bad-" ++ outcome)
  | _ => none

def specTok : List String → Option (Spec × List String)
  | a :: i :: ts => do let ac ← a.toNat?; some (⟨ac, i == "1"⟩, ts)
  | _ => none

/-- `build-rw <cancelling> <n> (<action> <implicit>)* <n> <implicit operand>* <n> <explicit operand>*` (operands
in the encoding of `usedef`, action field ignored): the declared read and written registers computed by the
MODEL OF THE ALGORITHM (`Model/BuildRW`: operand loop of form.build, InputRegisters, OutputRegisters,
ZeroExtend32BitOutputs), compared exactly with what the real code reports. -/
def handleBuildRW : Handler
  | "build-rw" :: c :: rest => do
    let (specs, rest) ← listOf specTok rest
    let (impls, rest) ← listOf C02.opndTok rest
    let (ops, _) ← listOf C02.opndTok rest
    match assign specs (impls.map (·.op)) (ops.map (·.op)) with
    | none => some "panic-build"
    | some a =>
      match declaredReads (c == "1") a with
      | none => some "panic-input-registers"
      | some rs => some (C02.msStr (C02.regSet rs) ++ " " ++ C02.msStr (C02.regSet (declaredWrites a)))
  | _ => none

/-- `accept-decl <id> <opcode.suffixes> <types> <operands> C <cancelling> <n> (<action> <implicit>)* <n> <implicit operand>*
<n> <explicit operand>* D <declared reads> <declared writes>`: the sets the REAL code declares for a row instantiated
with these operands must contain the registers of every entry of the row per its action (`acceptDecl`; theorem
`acceptDecl_sound`), whatever registers coincide between entries.  Otherwise the missing lanes are named. -/
def handleDecl : Handler
  | "accept-decl" :: _id :: _opc :: _types :: _ops :: "C" :: c :: rest => do
    let (specs, rest) ← listOf specTok rest
    let (impls, rest) ← listOf C02.opndTok rest
    let (ops, rest) ← listOf C02.opndTok rest
    match rest with
    | "D" :: rest =>
      let (dR, rest) ← C02.msTok rest
      let (dW, _) ← C02.msTok rest
      let im := impls.map (·.op)
      let ex := ops.map (·.op)
      if acceptDecl (c == "1") specs im ex dR dW then some "ok" else
      match assign specs im ex with
      | none => some "bad-too-few-operands"
      | some _ =>
        let (ur, uw) := declMissing (c == "1") specs im ex dR dW
        some (match uw.isEmpty, ur.isEmpty with
          | false, true => "bad-undeclared-write " ++ locsStr uw
          | true, false => "bad-undeclared-read " ++ locsStr ur
          | false, false => "bad-undeclared-write " ++ locsStr uw ++ " undeclared-read " ++ locsStr ur
          | true, true => "bad-inconsistent")
    | _ => none
  | _ => none

def handlers : List (String × Handler) :=
  [("accept-rw", handle), ("accept-exec", handleExec), ("accept-build", handleBuild), ("build-rw", handleBuildRW),
   ("usedef", C02.handle), ("accept-decl", handleDecl)]

end Avo.Drv.C04
