import AvoVerif.Drv.Common
import AvoVerif.Drv.C02
import AvoVerif.Model.Covers
namespace Avo.Drv.C04
open Avo.Drv Avo.Reg Avo.MaskSet Avo.RW

def lanesStr (m : Nat) : String :=
  ",".intercalate (((List.range 16).filter (fun i => m.testBit i)).map toString)

/-- `gp3:0,1` / `v17:5,6` / `k2:0,1,2,3`: register class and hardware index from the id, then the lanes. -/
def locStr (p : Nat × Nat) : String :=
  let k := idKind p.1
  let cls := if k == kindGP then "gp" else if k == kindVector then "v" else if k == kindOpmask then "k" else s!"kind{k}_"
  s!"{cls}{idIndex p.1}:{lanesStr p.2}"

def locsStr (s : MS) : String := joinSp (s.map locStr)

/-- `accept-rw <id> <opcode> <types> <isas> <asm hex> D <declared reads> <declared writes> O <observed reads> <observed writes>`
with every set as `n (id mask)*`.  Answers `ok` exactly when `judge` holds; otherwise names the
undeclared lanes. -/
def handle : Handler
  | "accept-rw" :: _id :: _opc :: _types :: _isas :: _asm :: "D" :: rest => do
    let (dR, rest) ← C02.msTok rest
    let (dW, rest) ← C02.msTok rest
    match rest with
    | "O" :: rest =>
      let (oR, rest) ← C02.msTok rest
      let (oW, _) ← C02.msTok rest
      if judge dR dW oR oW then some "ok" else
      let uw := undeclared dW oW
      let ur := undeclared dR oR
      some (match uw.isEmpty, ur.isEmpty with
        | false, true => "bad-undeclared-write " ++ locsStr uw
        | true, false => "bad-undeclared-read " ++ locsStr ur
        | false, false => "bad-undeclared-write " ++ locsStr uw ++ " undeclared-read " ++ locsStr ur
        | true, true => "bad-inconsistent")
    | _ => none
  | _ => none

def handlers : List (String × Handler) := [("accept-rw", handle), ("usedef", C02.handle)]

end Avo.Drv.C04
