import AvoVerif.Drv.Common
import AvoVerif.Model.Alloc
import AvoVerif.Model.AllocCheck
import AvoVerif.Gen.Regs
namespace Avo.Drv.C01
open Avo.Drv Avo.Reg Avo.MaskSet Avo.Alloc Avo.AllocCheck

def regTok : List String → Option (R × List String)
  | a :: b :: ts => do let id ← a.toNat?; let m ← b.toNat?; some (⟨id, m⟩, ts)
  | _ => none

def pairTok : List String → Option ((Nat × Nat) × List String)
  | a :: b :: ts => do let x ← a.toNat?; let y ← b.toNat?; some ((x, y), ts)
  | _ => none

def succTok : List String → Option (Option Nat × List String)
  | t :: ts => if t == "-1" then some (none, ts) else t.toNat?.map (fun n => (some n, ts))
  | _ => none

/-- `nregs (id mask)* nouts (id mask)* k (id mask)*` -/
def roleRegTok (ts : List String) : Option ((R × Bool) × List String) := do
  let (r, ts) ← regTok ts
  match ts with
  | d :: ts => some ((r, d == "1"), ts)
  | [] => none

/-- `nregs (id mask role)* nouts (id mask)* k (id mask)*` -/
def ainstrTok (ts : List String) : Option (AInstr × List String) := do
  let (r, ts) ← listOf roleRegTok ts
  let (o, ts) ← listOf regTok ts
  let (l, ts) ← listOf pairTok ts
  some (⟨r.map (·.1), o, l, r.map (·.2)⟩, ts)

/-- `uses defs succ liveIn liveOut` -/
def cinstrTok (ts : List String) : Option (CInstr × List String) := do
  let (u, ts) ← listOf regTok ts
  let (d, ts) ← listOf regTok ts
  let (s, ts) ← listOf succTok ts
  let (li, ts) ← listOf pairTok ts
  let (lo, ts) ← listOf pairTok ts
  some (⟨u, d, s, li, lo⟩, ts)

def errName : AErr → String
  | .impossible => "impossible" | .failed => "failed" | .noRegisters => "noregs"
  | .nonPhysical => "nonphysical" | .missingAllocator => "panic" | .highByte => "highbyte"

def sortPairs (xs : List (Nat × Nat)) : List (Nat × Nat) :=
  (xs.toArray.qsort (fun a b => a.1 < b.1)).toList

def allocStr (al : List (Nat × Nat)) : String :=
  let s := sortPairs al
  joinSp ("ok" :: toString s.length :: s.map (fun p => s!"{p.1} {p.2}"))

def compile (is : List AInstr) : String :=
  -- which error is reported is not part of the property: all error classes answer `err`
  match allocate Avo.Gen.regs is with
  | .error .missingAllocator => "err " ++ errName .missingAllocator
  | .error _ => "err"
  | .ok al =>
    if !verifyBound Avo.Gen.regs al is then "err"
    else if !verifyEncodable Avo.Gen.regs al is then "err"
    else allocStr al

/-- bound: (original register, bound register) per operand register of one instruction -/
def bindTok (ts : List String) : Option ((R × R) × List String) := do
  let (a, ts) ← regTok ts
  let (b, ts) ← regTok ts
  some ((a, b), ts)

/-- `k (id mask role)*  m (id mask)*  u (id mask)*` -/
def rinstrTok (ts : List String) : Option (RInstr × List String) := do
  let (own, ts) ← listOf roleRegTok ts
  let (impl, ts) ← listOf regTok ts
  let (uses, ts) ← listOf regTok ts
  some (⟨own, impl, uses⟩, ts)

def encTok (ts : List String) : Option ((R × R × Bool) × List String) := do
  let (a, ts) ← regTok ts
  let (b, ts) ← regTok ts
  match ts with
  | r :: ts => some ((a, b, r == "1"), ts)
  | [] => none

def handle : Handler
  | "alloc" :: rest => do
    let (is, _) ← listOf ainstrTok rest
    some (compile is)
  | "accept-alloc" :: rest => do
    let (cs, rest) ← listOf cinstrTok rest
    match rest with
    | "=>" :: "ok" :: rest =>
      let (al, _) ← listOf pairTok rest
      let P : CProg := cs.toArray
      some (if !checkPostFix P then "bad-postfix"
        else if !checkAllocShape al then "bad-alloc-shape"
        else if !checkValid P al then "bad-clobber"
        else "ok")
    | "=>" :: "err" :: "panic" :: _ => some "bad-panic"
    | "=>" :: "err" :: _ => some "ok"   -- compiling may fail with an error
    | _ => none
  | "accept-bind" :: rest => do
    -- per instruction: k (orig bound)* ; then => allocation
    let (ins, rest) ← listOf (listOf bindTok) rest
    match rest with
    | "=>" :: rest =>
      let (al, _) ← listOf pairTok rest
      some (match ins.findSome? (checkBind Avo.Gen.regs al) with
        | some d => "bad-bind " ++ d
        | none => "ok")
    | _ => none
  | "accept-regs" :: rest => do
    -- what Instruction.Registers()/InputRegisters() answer vs the harness's own traversal of the operand values
    let (ins, _) ← listOf rinstrTok rest
    some (match ins.findIdx? (fun c => !checkRegsAt c) with
      | some i => s!"bad-registers instr={i}"
      | none => "ok")
  | ["accept-stage", stage, outcome] =>
    -- a stage of the real pipeline panicked, or binding changed the shape of an operand
    some (if outcome == "ok" then "ok" else s!"bad-stage {stage} {outcome}")
  | ["accept-exec", _, outcome, _] =>
    -- measured end to end: the avo-compiled function and the private-storage version of the same
    -- virtual-register program returned the same results on every argument vector tried
    some (if outcome == "same" then "ok" else "bad-exec " ++ outcome)
  | "accept-file" :: rest => do
    -- a whole file through the entry point pass.Compile: `m (ok|err|unk)* => ok|err|panic`; per function what the
    -- real allocation passes said on an identical copy of that one function
    let (fl, rest) ← listOf (fun ts => match ts with
      | "ok" :: ts => some (FnOutcome.ok, ts)
      | "err" :: ts => some (FnOutcome.err, ts)
      | "unk" :: ts => some (FnOutcome.unknown, ts)
      | _ => none) rest
    match rest with
    | ["=>", "ok"] => some (match checkFile fl true with
        | some j => s!"bad-file compile-reported-success-but-function-{j}-has-no-valid-assignment"
        | none => "ok")
    | ["=>", "err"] => some (match checkFile fl false with | some _ => "bad-file" | none => "ok")
    | ["=>", "panic"] => some "bad-panic"
    | _ => none
  | ["accept-print", h] => do
    -- the printed assembly of a successfully compiled file (hex of the bytes)
    let bs ← unhex h
    some (if noVirtualText (bs.map Char.ofNat) then "ok" else "bad-print virtual-register-in-printed-output")
  | "accept-enc" :: rest => do
    -- per instruction: k (orig bound role)*, role 1 = direct register operand, 0 = address register
    let (ins, _) ← listOf (listOf encTok) rest
    some (match ins.findIdx? (fun rs => unencodable (rs.map (fun (_, b, d) => (b, d)))) with
      | some i =>
        -- an author-only conflict is the author's instruction (C05); with a virtual involved it is the allocator's
        if ((ins.getD i []).any (fun (o, _, _) => idIsVirtual o.id)) then s!"bad-unencodable-after-allocation instr={i}"
        else "ok"
      | none => "ok")
  | _ => none

def handlers : List (String × Handler) := ["alloc", "accept-alloc", "accept-bind", "accept-enc", "accept-exec", "accept-regs", "accept-stage", "accept-file", "accept-print"].map (·, handle)

end Avo.Drv.C01
