import AvoVerif.Drv.Common
import AvoVerif.Model.Live
import AvoVerif.Model.UseDefCheck
import AvoVerif.Model.LiveCheck
namespace Avo.Drv.C02
open Avo.Drv Avo.Reg Avo.MaskSet Avo.Live Avo.UseDef

def regTok : List String → Option (R × List String)
  | a :: b :: ts => do let id ← a.toNat?; let m ← b.toNat?; some (⟨id, m⟩, ts)
  | _ => none

def succTok : List String → Option (Option Nat × List String)
  | t :: ts => if t == "-1" then some (none, ts) else t.toNat?.map (fun n => (some n, ts))
  | _ => none

/-- `nuse (id mask)* ndef (id mask)* nsucc succ*` -/
def instrTok (ts : List String) : Option (LInstr × List String) := do
  let (u, ts) ← listOf regTok ts
  let (d, ts) ← listOf regTok ts
  let (s, ts) ← listOf succTok ts
  some (⟨u, d, s⟩, ts)

def msStr (s : MS) : String :=
  let c := canon s
  joinSp (toString c.length :: c.map (fun p => s!"{p.1} {p.2}"))

def msTok (ts : List String) : Option (MS × List String) := do
  let (rs, ts) ← listOf regTok ts
  some (rs.map (fun r => (r.id, r.mask)), ts)

def wf (P : LProg) : Bool :=
  P.toList.all (fun I => I.succ.all (fun s => match s with | none => true | some s => s < P.size))

/-! Third opinion: the path specification computed directly, one location at a
time, by backward closure from the reads (not the algorithm under test). -/

/-- Iterate `step` until nothing changes (at most `fuel` times). -/
def closeLoop (step : Array Bool → Array Bool) : Nat → Array Bool → Array Bool
  | 0, a => a
  | k + 1, a => let b := step a; if b == a then a else closeLoop step k b

def specLiveIn (P : LProg) (id lane : Nat) : Array Bool :=
  let n := P.size
  let use (i : Nat) : Bool := (P.getD i default).uses.any (fun r => r.id == id && r.mask.testBit lane)
  let dfn (i : Nat) : Bool := (P.getD i default).defs.any (fun r => r.id == id && r.mask.testBit lane)
  let init : Array Bool := (Array.range n).map use
  let dfnA : Array Bool := (Array.range n).map dfn
  let step (a : Array Bool) : Array Bool :=
    (Array.range n).map (fun i => a.getD i false ||
      (!dfnA.getD i false && (P.getD i default).succ.any (fun s => match s with | none => false | some s => a.getD s false)))
  -- a fact travels along a path of at most n instructions: n + 1 rounds always suffice
  closeLoop step (n + 1) init

def specLiveOut (P : LProg) (inA : Array Bool) (i : Nat) : Bool :=
  (P.getD i default).succ.any (fun s => match s with | none => false | some s => inA.getD s false)

def allIds (P : LProg) (extra : List MS) : List Nat :=
  ((P.toList.flatMap (fun I => (I.uses ++ I.defs).map (·.id))) ++ extra.flatMap (fun s => s.map (·.1))).eraseDups

/-- Union of all masks mentioned for `id` anywhere (program or reported sets): lanes outside it are dead and
reported dead everywhere. -/
def idMask (P : LProg) (extra : List MS) (id : Nat) : Nat :=
  let a := P.toList.foldl (fun acc I => (I.uses ++ I.defs).foldl (fun acc r => if r.id == id then acc ||| r.mask else acc) acc) 0
  extra.foldl (fun acc s => acc ||| MaskSet.get s id) a

/-- Check reported live sets against the path specification for every register
appearing anywhere and every lane mentioned for it. Returns the first discrepancy. -/
def checkSpec (P : LProg) (ins outs : List MS) : Option String :=
  let ids := allIds P (ins ++ outs)
  ids.findSome? (fun id =>
    let m := idMask P (ins ++ outs) id
    ((List.range 16).filter (fun l => m.testBit l)).findSome? (fun lane =>
    let a := specLiveIn P id lane
    (List.range P.size).findSome? (fun i =>
      let gotIn := mem (ins.getD i []) id lane
      let gotOut := mem (outs.getD i []) id lane
      if gotIn != a.getD i false then some s!"in i={i} id={id} lane={lane} want={a.getD i false}"
      else if gotOut != specLiveOut P a i then some s!"out i={i} id={id} lane={lane} want={specLiveOut P a i}"
      else none)))

def opndTok : List String → Option (AOp × List String)
  | act :: "R" :: a :: b :: r32 :: ts => do
    let ac ← act.toNat?; let id ← a.toNat?; let m ← b.toNat?
    some (⟨ac, .reg ⟨id, m⟩ (r32 == "1")⟩, ts)
  | act :: "M" :: ts => do
    let ac ← act.toNat?
    let (rs, ts) ← listOf regTok ts
    some (⟨ac, .mem rs⟩, ts)
  | act :: "O" :: ts => do
    let ac ← act.toNat?
    some (⟨ac, .other⟩, ts)
  | _ => none

def regSet (rs : List R) : MS := ofRegs rs

def handle : Handler
  | "live" :: rest => do
    let (is, _) ← listOf instrTok rest
    let P : LProg := is.toArray
    if !wf P then some "bad-succ" else
    let r := liveness P (fuelBound P)
    if r.2 then some "nonterminating" else
    some (joinSp ("ok" :: toString P.size ::
      (List.range P.size).map (fun i => msStr (getMS r.1.ins i) ++ " " ++ msStr (getMS r.1.outs i))))
  | "accept-live" :: rest => do
    let (is, rest) ← listOf instrTok rest
    let P : LProg := is.toArray
    match rest with
    | "=>" :: "ok" :: _ :: rest =>
      let rec go (k : Nat) (ts : List String) (ins outs : List MS) : Option (List MS × List MS) :=
        match k with
        | 0 => some (ins.reverse, outs.reverse)
        | k + 1 => do
          let (a, ts) ← msTok ts
          let (b, ts) ← msTok ts
          go k ts (a :: ins) (b :: outs)
      let (ins, outs) ← go P.size rest [] []
      if !wfb P then some "bad-succ" else
      -- the verdict is `acceptLive` (theorem `acceptLive_sound_checked`: equivalent to the path specification at every
      -- instruction, register and lane); `checkSpec`, a direct backward-closure evaluation of the specification that
      -- shares nothing with the model of the algorithm, must agree and names the first discrepancy
      some (match acceptLive P ins outs, checkSpec P ins outs with
        | true, none => "ok"
        | true, some d => "bad-closure-disagrees " ++ d
        | false, some d => "bad-live " ++ d
        | false, none => "bad-live closure-disagrees")
    | _ => some "bad-impl-outcome"
  | "usedef" :: c :: rest => do
    let (ops, _) ← listOf opndTok rest
    some (msStr (regSet (specReads (c == "1") ops)) ++ " " ++ msStr (regSet (specWrites ops)))
  | "accept-usedef" :: c :: rest => do
    let (ops, rest) ← listOf opndTok rest
    match rest with
    | "=>" :: rest =>
      let (ri, rest) ← msTok rest
      let (ro, _) ← msTok rest
      let wantI := regSet (specReads (c == "1") ops)
      let wantO := regSet (specWrites ops)
      -- the verdict is `acceptUseDef` (theorem `acceptUseDef_sound`: lane-wise equality with the specification);
      -- the text after `bad-` only names a first discrepancy for the report
      if acceptUseDef (c == "1") ops ri ro then some "ok" else
      let missing (want got : MS) : Option String :=
        (canon want).findSome? (fun p => if MaskSet.get got p.1 &&& p.2 == p.2 then none else some s!"id={p.1} mask={p.2}")
      let extra (want got : MS) : Option String :=
        (canon got).findSome? (fun p => if MaskSet.get want p.1 &&& p.2 == p.2 then none else some s!"id={p.1} mask={p.2}")
      some (match missing wantI ri, missing wantO ro, extra wantI ri, extra wantO ro with
        | some d, _, _, _ => "bad-missing-read " ++ d
        | _, some d, _, _ => "bad-missing-write " ++ d
        | _, _, some d, _ => "bad-extra-read " ++ d
        | _, _, _, some d => "bad-extra-write " ++ d
        | _, _, _, _ => "bad-usedef")
    | _ => none
  | _ => none

def handlers : List (String × Handler) := ["live", "accept-live", "usedef", "accept-usedef"].map (·, handle)

end Avo.Drv.C02
