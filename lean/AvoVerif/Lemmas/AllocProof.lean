/-
The graph-colouring allocator model is correct: when `allocLoop` succeeds,
the two ends of every interference edge have different registers.
-/
import AvoVerif.Model.Alloc
namespace Avo.Alloc
open Avo.Reg

abbrev Poss := List (Nat × List Nat)

def virt (al : List (Nat × Nat)) (z : Nat) : Bool := idIsVirtual (lookupDefault al z)

def bothVirt (al : List (Nat × Nat)) (e : Nat × Nat) : Bool := virt al e.1 && virt al e.2

/-- An edge that needs no further attention w.r.t. candidate lists `poss`. -/
def Done (al : List (Nat × Nat)) (poss : Poss) (e : Nat × Nat) : Prop :=
  let x := lookupDefault al e.1
  let y := lookupDefault al e.2
  (idIsVirtual x = false ∧ idIsVirtual y = false ∧ x ≠ y) ∨
  (idIsVirtual x = false ∧ idIsVirtual y = true ∧ ∀ l, (y, l) ∈ poss → x ∉ l) ∨
  (idIsVirtual x = true ∧ idIsVirtual y = false ∧ ∀ l, (x, l) ∈ poss → y ∉ l)

theorem discardConf_keys (poss : Poss) (v p : Nat) : (discardConf poss v p).map (·.1) = poss.map (·.1) := by
  unfold discardConf
  rw [List.map_map]
  apply List.map_congr_left
  intro e _
  simp only [Function.comp]
  split <;> rfl

theorem discardConf_mem (poss : Poss) (v p w : Nat) (l' : List Nat) (h : (w, l') ∈ discardConf poss v p) :
    ∃ l, (w, l) ∈ poss ∧ (∀ q, q ∈ l' → q ∈ l) ∧ (w = v → p ∉ l') := by
  unfold discardConf at h
  obtain ⟨e, he, heq⟩ := List.mem_map.mp h
  by_cases hv : (e.1 == v) = true
  · rw [if_pos hv] at heq
    simp only [Prod.mk.injEq] at heq
    obtain ⟨h1, h2⟩ := heq
    refine ⟨e.2, by rw [← h1]; exact he, ?_, ?_⟩
    · intro q hq; rw [← h2] at hq; exact (List.mem_filter.mp hq).1
    · intro _ hp; rw [← h2] at hp
      have := (List.mem_filter.mp hp).2
      simp at this
  · rw [if_neg hv] at heq
    have hv' : e.1 ≠ v := by simpa using hv
    have h1 : e.1 = w := by rw [heq]
    have h2 : e.2 = l' := by rw [heq]
    refine ⟨l', ?_, fun q hq => hq, fun hw => absurd (h1.trans hw) hv'⟩
    rw [← h1, ← h2]; exact he

/-- Specification of `Allocator.update`. -/
theorem updateEdges_spec (al : List (Nat × Nat)) : ∀ (es : List (Nat × Nat)) (poss : Poss) (rem : List (Nat × Nat))
    (poss' : Poss) (rem' : List (Nat × Nat)), updateEdges al es poss rem = .ok (poss', rem') →
    poss'.map (·.1) = poss.map (·.1) ∧
    (∀ w l', (w, l') ∈ poss' → ∃ l, (w, l) ∈ poss ∧ ∀ q, q ∈ l' → q ∈ l) ∧
    (∀ e, e ∈ rem' ↔ (e ∈ rem ∨ (e ∈ es ∧ bothVirt al e = true))) ∧
    (∀ e ∈ es, bothVirt al e = true ∨ Done al poss' e) := by
  intro es
  induction es with
  | nil =>
    intro poss rem poss' rem' h
    simp only [updateEdges] at h
    injection h with h; injection h with h1 h2
    subst h1; subst h2
    exact ⟨rfl, fun w l' hm => ⟨l', hm, fun q hq => hq⟩, by simp, by simp⟩
  | cons e es ih =>
    intro poss rem poss' rem' h
    rcases e with ⟨x0, y0⟩
    simp only [updateEdges] at h
    by_cases hvv : (idIsVirtual (lookupDefault al x0) && idIsVirtual (lookupDefault al y0)) = true
    · rw [if_pos hvv] at h
      obtain ⟨k, m, r, d⟩ := ih poss ((x0, y0) :: rem) poss' rem' h
      refine ⟨k, m, ?_, ?_⟩
      · intro e
        rw [r e]
        simp only [List.mem_cons]
        constructor
        · rintro ((h1 | h1) | h1)
          · right; exact ⟨Or.inl h1, by rw [h1]; exact hvv⟩
          · left; exact h1
          · right; exact ⟨Or.inr h1.1, h1.2⟩
        · rintro (h1 | ⟨h1 | h1, h2⟩)
          · left; right; exact h1
          · left; left; exact h1
          · right; exact ⟨h1, h2⟩
      · intro e he
        rcases List.mem_cons.mp he with rfl | he
        · left; exact hvv
        · exact d e he
    · rw [if_neg hvv] at h
      by_cases hpp : (!idIsVirtual (lookupDefault al x0) && !idIsVirtual (lookupDefault al y0)) = true
      · rw [if_pos hpp] at h
        by_cases heq : (lookupDefault al x0 == lookupDefault al y0) = true
        · rw [if_pos heq] at h; cases h
        · rw [if_neg heq] at h
          obtain ⟨k, m, r, d⟩ := ih poss rem poss' rem' h
          simp only [Bool.and_eq_true, Bool.not_eq_true'] at hpp
          refine ⟨k, m, ?_, ?_⟩
          · intro e
            rw [r e]
            simp only [List.mem_cons]
            constructor
            · rintro (h1 | h1)
              · left; exact h1
              · right; exact ⟨Or.inr h1.1, h1.2⟩
            · rintro (h1 | ⟨h1 | h1, h2⟩)
              · left; exact h1
              · exfalso
                rw [h1] at h2
                simp [bothVirt, virt, hpp.1] at h2
              · right; exact ⟨h1, h2⟩
          · intro e he
            rcases List.mem_cons.mp he with rfl | he
            · right; left
              exact ⟨hpp.1, hpp.2, by simpa using heq⟩
            · exact d e he
      · rw [if_neg hpp] at h
        by_cases hpx : (!idIsVirtual (lookupDefault al x0)) = true
        · -- x physical, y virtual
          rw [if_pos hpx] at h
          have hx : idIsVirtual (lookupDefault al x0) = false := by simpa using hpx
          have hy : idIsVirtual (lookupDefault al y0) = true := by
            cases hh : idIsVirtual (lookupDefault al y0) with
            | true => rfl
            | false => simp [hx, hh] at hpp
          obtain ⟨k, m, r, d⟩ := ih _ rem poss' rem' h
          refine ⟨by rw [k, discardConf_keys], ?_, ?_, ?_⟩
          · intro w l' hm
            obtain ⟨l1, hl1, hsub⟩ := m w l' hm
            obtain ⟨l, hl, hsub2, _⟩ := discardConf_mem _ _ _ _ _ hl1
            exact ⟨l, hl, fun q hq => hsub2 q (hsub q hq)⟩
          · intro e
            rw [r e]
            simp only [List.mem_cons]
            constructor
            · rintro (h1 | h1)
              · left; exact h1
              · right; exact ⟨Or.inr h1.1, h1.2⟩
            · rintro (h1 | ⟨h1 | h1, h2⟩)
              · left; exact h1
              · exfalso; rw [h1] at h2; simp [bothVirt, virt, hx] at h2
              · right; exact ⟨h1, h2⟩
          · intro e he
            rcases List.mem_cons.mp he with rfl | he
            · right; right; left
              refine ⟨hx, hy, ?_⟩
              intro l' hm
              obtain ⟨l1, hl1, hsub⟩ := m _ l' hm
              obtain ⟨_, _, _, hne⟩ := discardConf_mem _ _ _ _ _ hl1
              exact fun hq => hne rfl (hsub _ hq)
            · exact d e he
        · -- x virtual, y physical
          rw [if_neg hpx] at h
          have hx : idIsVirtual (lookupDefault al x0) = true := by simpa using hpx
          have hy : idIsVirtual (lookupDefault al y0) = false := by
            cases hh : idIsVirtual (lookupDefault al y0) with
            | false => rfl
            | true => simp [hx, hh] at hvv
          obtain ⟨k, m, r, d⟩ := ih _ rem poss' rem' h
          refine ⟨by rw [k, discardConf_keys], ?_, ?_, ?_⟩
          · intro w l' hm
            obtain ⟨l1, hl1, hsub⟩ := m w l' hm
            obtain ⟨l, hl, hsub2, _⟩ := discardConf_mem _ _ _ _ _ hl1
            exact ⟨l, hl, fun q hq => hsub2 q (hsub q hq)⟩
          · intro e
            rw [r e]
            simp only [List.mem_cons]
            constructor
            · rintro (h1 | h1)
              · left; exact h1
              · right; exact ⟨Or.inr h1.1, h1.2⟩
            · rintro (h1 | ⟨h1 | h1, h2⟩)
              · left; exact h1
              · exfalso; rw [h1] at h2; simp [bothVirt, virt, hy] at h2
              · right; exact ⟨h1, h2⟩
          · intro e he
            rcases List.mem_cons.mp he with rfl | he
            · right; right; right
              refine ⟨hx, hy, ?_⟩
              intro l' hm
              obtain ⟨l1, hl1, hsub⟩ := m _ l' hm
              obtain ⟨_, _, _, hne⟩ := discardConf_mem _ _ _ _ _ hl1
              exact fun hq => hne rfl (hsub _ hq)
            · exact d e he


/-! ## The allocation loop -/

structure Good (E : List (Nat × Nat)) (st : AState) : Prop where
  alShape : ∀ e ∈ st.allocation, idIsVirtual e.1 = true ∧ idIsVirtual e.2 = false ∧ idKind e.2 = idKind e.1
  disj : ∀ v, v ∈ st.possible.map (·.1) → v ∉ st.allocation.map (·.1)
  possShape : ∀ e ∈ st.possible, idIsVirtual e.1 = true ∧ ∀ p ∈ e.2, idIsVirtual p = false ∧ idKind p = idKind e.1
  covered : ∀ e ∈ E, ∀ z, (z = e.1 ∨ z = e.2) → virt st.allocation z = true → z ∈ st.possible.map (·.1)
  edgeOK : ∀ e ∈ E, e ∈ st.edges ∨ Done st.allocation st.possible e

theorem lookup_of_not_key (al : List (Nat × Nat)) (z : Nat) (h : z ∉ al.map (·.1)) : lookupDefault al z = z := by
  unfold lookupDefault
  cases hf : al.find? (·.1 == z) with
  | none => rfl
  | some e =>
    exfalso
    have hm := List.mem_of_find?_eq_some hf
    have hk := List.find?_some hf
    have : e.1 = z := by simpa using hk
    exact h (List.mem_map.mpr ⟨e, hm, this⟩)

theorem lookup_of_key (al : List (Nat × Nat)) (z : Nat) (h : z ∈ al.map (·.1)) :
    ∃ p, (z, p) ∈ al ∧ lookupDefault al z = p := by
  unfold lookupDefault
  cases hf : al.find? (·.1 == z) with
  | none =>
    exfalso
    obtain ⟨e, he, hz⟩ := List.mem_map.mp h
    have := List.find?_eq_none.mp hf e he
    simp [hz] at this
  | some e =>
    have hm := List.mem_of_find?_eq_some hf
    have hk := List.find?_some hf
    have : e.1 = z := by simpa using hk
    refine ⟨e.2, ?_, rfl⟩
    rw [← this]; exact hm

theorem lookup_append (al : List (Nat × Nat)) (v p z : Nat) :
    lookupDefault (al ++ [(v, p)]) z =
      if z ∈ al.map (·.1) then lookupDefault al z else if z = v then p else z := by
  unfold lookupDefault
  rw [List.find?_append]
  cases hf : al.find? (·.1 == z) with
  | some e =>
    have hm := List.mem_of_find?_eq_some hf
    have hk := List.find?_some hf
    have : e.1 = z := by simpa using hk
    have hz : z ∈ al.map (·.1) := List.mem_map.mpr ⟨e, hm, this⟩
    simp [hz]
  | none =>
    have hz : z ∉ al.map (·.1) := by
      intro hz
      obtain ⟨e, he, hze⟩ := List.mem_map.mp hz
      have := List.find?_eq_none.mp hf e he
      simp [hze] at this
    simp only [Option.none_or, hz, if_false, List.find?_cons, List.find?_nil]
    by_cases hv : z = v
    · subst hv; simp
    · have : ((v, p).1 == z) = false := by simpa using (fun e : v = z => hv e.symm)
      simp [this, hv]

theorem virt_imp (al : List (Nat × Nat)) (hsh : ∀ e ∈ al, idIsVirtual e.1 = true ∧ idIsVirtual e.2 = false ∧ idKind e.2 = idKind e.1)
    (z : Nat) (h : virt al z = true) : z ∉ al.map (·.1) ∧ lookupDefault al z = z ∧ idIsVirtual z = true := by
  by_cases hk : z ∈ al.map (·.1)
  · obtain ⟨p, hp, hl⟩ := lookup_of_key al z hk
    have := (hsh _ hp).2.1
    unfold virt at h; rw [hl] at h; simp only at this; rw [this] at h; cases h
  · have hl := lookup_of_not_key al z hk
    unfold virt at h; rw [hl] at h
    exact ⟨hk, hl, h⟩

theorem mostRestricted_mem : ∀ (l : Poss) (m : Nat × List Nat), mostRestricted l = some m → m ∈ l
  | [], m, h => by simp [mostRestricted] at h
  | e :: es, m, h => by
    simp only [mostRestricted] at h
    cases hr : mostRestricted es with
    | none => simp only [hr] at h; cases h; exact List.mem_cons_self
    | some b =>
      simp only [hr] at h
      have hb := mostRestricted_mem es b hr
      split at h
      · cases h; exact List.mem_cons_self
      · cases h; exact List.mem_cons_of_mem _ hb

theorem mostRestricted_none' : ∀ (l : Poss), mostRestricted l = none → l = []
  | [], _ => rfl
  | e :: es, h => by
    simp only [mostRestricted] at h
    cases hr : mostRestricted es with
    | none => simp [hr] at h
    | some b => simp only [hr] at h; split at h <;> cases h

/-- Allocating `v ↦ p` keeps a finished edge finished. -/
theorem done_transfer (al : List (Nat × Nat)) (poss : Poss) (v p : Nat) (ps : List Nat) (e : Nat × Nat)
    (hsh : ∀ e ∈ al, idIsVirtual e.1 = true ∧ idIsVirtual e.2 = false ∧ idKind e.2 = idKind e.1)
    (hv : idIsVirtual v = true) (hp : idIsVirtual p = false) (hvk : v ∉ al.map (·.1))
    (hmem : (v, ps) ∈ poss) (hpp : p ∈ ps) (hd : Done al poss e) :
    Done (al ++ [(v, p)]) (poss.filter (fun e => e.1 != v)) e := by
  -- how lookups change
  have look : ∀ z, lookupDefault (al ++ [(v, p)]) z =
      if idIsVirtual (lookupDefault al z) = true ∧ z = v then p else lookupDefault al z := by
    intro z
    rw [lookup_append]
    by_cases hz : z ∈ al.map (·.1)
    · obtain ⟨q, hq, hl⟩ := lookup_of_key al z hz
      have hzv : z ≠ v := fun e => hvk (e ▸ hz)
      simp [hz, hzv]
    · have hl := lookup_of_not_key al z hz
      simp only [hz, if_false, hl]
      by_cases hzv : z = v
      · subst hzv; simp [hv]
      · simp [hzv]
  have filt : ∀ w l, (w, l) ∈ poss.filter (fun e => e.1 != v) → (w, l) ∈ poss := fun w l h => (List.mem_filter.mp h).1
  unfold Done at hd ⊢
  simp only at hd ⊢
  have physSame : ∀ z, idIsVirtual (lookupDefault al z) = false →
      lookupDefault (al ++ [(v, p)]) z = lookupDefault al z := by
    intro z hz; rw [look z]; simp [hz]
  have virtOther : ∀ z, z ≠ v → lookupDefault (al ++ [(v, p)]) z = lookupDefault al z := by
    intro z hz; rw [look z]; simp [hz]
  have virtThis : ∀ z, idIsVirtual (lookupDefault al z) = true → z = v →
      lookupDefault (al ++ [(v, p)]) z = p := by
    intro z h1 h2; rw [look z]; subst h2; simp [h1]
  rcases hd with ⟨hx, hy, hne⟩ | ⟨hx, hy, hall⟩ | ⟨hx, hy, hall⟩
  · left
    rw [physSame e.1 hx, physSame e.2 hy]
    exact ⟨hx, hy, hne⟩
  · -- x physical, y virtual
    have hyv := virt_imp al hsh e.2 hy
    rw [physSame e.1 hx]
    by_cases hyv2 : e.2 = v
    · left
      rw [virtThis e.2 hy hyv2]
      refine ⟨hx, hp, ?_⟩
      have hnot := hall ps (by rw [hyv.2.1, hyv2]; exact hmem)
      exact fun h => hnot (h ▸ hpp)
    · right; left
      rw [virtOther e.2 hyv2]
      exact ⟨hx, hy, fun l hl => hall l (filt _ _ hl)⟩
  · have hxv := virt_imp al hsh e.1 hx
    rw [physSame e.2 hy]
    by_cases hxv2 : e.1 = v
    · left
      rw [virtThis e.1 hx hxv2]
      refine ⟨hp, hy, ?_⟩
      have hnot := hall ps (by rw [hxv.2.1, hxv2]; exact hmem)
      exact fun h => hnot (h ▸ hpp)
    · right; right
      rw [virtOther e.1 hxv2]
      exact ⟨hx, hy, fun l hl => hall l (filt _ _ hl)⟩

/-- Candidate lists only shrink. -/
theorem done_mono (al : List (Nat × Nat)) (poss poss' : Poss) (e : Nat × Nat)
    (hm : ∀ w l', (w, l') ∈ poss' → ∃ l, (w, l) ∈ poss ∧ ∀ q, q ∈ l' → q ∈ l) (hd : Done al poss e) :
    Done al poss' e := by
  unfold Done at hd ⊢
  simp only at hd ⊢
  rcases hd with h | ⟨hx, hy, hall⟩ | ⟨hx, hy, hall⟩
  · left; exact h
  · right; left
    refine ⟨hx, hy, ?_⟩
    intro l' hl' hq
    obtain ⟨l, hl, hsub⟩ := hm _ l' hl'
    exact hall l hl (hsub _ hq)
  · right; right
    refine ⟨hx, hy, ?_⟩
    intro l' hl' hq
    obtain ⟨l, hl, hsub⟩ := hm _ l' hl'
    exact hall l hl (hsub _ hq)

/-- **Allocator correctness.** If the loop returns an allocation, the two ends
of every interference edge are mapped to different physical registers, and the
allocation maps virtual ids to physical ids of the same kind. -/
theorem allocLoop_valid (E : List (Nat × Nat)) : ∀ (fuel : Nat) (st : AState) (al : List (Nat × Nat)),
    allocLoop fuel st = .ok al → Good E st →
    (∀ e ∈ E, lookupDefault al e.1 ≠ lookupDefault al e.2) ∧
    (∀ e ∈ al, idIsVirtual e.1 = true ∧ idIsVirtual e.2 = false ∧ idKind e.2 = idKind e.1)
  | 0, st, al, h, _ => by simp [allocLoop] at h
  | fuel + 1, st, al, h, g => by
    simp only [allocLoop] at h
    cases hu : updateEdges st.allocation st.edges st.possible [] with
    | error e => simp [hu] at h
    | ok pr =>
      rcases pr with ⟨poss, rem⟩
      simp only [hu] at h
      obtain ⟨hk, hm, hr, hd⟩ := updateEdges_spec st.allocation st.edges st.possible [] poss rem hu
      -- every edge of E is now either still pending between two virtuals, or done w.r.t. `poss`
      have status : ∀ e ∈ E, (e ∈ rem ∧ bothVirt st.allocation e = true) ∨ Done st.allocation poss e := by
        intro e he
        rcases g.edgeOK e he with h1 | h1
        · rcases hd e h1 with h2 | h2
          · left; exact ⟨(hr e).mpr (Or.inr ⟨h1, h2⟩), h2⟩
          · right; exact h2
        · right; exact done_mono _ _ _ _ hm h1
      cases hmr : mostRestricted poss with
      | none =>
        simp only [hmr] at h
        injection h with h; subst h
        have hposs : poss = [] := mostRestricted_none' poss hmr
        have hkeys : st.possible.map (·.1) = [] := by rw [← hk, hposs]; rfl
        refine ⟨?_, g.alShape⟩
        intro e he
        have nov : ∀ z, (z = e.1 ∨ z = e.2) → virt st.allocation z = false := by
          intro z hz
          cases hvz : virt st.allocation z with
          | false => rfl
          | true =>
            have := g.covered e he z hz hvz
            rw [hkeys] at this; cases this
        rcases status e he with ⟨_, hb⟩ | hdn
        · unfold bothVirt at hb
          rw [nov e.1 (Or.inl rfl)] at hb; cases hb
        · unfold Done at hdn
          simp only at hdn
          have h1 := nov e.1 (Or.inl rfl)
          have h2 := nov e.2 (Or.inr rfl)
          unfold virt at h1 h2
          rcases hdn with ⟨_, _, hne⟩ | ⟨_, hy, _⟩ | ⟨hx, _, _⟩
          · exact hne
          · rw [h2] at hy; cases hy
          · rw [h1] at hx; cases hx
      | some m =>
        rcases m with ⟨v, ps⟩
        simp only [hmr] at h
        cases ps with
        | nil => simp at h
        | cons p ps' =>
          simp only at h
          have hmem : (v, p :: ps') ∈ poss := mostRestricted_mem poss _ hmr
          obtain ⟨l0, hl0, hsub0⟩ := hm v (p :: ps') hmem
          have hshape0 := g.possShape (v, l0) hl0
          have hv : idIsVirtual v = true := hshape0.1
          have hpl : p ∈ l0 := hsub0 p List.mem_cons_self
          have hp : idIsVirtual p = false := (hshape0.2 p hpl).1
          have hpk : idKind p = idKind v := (hshape0.2 p hpl).2
          have hvkey : v ∈ st.possible.map (·.1) := List.mem_map.mpr ⟨(v, l0), hl0, rfl⟩
          have hvk : v ∉ st.allocation.map (·.1) := g.disj v hvkey
          apply allocLoop_valid E fuel _ al h
          constructor
          · -- alShape
            intro e he
            rcases List.mem_append.mp he with he | he
            · exact g.alShape e he
            · have : e = (v, p) := by simpa using he
              subst this; exact ⟨hv, hp, hpk⟩
          · -- disj
            intro w hw
            obtain ⟨e, he, hwe⟩ := List.mem_map.mp hw
            have hef := List.mem_filter.mp he
            have hwv : e.1 ≠ v := by simpa using hef.2
            have hwk : w ∈ st.possible.map (·.1) := by
              rw [← hk]; exact List.mem_map.mpr ⟨e, hef.1, hwe⟩
            simp only [List.map_append, List.map_cons, List.map_nil, List.mem_append, List.mem_singleton, not_or]
            exact ⟨g.disj w hwk, by rw [← hwe]; exact hwv⟩
          · -- possShape
            intro e he
            have hef := (List.mem_filter.mp he).1
            obtain ⟨l, hl, hsub⟩ := hm e.1 e.2 hef
            have := g.possShape (e.1, l) hl
            exact ⟨this.1, fun q hq => this.2 q (hsub q hq)⟩
          · -- covered
            intro e he z hz hvz
            have hshape' : ∀ e ∈ st.allocation ++ [(v, p)], idIsVirtual e.1 = true ∧ idIsVirtual e.2 = false ∧ idKind e.2 = idKind e.1 := by
              intro e he
              rcases List.mem_append.mp he with he | he
              · exact g.alShape e he
              · have : e = (v, p) := by simpa using he
                subst this; exact ⟨hv, hp, hpk⟩
            obtain ⟨hnk, _, hzv⟩ := virt_imp _ hshape' z hvz
            simp only [List.map_append, List.map_cons, List.map_nil, List.mem_append, List.mem_singleton, not_or] at hnk
            have hvz0 : virt st.allocation z = true := by
              unfold virt; rw [lookup_of_not_key _ _ hnk.1]; exact hzv
            have hzk := g.covered e he z hz hvz0
            rw [← hk] at hzk
            obtain ⟨e', he', hze'⟩ := List.mem_map.mp hzk
            exact List.mem_map.mpr ⟨e', List.mem_filter.mpr ⟨he', by simpa [hze'] using hnk.2⟩, hze'⟩
          · -- edgeOK
            intro e he
            rcases status e he with ⟨hrem, _⟩ | hdn
            · left; exact hrem
            · right
              exact done_transfer _ _ v p (p :: ps') e g.alShape hv hp hvk hmem List.mem_cons_self hdn

end Avo.Alloc
