/-
Order independence of the allocation loop: the result of `Allocator.Allocate`
does not depend on the order of the interference edge list (filled by iterating
Go maps) nor on the order in which the `possible` map is visited.
-/
import AvoVerif.Lemmas.AllocProof
namespace Avo.Alloc
open Avo.Reg

abbrev Edge := Nat × Nat
abbrev UAcc := Except AErr (Poss × List Edge)

/-- One edge of `Allocator.update` as a fold step. -/
def stepE (al : List (Nat × Nat)) (acc : UAcc) (e : Edge) : UAcc :=
  match acc with
  | .error err => .error err
  | .ok (poss, rem) =>
    let x := lookupDefault al e.1
    let y := lookupDefault al e.2
    if idIsVirtual x && idIsVirtual y then .ok (poss, e :: rem)
    else if !idIsVirtual x && !idIsVirtual y then (if x == y then .error .impossible else .ok (poss, rem))
    else if !idIsVirtual x then .ok (discardConf poss y x, rem)
    else .ok (discardConf poss x y, rem)

theorem updateEdges_eq_foldl (al : List (Nat × Nat)) : ∀ (es : List Edge) (poss : Poss) (rem : List Edge),
    updateEdges al es poss rem =
      match es.foldl (stepE al) (.ok (poss, rem)) with
      | .error e => .error e
      | .ok (p, r) => .ok (p, r.reverse)
  | [], poss, rem => by simp [updateEdges]
  | (x0, y0) :: es, poss, rem => by
    have foldl_err : ∀ (l : List Edge) (e : AErr), l.foldl (stepE al) (.error e) = .error e := by
      intro l; induction l with
      | nil => intro e; rfl
      | cons a l ih => intro e; simp only [List.foldl_cons, stepE]; exact ih e
    simp only [updateEdges, List.foldl_cons, stepE]
    split
    · exact updateEdges_eq_foldl al es poss ((x0, y0) :: rem)
    · split
      · split
        · rw [foldl_err]
        · exact updateEdges_eq_foldl al es poss rem
      · split
        · exact updateEdges_eq_foldl al es _ rem
        · exact updateEdges_eq_foldl al es _ rem

/-- Equivalence of fold results: same error status, same candidate lists, remaining edges up to order. -/
def Eqv : UAcc → UAcc → Prop
  | .error _, .error _ => True
  | .ok (p, r), .ok (p', r') => p.Perm p' ∧ r.Perm r'
  | _, _ => False

theorem Eqv.refl (a : UAcc) : Eqv a a := by
  cases a with
  | error e => trivial
  | ok pr => exact ⟨List.Perm.refl _, List.Perm.refl _⟩

theorem Eqv.trans {a b c : UAcc} (h1 : Eqv a b) (h2 : Eqv b c) : Eqv a c := by
  cases a <;> cases b <;> cases c <;> simp only [Eqv] at * <;> first | trivial | exact ⟨h1.1.trans h2.1, h1.2.trans h2.2⟩

theorem Eqv.err (a b : AErr) : Eqv (.error a) (.error b) := trivial

theorem Eqv.ok_intro {p p' : Poss} {r r' : List Edge} (h1 : p = p') (h2 : r.Perm r') :
    Eqv (.ok (p, r)) (.ok (p', r')) := ⟨h1 ▸ List.Perm.refl _, h2⟩

theorem discardConf_comm (poss : Poss) (a b c d : Nat) :
    discardConf (discardConf poss a b) c d = discardConf (discardConf poss c d) a b := by
  unfold discardConf
  rw [List.map_map, List.map_map]
  apply List.map_congr_left
  intro e _
  simp only [Function.comp]
  by_cases h1 : (e.1 == a) = true <;> by_cases h2 : (e.1 == c) = true <;> simp [h1, h2, List.filter_filter, Bool.and_comm]

theorem stepE_congr (al : List (Nat × Nat)) (a b : UAcc) (e : Edge) (h : Eqv a b) : Eqv (stepE al a e) (stepE al b e) := by
  cases a with
  | error ea => cases b with
    | error eb => trivial
    | ok _ => cases h
  | ok pa => cases b with
    | error _ => cases h
    | ok pb =>
      rcases pa with ⟨p, r⟩; rcases pb with ⟨p', r'⟩
      obtain ⟨hp, hr⟩ := h
      simp only [stepE]
      split
      · exact ⟨hp, List.Perm.cons _ hr⟩
      · split
        · split
          · trivial
          · exact ⟨hp, hr⟩
        · split
          · exact ⟨by unfold discardConf; exact hp.map _, hr⟩
          · exact ⟨by unfold discardConf; exact hp.map _, hr⟩

/-- Two edges can be processed in either order. -/
theorem stepE_comm (al : List (Nat × Nat)) (a : UAcc) (e f : Edge) :
    Eqv (stepE al (stepE al a e) f) (stepE al (stepE al a f) e) := by
  cases a with
  | error _ => trivial
  | ok pr =>
    rcases pr with ⟨p, r⟩
    simp only [stepE]
    generalize idIsVirtual (lookupDefault al e.1) = a1
    generalize idIsVirtual (lookupDefault al e.2) = a2
    generalize idIsVirtual (lookupDefault al f.1) = b1
    generalize idIsVirtual (lookupDefault al f.2) = b2
    cases a1 <;> cases a2 <;> cases b1 <;> cases b2 <;>
      simp only [Bool.true_and, Bool.and_true, Bool.false_and, Bool.and_false, Bool.not_true, Bool.not_false,
        if_true, if_false, Bool.false_eq_true, Bool.and_self] <;>
      (repeat' split) <;>
      first
        | exact Eqv.refl _
        | exact Eqv.err _ _
        | exact Eqv.ok_intro rfl (List.Perm.swap _ _ _)
        | exact Eqv.ok_intro rfl (List.Perm.refl _)
        | exact Eqv.ok_intro (discardConf_comm _ _ _ _ _) (List.Perm.refl _)
        | exact Eqv.ok_intro (discardConf_comm _ _ _ _ _).symm (List.Perm.refl _)
        | (simp_all <;> first
            | exact Eqv.refl _
            | exact Eqv.err _ _
            | exact Eqv.ok_intro rfl (List.Perm.swap _ _ _)
            | exact Eqv.ok_intro rfl (List.Perm.refl _)
            | exact Eqv.ok_intro (discardConf_comm _ _ _ _ _) (List.Perm.refl _)
            | exact Eqv.ok_intro (discardConf_comm _ _ _ _ _).symm (List.Perm.refl _))

theorem foldl_congr (al : List (Nat × Nat)) : ∀ (es : List Edge) (a b : UAcc), Eqv a b →
    Eqv (es.foldl (stepE al) a) (es.foldl (stepE al) b)
  | [], _, _, h => h
  | e :: es, a, b, h => foldl_congr al es _ _ (stepE_congr al a b e h)

/-- `Allocator.update` treats the edge list as a multiset. -/
theorem foldl_perm (al : List (Nat × Nat)) {es es' : List Edge} (h : es.Perm es') :
    ∀ a : UAcc, Eqv (es.foldl (stepE al) a) (es'.foldl (stepE al) a) := by
  induction h with
  | nil => intro a; exact Eqv.refl a
  | cons e _ ih => intro a; simp only [List.foldl_cons]; exact ih _
  | swap e f l =>
    intro a
    simp only [List.foldl_cons]
    exact foldl_congr al l _ _ (stepE_comm al a f e)
  | trans _ _ ih1 ih2 => intro a; exact Eqv.trans (ih1 a) (ih2 a)

end Avo.Alloc
