/-
Refinement lemmas: every MaskSet operation is the corresponding set operation
on locations (register id, byte lane).
-/
import AvoVerif.Model.MaskSet
namespace Avo.MaskSet
open Avo.Reg

theorem or_of_and_eq {a m : Nat} (h : a &&& m = m) : a ||| m = a := by
  apply Nat.eq_of_testBit_eq; intro i
  have := congrArg (fun x => x.testBit i) h
  simp only [Nat.testBit_and] at this
  simp only [Nat.testBit_or]
  cases ha : a.testBit i <;> cases hm : m.testBit i <;> simp_all

theorem testBit_clear (v m i : Nat) : (clear v m).testBit i = (v.testBit i && !m.testBit i) := by
  unfold clear
  simp only [Nat.testBit_xor, Nat.testBit_and]
  cases v.testBit i <;> cases m.testBit i <;> rfl

theorem clear_or (a b m : Nat) : clear (a ||| b) m = clear a m ||| clear b m := by
  apply Nat.eq_of_testBit_eq; intro i
  simp only [testBit_clear, Nat.testBit_or]
  cases a.testBit i <;> cases b.testBit i <;> cases m.testBit i <;> rfl

theorem clear_zero (m : Nat) : clear 0 m = 0 := by simp [clear]

@[simp] theorem get_nil (id : Nat) : get [] id = 0 := rfl

theorem get_orInto (s : MS) (id m j : Nat) :
    get (orInto s id m) j = if j = id then get s id ||| m else get s j := by
  induction s with
  | nil =>
    by_cases h : j = id
    · subst h; simp [orInto, get]
    · have : ¬ id = j := fun e => h e.symm
      simp [orInto, get, h, this]
  | cons p s ih =>
    rcases p with ⟨k, v⟩
    by_cases hk : k = id
    · subst hk
      by_cases h : j = k
      · subst h; simp [orInto, get, Nat.or_assoc, Nat.or_comm (get s j) m]
      · have : ¬ k = j := fun e => h e.symm
        simp [orInto, get, h, this]
    · simp only [orInto, hk, if_false, get]
      by_cases h : j = id
      · subst h
        have : ¬ k = j := hk
        simp [this, ih]
      · by_cases hkj : k = j
        · simp [hkj, h, ih]
        · simp [hkj, h, ih]

theorem get_add (s : MS) (id m j : Nat) :
    get (add s id m).1 j = if j = id then get s id ||| m else get s j := by
  unfold add
  by_cases h : get s id &&& m = m
  · simp only [h, if_true]
    by_cases hj : j = id
    · subst hj; simp [or_of_and_eq h]
    · simp [hj]
  · simp only [h, if_false]; exact get_orInto s id m j

theorem add_flag (s : MS) (id m : Nat) : (add s id m).2 = false ↔ get s id &&& m = m := by
  unfold add; by_cases h : get s id &&& m = m <;> simp [h]

theorem add_unchanged (s : MS) (id m : Nat) (h : (add s id m).2 = false) : (add s id m).1 = s := by
  have := (add_flag s id m).mp h
  unfold add; simp [this]

theorem get_discard (s : MS) (id m j : Nat) :
    get (discard s id m) j = if j = id then clear (get s id) m else get s j := by
  induction s with
  | nil => simp [discard, clear_zero]
  | cons p s ih =>
    rcases p with ⟨k, v⟩
    by_cases hk : k = id
    · subst hk
      by_cases hz : clear v m = 0
      · simp only [discard, if_true, hz, get]
        by_cases hj : j = k
        · subst hj; simp [ih, clear_or, hz]
        · have : ¬ k = j := fun e => hj e.symm
          simp [ih, hj, this]
      · simp only [discard, if_true, hz, if_false, get]
        by_cases hj : j = k
        · subst hj; simp [ih, clear_or]
        · have : ¬ k = j := fun e => hj e.symm
          simp [ih, hj, this]
    · simp only [discard, hk, if_false, get]
      by_cases hj : j = id
      · subst hj
        have : ¬ k = j := hk
        simp [this, ih]
      · by_cases hkj : k = j <;> simp [hkj, hj, ih]

/-! ### Location level -/

theorem mem_add (s : MS) (id m j lane : Nat) :
    mem (add s id m).1 j lane = (mem s j lane || (j == id && m.testBit lane)) := by
  unfold mem; rw [get_add]
  by_cases h : j = id
  · subst h; simp [Nat.testBit_or]
  · simp [h]

theorem mem_discard (s : MS) (id m j lane : Nat) :
    mem (discard s id m) j lane = (mem s j lane && !(j == id && m.testBit lane)) := by
  unfold mem; rw [get_discard]
  by_cases h : j = id
  · subst h; simp [testBit_clear]
  · simp [h]

theorem mem_nil (j lane : Nat) : mem [] j lane = false := by simp [mem]

theorem mem_cons (k v : Nat) (t : MS) (j lane : Nat) :
    mem ((k, v) :: t) j lane = ((k == j && v.testBit lane) || mem t j lane) := by
  unfold mem; simp only [get]
  by_cases h : k = j
  · subst h; simp [Nat.testBit_or]
  · simp [h]

theorem mem_update (s t : MS) (j lane : Nat) :
    mem (update s t).1 j lane = (mem s j lane || mem t j lane) := by
  induction t generalizing s with
  | nil => simp [update, mem_nil]
  | cons p t ih =>
    rcases p with ⟨k, v⟩
    simp only [update, ih, mem_add, mem_cons]
    by_cases h : j = k
    · subst h; simp [Bool.or_assoc]
    · have hb : (j == k) = false := by simpa using h
      have hb' : (k == j) = false := by simpa using (fun e : k = j => h e.symm)
      simp [hb, hb']

theorem update_unchanged (s t : MS) (h : (update s t).2 = false) :
    (update s t).1 = s ∧ ∀ j lane, mem t j lane = true → mem s j lane = true := by
  induction t generalizing s with
  | nil => simp [update, mem_nil]
  | cons p t ih =>
    rcases p with ⟨k, v⟩
    simp only [update, Bool.or_eq_false_iff] at h
    have h1 := add_unchanged s k v h.1
    have hk := (add_flag s k v).mp h.1
    simp only [update]
    rw [h1] at h ⊢
    obtain ⟨e, hm⟩ := ih s h.2
    refine ⟨e, ?_⟩
    intro j lane hj
    rw [mem_cons] at hj
    rcases Bool.or_eq_true _ _ |>.mp hj with hj | hj
    · have hj' := Bool.and_eq_true _ _ |>.mp hj
      have hkj : k = j := by simpa using hj'.1
      subst hkj
      unfold mem
      have := congrArg (fun x => x.testBit lane) hk
      simp only [Nat.testBit_and, hj'.2, Bool.and_true] at this
      exact this
    · exact hm j lane hj

theorem mem_difference (s t : MS) (j lane : Nat) :
    mem (difference s t) j lane = (mem s j lane && !mem t j lane) := by
  induction t generalizing s with
  | nil => simp [difference, mem_nil]
  | cons p t ih =>
    rcases p with ⟨k, v⟩
    simp only [difference, ih, mem_discard, mem_cons]
    by_cases h : j = k
    · subst h; cases mem s j lane <;> cases v.testBit lane <;> cases mem t j lane <;> simp
    · have hb : (j == k) = false := by simpa using h
      have hb' : (k == j) = false := by simpa using (fun e : k = j => h e.symm)
      simp [hb, hb']

theorem mem_ofRegs (rs : List R) (j lane : Nat) :
    mem (ofRegs rs) j lane = rs.any (fun r => r.id == j && r.mask.testBit lane) := by
  induction rs with
  | nil => simp [ofRegs, mem_nil]
  | cons r rs ih =>
    simp only [ofRegs, mem_add, ih, List.any_cons]
    by_cases h : j = r.id
    · subst h; simp [Bool.or_comm]
    · have hb : (j == r.id) = false := by simpa using h
      have hb' : (r.id == j) = false := by simpa using (fun e : r.id = j => h e.symm)
      simp [hb, hb']

end Avo.MaskSet
