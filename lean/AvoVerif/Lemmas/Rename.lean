/-
Abstract machine and the renaming (register allocation) simulation:
renaming storage locations preserves memory and control under a liveness
post-fixpoint and a validity condition on the renaming.

An instruction's meaning is an arbitrary function of the values in its use
slots and memory, producing values for its def slots, new memory and a
successor choice.  Register names do not occur in the meaning.  Flags and any
other global machine state are part of `Mem`.
-/
namespace Avo.Machine

abbrev Val := Nat
abbrev Mem := Nat → Nat

variable {Loc : Type} [DecidableEq Loc]

structure Instr (Loc : Type) where
  uses : List Loc
  defs : List Loc
  sem  : List Val → Mem → List Val × Mem × Nat
  succ : List (Option Nat)

structure Prog (Loc : Type) where
  code : Nat → Option (Instr Loc)

structure State (Loc : Type) where
  regs : Loc → Val
  mem  : Mem
  pc   : Option Nat

def writeAll (r : Loc → Val) : List Loc → List Val → Loc → Val
  | d :: ds, v :: vs => writeAll (fun x => if x = d then v else r x) ds vs
  | _, _ => r

def nextPc (i : Instr Loc) (k : Nat) : Option Nat := (i.succ[k]?).join

def step (P : Prog Loc) (σ : State Loc) : State Loc :=
  match σ.pc with
  | none => σ
  | some pc =>
    match P.code pc with
    | none => { σ with pc := none }
    | some i =>
      let r := i.sem (i.uses.map σ.regs) σ.mem
      { regs := writeAll σ.regs i.defs r.1, mem := r.2.1, pc := nextPc i r.2.2 }

def run (P : Prog Loc) : Nat → State Loc → State Loc
  | 0, σ => σ
  | k+1, σ => run P k (step P σ)

def renameI (ρ : Loc → Loc) (i : Instr Loc) : Instr Loc :=
  { i with uses := i.uses.map ρ, defs := i.defs.map ρ }

def rename (ρ : Loc → Loc) (P : Prog Loc) : Prog Loc := { code := fun n => (P.code n).map (renameI ρ) }

structure Live (Loc : Type) where
  inn : Nat → Loc → Prop
  out : Nat → Loc → Prop

/-- Liveness post-fixpoint (any over-approximation of true liveness). -/
structure PostFix (P : Prog Loc) (L : Live Loc) : Prop where
  use_in  : ∀ n i, P.code n = some i → ∀ u ∈ i.uses, L.inn n u
  out_in  : ∀ n i, P.code n = some i → ∀ ℓ, L.out n ℓ → ℓ ∉ i.defs → L.inn n ℓ
  succ_out : ∀ n i, P.code n = some i → ∀ s, some s ∈ i.succ → ∀ ℓ, L.inn s ℓ → L.out n ℓ

/-- A definition never lands on the storage of a *different* location that is
live after the instruction: no value is overwritten while it can still be read. -/
def Valid (P : Prog Loc) (L : Live Loc) (ρ : Loc → Loc) : Prop :=
  ∀ n i, P.code n = some i → ∀ d ∈ i.defs, ∀ ℓ, L.out n ℓ → ρ d = ρ ℓ → d = ℓ

def Rel (L : Live Loc) (ρ : Loc → Loc) (σ σ' : State Loc) : Prop :=
  σ.pc = σ'.pc ∧ σ.mem = σ'.mem ∧ ∀ n, σ.pc = some n → ∀ ℓ, L.inn n ℓ → σ.regs ℓ = σ'.regs (ρ ℓ)

theorem writeAll_rename (ρ : Loc → Loc) (ℓ : Loc) :
    ∀ (ds : List Loc) (vs : List Val) (r r' : Loc → Val),
      (∀ d ∈ ds, ρ d = ρ ℓ → d = ℓ) → (ℓ ∈ ds.take vs.length ∨ r ℓ = r' (ρ ℓ)) →
      writeAll r ds vs ℓ = writeAll r' (ds.map ρ) vs (ρ ℓ)
  | [], vs, r, r', _, hr => by
    rcases hr with hr | hr
    · simp at hr
    · simp [writeAll, hr]
  | d :: ds, [], r, r', _, hr => by
    rcases hr with hr | hr
    · simp at hr
    · simp [writeAll, hr]
  | d :: ds, v :: vs, r, r', h, hr => by
    simp only [writeAll, List.map_cons]
    apply writeAll_rename ρ ℓ ds vs
    · intro d' hd'; exact h d' (List.mem_cons_of_mem _ hd')
    · by_cases hld : ℓ = d
      · subst hld; right; simp
      · have hne : ρ ℓ ≠ ρ d := by
          intro heq
          exact hld (h d (List.mem_cons_self ..) heq.symm).symm
        rcases hr with hr | hr
        · left
          simp only [List.length_cons, List.take_succ_cons, List.mem_cons] at hr
          rcases hr with hr | hr
          · exact absurd hr hld
          · exact hr
        · right; simp [hld, hne, hr]

theorem nextPc_mem (i : Instr Loc) (k s : Nat) (h : nextPc i k = some s) : some s ∈ i.succ := by
  unfold nextPc at h
  cases hk : i.succ[k]? with
  | none => simp [hk] at h
  | some o =>
    simp [hk] at h
    subst h
    exact List.mem_of_getElem? hk

/-- The meaning produces exactly one value per def slot. -/
def WFSem (P : Prog Loc) : Prop :=
  ∀ n i, P.code n = some i → ∀ vs m, (i.sem vs m).1.length = i.defs.length

theorem step_rel (P : Prog Loc) (L : Live Loc) (ρ : Loc → Loc) (hpf : PostFix P L) (hv : Valid P L ρ)
    (hwf : WFSem P) (σ σ' : State Loc) (hr : Rel L ρ σ σ') : Rel L ρ (step P σ) (step (rename ρ P) σ') := by
  obtain ⟨hpc, hmem, hregs⟩ := hr
  cases hp : σ.pc with
  | none =>
    have hp' : σ'.pc = none := by rw [← hpc, hp]
    simp only [step, hp, hp']
    exact ⟨by simp [hp, hp'], hmem, by intro n hn; simp [hp] at hn⟩
  | some n =>
    have hp' : σ'.pc = some n := by rw [← hpc, hp]
    cases hc : P.code n with
    | none =>
      simp only [step, hp, hp', rename, hc, Option.map_none]
      exact ⟨rfl, hmem, by intro m hm; simp at hm⟩
    | some i =>
      have huse : i.uses.map σ.regs = (i.uses.map ρ).map σ'.regs := by
        rw [List.map_map]
        apply List.map_congr_left
        intro u hu
        exact hregs n hp u (hpf.use_in n i hc u hu)
      simp only [step, hp, hp', rename, hc, Option.map_some, renameI]
      rw [← huse, ← hmem]
      refine ⟨rfl, rfl, ?_⟩
      intro s hs ℓ hl
      have hsucc : some s ∈ i.succ := nextPc_mem i _ s hs
      have hout : L.out n ℓ := hpf.succ_out n i hc s hsucc ℓ hl
      by_cases hd : ℓ ∈ i.defs
      · apply writeAll_rename
        · intro d hdm heq; exact hv n i hc d hdm ℓ hout heq
        · left
          rw [hwf n i hc, List.take_length]
          exact hd
      · apply writeAll_rename
        · intro d hdm heq; exact hv n i hc d hdm ℓ hout heq
        · right; exact hregs n hp ℓ (hpf.out_in n i hc ℓ hout hd)

theorem run_rel (P : Prog Loc) (L : Live Loc) (ρ : Loc → Loc) (hpf : PostFix P L) (hv : Valid P L ρ)
    (hwf : WFSem P) : ∀ k σ σ', Rel L ρ σ σ' → Rel L ρ (run P k σ) (run (rename ρ P) k σ')
  | 0, _, _, h => h
  | k+1, σ, σ', h => run_rel P L ρ hpf hv hwf k _ _ (step_rel P L ρ hpf hv hwf σ σ' h)

/-- Same memory and same control at every step, for all initial states that
agree (through `ρ`) on the locations live at entry. -/
theorem rename_preserves (P : Prog Loc) (L : Live Loc) (ρ : Loc → Loc) (hpf : PostFix P L) (hv : Valid P L ρ)
    (hwf : WFSem P) (σ σ' : State Loc) (h0 : Rel L ρ σ σ') (k : Nat) :
    (run P k σ).mem = (run (rename ρ P) k σ').mem ∧ (run P k σ).pc = (run (rename ρ P) k σ').pc := by
  have := run_rel P L ρ hpf hv hwf k σ σ' h0
  exact ⟨this.2.1, this.1⟩

end Avo.Machine
