/-
From the loop invariant to the whole allocator: the initial state is `Good`,
the per-kind results combine, and the result passes the C01 validity check.
-/
import AvoVerif.Lemmas.AllocProof
import AvoVerif.Lemmas.MaskSet
import AvoVerif.Model.AllocCheck
namespace Avo.Alloc
open Avo.Reg Avo.MaskSet

/-! ### `Allocator.Add` -/

theorem addVirt_mono (cands : List Nat) (poss : Poss) (v : Nat) (e : Nat × List Nat) (h : e ∈ poss) :
    e ∈ addVirt cands poss v := by
  unfold addVirt
  split
  · exact h
  · split
    · exact h
    · exact List.mem_append_left _ h

theorem addVirt_has (cands : List Nat) (poss : Poss) (v : Nat) (hv : idIsVirtual v = true) :
    v ∈ (addVirt cands poss v).map (·.1) := by
  unfold addVirt
  simp only [hv, Bool.not_true, Bool.false_eq_true, if_false]
  by_cases h : poss.any (·.1 == v) = true
  · simp only [h, if_true]
    obtain ⟨e, he, hk⟩ := List.any_eq_true.mp h
    exact List.mem_map.mpr ⟨e, he, by simpa using hk⟩
  · simp only [h]
    simp

/-- Entries have virtual keys of kind `k` and candidate lists of that kind. -/
def PossOK (cands : List Nat) (k : Nat) (poss : Poss) : Prop :=
  ∀ e ∈ poss, idIsVirtual e.1 = true ∧ idKind e.1 = k ∧ ∀ p ∈ e.2, p ∈ cands ∧ idKind p = idKind e.1

theorem addVirt_ok (cands : List Nat) (k : Nat) (poss : Poss) (v : Nat) (hk : idIsVirtual v = true → idKind v = k)
    (h : PossOK cands k poss) : PossOK cands k (addVirt cands poss v) := by
  unfold addVirt
  split
  · exact h
  · rename_i hv
    have hv' : idIsVirtual v = true := by simpa using hv
    split
    · exact h
    · intro e he
      rcases List.mem_append.mp he with he | he
      · exact h e he
      · have : e = (v, cands.filter (fun r => idKind r == idKind v)) := by simpa using he
        subst this
        refine ⟨hv', hk hv', ?_⟩
        intro p hp
        have := List.mem_filter.mp hp
        exact ⟨this.1, by simpa using this.2⟩

theorem foldl_addVirt_regs (cands : List Nat) (k : Nat) : ∀ (rs : List R) (poss : Poss),
    (∀ r ∈ rs, idKind r.id = k) → PossOK cands k poss →
    PossOK cands k (rs.foldl (fun p r => addVirt cands p r.id) poss) ∧
    ∀ e ∈ poss, e ∈ rs.foldl (fun p r => addVirt cands p r.id) poss
  | [], poss, _, h => ⟨h, fun e he => he⟩
  | r :: rs, poss, hk, h => by
    simp only [List.foldl_cons]
    have h1 := addVirt_ok cands k poss r.id (fun _ => hk r List.mem_cons_self) h
    obtain ⟨a, b⟩ := foldl_addVirt_regs cands k rs _ (fun r' hr' => hk r' (List.mem_cons_of_mem _ hr')) h1
    exact ⟨a, fun e he => b e (addVirt_mono _ _ _ _ he)⟩

theorem foldl_addVirt_edges (cands : List Nat) (k : Nat) : ∀ (es : List (Nat × Nat)) (poss : Poss),
    (∀ e ∈ es, idKind e.1 = k ∧ idKind e.2 = k) → PossOK cands k poss →
    PossOK cands k (es.foldl (fun p e => addVirt cands (addVirt cands p e.1) e.2) poss) ∧
    (∀ e ∈ poss, e ∈ es.foldl (fun p e => addVirt cands (addVirt cands p e.1) e.2) poss) ∧
    (∀ e ∈ es, ∀ z, (z = e.1 ∨ z = e.2) → idIsVirtual z = true →
       z ∈ (es.foldl (fun p e => addVirt cands (addVirt cands p e.1) e.2) poss).map (·.1))
  | [], poss, _, h => ⟨h, fun e he => he, by simp⟩
  | e :: es, poss, hk, h => by
    simp only [List.foldl_cons]
    have hke := hk e List.mem_cons_self
    have h1 := addVirt_ok cands k poss e.1 (fun _ => hke.1) h
    have h2 := addVirt_ok cands k _ e.2 (fun _ => hke.2) h1
    obtain ⟨a, b, c⟩ := foldl_addVirt_edges cands k es _ (fun e' he' => hk e' (List.mem_cons_of_mem _ he')) h2
    refine ⟨a, fun x hx => b x (addVirt_mono _ _ _ _ (addVirt_mono _ _ _ _ hx)), ?_⟩
    intro e' he' z hz hv
    rcases List.mem_cons.mp he' with rfl | he'
    · -- the keys added for this edge survive the rest of the fold
      have key : z ∈ (addVirt cands (addVirt cands poss e'.1) e'.2).map (·.1) := by
        rcases hz with rfl | rfl
        · obtain ⟨x, hx, hxz⟩ := List.mem_map.mp (addVirt_has cands poss e'.1 hv)
          exact List.mem_map.mpr ⟨x, addVirt_mono _ _ _ _ hx, hxz⟩
        · exact addVirt_has cands _ e'.2 hv
      obtain ⟨x, hx, hxz⟩ := List.mem_map.mp key
      exact List.mem_map.mpr ⟨x, b x hx, hxz⟩
    · exact c e' he' z hz hv

/-! ### One kind -/

def kindEdges (is : List AInstr) (kind : Nat) : List (Nat × Nat) :=
  is.flatMap (fun i => (i.outs.filter (fun d => idKind d.id == kind)).flatMap (fun d => edgesOf d i.liveOut))

theorem mem_ofKind (s : MS) (k : Nat) (e : Nat × Nat) : e ∈ ofKind s k ↔ (e ∈ s ∧ idKind e.1 = k) := by
  unfold ofKind; simp [List.mem_filter]

theorem discard_keys (s : MS) (id m : Nat) (e : Nat × Nat) (h : e ∈ discard s id m) : ∃ v, (e.1, v) ∈ s := by
  induction s with
  | nil => simp [MaskSet.discard] at h
  | cons p s ih =>
    rcases p with ⟨k, v⟩
    simp only [MaskSet.discard] at h
    by_cases hk : k = id
    · simp only [hk, if_true] at h
      by_cases hz : clear v m = 0
      · simp only [hz, if_true] at h
        obtain ⟨w, hw⟩ := ih h; exact ⟨w, List.mem_cons_of_mem _ hw⟩
      · simp only [hz, if_false] at h
        rcases List.mem_cons.mp h with rfl | h
        · exact ⟨v, by rw [hk]; exact List.mem_cons_self⟩
        · obtain ⟨w, hw⟩ := ih h; exact ⟨w, List.mem_cons_of_mem _ hw⟩
    · simp only [hk, if_false] at h
      rcases List.mem_cons.mp h with rfl | h
      · exact ⟨v, List.mem_cons_self⟩
      · obtain ⟨w, hw⟩ := ih h; exact ⟨w, List.mem_cons_of_mem _ hw⟩

theorem discard_keeps_other (s : MS) (id m : Nat) (e : Nat × Nat) (he : e ∈ s) (hne : e.1 ≠ id) :
    e ∈ discard s id m := by
  induction s with
  | nil => cases he
  | cons p s ih =>
    rcases p with ⟨k, v⟩
    simp only [MaskSet.discard]
    rcases List.mem_cons.mp he with rfl | he
    · have : ¬ k = id := hne
      simp [this]
    · by_cases hk : k = id
      · simp only [hk, if_true]
        by_cases hz : clear v m = 0
        · simp only [hz, if_true]; exact ih he
        · simp only [hz, if_false]; exact List.mem_cons_of_mem _ (ih he)
      · simp only [hk, if_false]; exact List.mem_cons_of_mem _ (ih he)

theorem edgesOf_kinds (d : R) (lo : MS) (e : Nat × Nat) (h : e ∈ edgesOf d lo) :
    e.1 = d.id ∧ idKind e.2 = idKind d.id := by
  unfold edgesOf at h
  simp only [List.mem_filterMap] at h
  obtain ⟨p, hp, hc⟩ := h
  split at hc
  · injection hc with hc
    subst hc
    obtain ⟨v, hv⟩ := discard_keys _ _ _ _ hp
    exact ⟨rfl, ((mem_ofKind _ _ _).mp hv).2⟩
  · cases hc

theorem kindEdges_kinds (is : List AInstr) (kind : Nat) (e : Nat × Nat) (h : e ∈ kindEdges is kind) :
    idKind e.1 = kind ∧ idKind e.2 = kind := by
  unfold kindEdges at h
  simp only [List.mem_flatMap, List.mem_filter] at h
  obtain ⟨i, _, d, ⟨_, hdk⟩, he⟩ := h
  have := edgesOf_kinds d i.liveOut e he
  have hdk' : idKind d.id = kind := by simpa using hdk
  exact ⟨by rw [this.1]; exact hdk', by rw [this.2]; exact hdk'⟩

/-- **One allocator.** A successful per-kind allocation separates the ends of
every interference edge of that kind. -/
theorem allocKind_valid (tbl : List RegRow) (is : List AInstr) (kind : Nat) (al : List (Nat × Nat))
    (hc : ∀ p ∈ candidates tbl kind, idIsVirtual p = false)
    (h : allocKind tbl is kind = .ok al) :
    (∀ e ∈ kindEdges is kind, lookupDefault al e.1 ≠ lookupDefault al e.2) ∧
    (∀ e ∈ al, idIsVirtual e.1 = true ∧ idIsVirtual e.2 = false ∧ idKind e.2 = idKind e.1) := by
  unfold allocKind at h
  simp only at h
  split at h
  · cases h
  · have hregs : ∀ r ∈ (is.flatMap (·.regs)).filter (fun r => idKind r.id == kind), idKind r.id = kind := by
      intro r hr; simpa using (List.mem_filter.mp hr).2
    obtain ⟨ok0, _⟩ := foldl_addVirt_regs (candidates tbl kind) kind _ [] hregs (by intro e he; cases he)
    obtain ⟨ok1, _, cov⟩ := foldl_addVirt_edges (candidates tbl kind) kind (kindEdges is kind) _
      (fun e he => kindEdges_kinds is kind e he) ok0
    apply allocLoop_valid (kindEdges is kind) _ _ al h
    constructor
    · intro e he; cases he
    · intro v _ hm; cases hm
    · intro e he
      obtain ⟨a, _, c⟩ := ok1 e he
      exact ⟨a, fun p hp => ⟨hc p (c p hp).1, (c p hp).2⟩⟩
    · intro e he z hz hv
      have hv' : idIsVirtual z = true := by simpa [virt, lookupDefault] using hv
      exact cov e he z hz hv'
    · intro e he; left; exact he

end Avo.Alloc

namespace Avo.Alloc
open Avo.Reg Avo.MaskSet

/-! ### All kinds -/

theorem allocLoop_keys (Q : Nat → Prop) : ∀ (fuel : Nat) (st : AState) (al : List (Nat × Nat)),
    allocLoop fuel st = .ok al → (∀ e ∈ st.allocation, Q e.1) → (∀ e ∈ st.possible, Q e.1) → ∀ e ∈ al, Q e.1
  | 0, st, al, h, _, _ => by simp [allocLoop] at h
  | fuel + 1, st, al, h, ha, hp => by
    simp only [allocLoop] at h
    cases hu : updateEdges st.allocation st.edges st.possible [] with
    | error e => simp [hu] at h
    | ok pr =>
      rcases pr with ⟨poss, rem⟩
      simp only [hu] at h
      obtain ⟨hk, _, _, _⟩ := updateEdges_spec st.allocation st.edges st.possible [] poss rem hu
      have hq : ∀ e ∈ poss, Q e.1 := by
        intro e he
        have : e.1 ∈ st.possible.map (·.1) := by rw [← hk]; exact List.mem_map.mpr ⟨e, he, rfl⟩
        obtain ⟨e', he', hee⟩ := List.mem_map.mp this
        rw [← hee]; exact hp e' he'
      cases hmr : mostRestricted poss with
      | none => simp only [hmr] at h; injection h with h; subst h; exact ha
      | some m =>
        rcases m with ⟨v, ps⟩
        simp only [hmr] at h
        cases ps with
        | nil => simp at h
        | cons p ps' =>
          simp only at h
          apply allocLoop_keys Q fuel _ al h
          · intro e he
            rcases List.mem_append.mp he with he | he
            · exact ha e he
            · have : e = (v, p) := by simpa using he
              subst this; exact hq _ (mostRestricted_mem poss _ hmr)
          · intro e he; exact hq e (List.mem_filter.mp he).1

theorem allocKind_keys (tbl : List RegRow) (is : List AInstr) (kind : Nat) (al : List (Nat × Nat))
    (h : allocKind tbl is kind = .ok al) : ∀ e ∈ al, idKind e.1 = kind := by
  unfold allocKind at h
  simp only at h
  split at h
  · cases h
  · have hregs : ∀ r ∈ (is.flatMap (·.regs)).filter (fun r => idKind r.id == kind), idKind r.id = kind := by
      intro r hr; simpa using (List.mem_filter.mp hr).2
    obtain ⟨ok0, _⟩ := foldl_addVirt_regs (candidates tbl kind) kind _ [] hregs (by intro e he; cases he)
    obtain ⟨ok1, _, _⟩ := foldl_addVirt_edges (candidates tbl kind) kind (kindEdges is kind) _
      (fun e he => kindEdges_kinds is kind e he) ok0
    exact allocLoop_keys (fun z => idKind z = kind) _ _ al h (by intro e he; cases he) (fun e he => (ok1 e he).2.1)

theorem lookup_append_gen (X Y : List (Nat × Nat)) (z : Nat) :
    lookupDefault (X ++ Y) z = if z ∈ X.map (·.1) then lookupDefault X z else lookupDefault Y z := by
  unfold lookupDefault
  rw [List.find?_append]
  cases hf : X.find? (·.1 == z) with
  | some e =>
    have hm := List.mem_of_find?_eq_some hf
    have hk := List.find?_some hf
    have : e.1 = z := by simpa using hk
    have hz : z ∈ X.map (·.1) := List.mem_map.mpr ⟨e, hm, this⟩
    simp [hz]
  | none =>
    have hz : z ∉ X.map (·.1) := by
      intro hz
      obtain ⟨e, he, hze⟩ := List.mem_map.mp hz
      have := List.find?_eq_none.mp hf e he
      simp [hze] at this
    simp [hz]

theorem lookup_flatten (a : Nat → List (Nat × Nat)) (hkeys : ∀ j, ∀ e ∈ a j, idKind e.1 = j) (z : Nat) :
    ∀ ks : List Nat, lookupDefault (ks.flatMap a) z = if idKind z ∈ ks then lookupDefault (a (idKind z)) z else z
  | [] => by simp [lookupDefault]
  | j :: ks => by
    rw [List.flatMap_cons, lookup_append_gen, lookup_flatten a hkeys z ks]
    by_cases hj : j = idKind z
    · subst hj
      by_cases hz : z ∈ (a (idKind z)).map (·.1)
      · simp [hz]
      · have := lookup_of_not_key _ _ hz
        simp only [hz, if_false, List.mem_cons, true_or, if_true, this]
        split <;> rfl
    · have hz : z ∉ (a j).map (·.1) := by
        intro hz
        obtain ⟨e, he, hze⟩ := List.mem_map.mp hz
        have := hkeys j e he
        rw [hze] at this; exact hj this.symm
      have hne : ¬ idKind z = j := fun e => hj e.symm
      simp [hz, hne]

/-- per-kind result as a total function -/
def allocOf (tbl : List RegRow) (is : List AInstr) (k : Nat) : List (Nat × Nat) :=
  match allocKind tbl is k with
  | .ok a => a
  | .error _ => []

theorem allocate_fold (tbl : List RegRow) (is : List AInstr) : ∀ (ks : List Nat) (acc A : List (Nat × Nat)),
    ks.foldl (fun acc k => match acc with
      | .error e => .error e
      | .ok al => match allocKind tbl is k with
        | .error e => .error e
        | .ok a => .ok (al ++ a)) (Except.ok acc : Except AErr _) = .ok A →
    A = acc ++ ks.flatMap (allocOf tbl is) ∧ ∀ k ∈ ks, allocKind tbl is k = .ok (allocOf tbl is k)
  | [], acc, A, h => by simp only [List.foldl_nil] at h; injection h with h; simp [h]
  | k :: ks, acc, A, h => by
    simp only [List.foldl_cons] at h
    cases hk : allocKind tbl is k with
    | error e =>
      simp only [hk] at h
      -- an error is absorbing
      have abs : ∀ (ks : List Nat) (e : AErr), ks.foldl (fun acc k => match acc with
          | .error e => .error e
          | .ok al => match allocKind tbl is k with
            | .error e => .error e
            | .ok a => .ok (al ++ a)) (Except.error e : Except AErr (List (Nat × Nat))) = .error e := by
        intro ks; induction ks with
        | nil => intro e; rfl
        | cons x xs ih => intro e; simp only [List.foldl_cons]; exact ih e
      rw [abs] at h; cases h
    | ok a =>
      simp only [hk] at h
      obtain ⟨h1, h2⟩ := allocate_fold tbl is ks (acc ++ a) A h
      have ha : allocOf tbl is k = a := by simp [allocOf, hk]
      refine ⟨by rw [h1, List.flatMap_cons, ha, List.append_assoc], ?_⟩
      intro k' hk'
      rcases List.mem_cons.mp hk' with rfl | hk'
      · rw [ha]; exact hk
      · exact h2 k' hk'

/-- **The allocator model is correct.** If `allocate` returns an allocation then,
for every instruction, every output register and every interference edge it
contributes, the two ends are mapped to different registers; and the allocation
maps virtual ids to physical ids of the same kind. -/
theorem allocate_valid (tbl : List RegRow) (is : List AInstr) (A : List (Nat × Nat))
    (hc : ∀ k, ∀ p ∈ candidates tbl k, idIsVirtual p = false)
    (h : allocate tbl is = .ok A) :
    (∀ i ∈ is, ∀ d ∈ i.outs, ∀ e ∈ edgesOf d i.liveOut, lookupDefault A e.1 ≠ lookupDefault A e.2) ∧
    (∀ e ∈ A, idIsVirtual e.1 = true ∧ idIsVirtual e.2 = false ∧ idKind e.2 = idKind e.1) := by
  unfold allocate at h
  obtain ⟨hA, hks⟩ := allocate_fold tbl is (kindsOf is) [] A h
  simp only [List.nil_append] at hA
  have hkeys : ∀ j, ∀ e ∈ allocOf tbl is j, idKind e.1 = j := by
    intro j e he
    unfold allocOf at he
    cases hj : allocKind tbl is j with
    | error _ => simp [hj] at he
    | ok a => simp only [hj] at he; exact allocKind_keys tbl is j a hj e he
  constructor
  · intro i hi d hd e he
    have hek := edgesOf_kinds d i.liveOut e he
    have hdk : idKind d.id ∈ kindsOf is := by
      unfold kindsOf
      rw [List.mem_eraseDups]
      exact List.mem_flatMap.mpr ⟨i, hi, List.mem_map.mpr ⟨d, List.mem_append_right _ hd, rfl⟩⟩
    have hkd := hks _ hdk
    obtain ⟨hv, _⟩ := allocKind_valid tbl is (idKind d.id) _ (hc _) hkd
    have hmem : e ∈ kindEdges is (idKind d.id) := by
      unfold kindEdges
      exact List.mem_flatMap.mpr ⟨i, hi, List.mem_flatMap.mpr ⟨d, List.mem_filter.mpr ⟨hd, by simp⟩, he⟩⟩
    have h1 : idKind e.1 = idKind d.id := by rw [hek.1]
    rw [hA, lookup_flatten _ hkeys e.1, lookup_flatten _ hkeys e.2, h1, hek.2]
    simp only [hdk, if_true]
    exact hv e hmem
  · intro e he
    rw [hA] at he
    obtain ⟨k, hk, hek⟩ := List.mem_flatMap.mp he
    have hkd := hks k hk
    exact (allocKind_valid tbl is k _ (hc _) hkd).2 e hek

end Avo.Alloc

namespace Avo.Alloc
open Avo.Reg Avo.MaskSet Avo.AllocCheck

/-! ### From edges to the validity check of C01 -/

theorem get_entry_sub (s : MS) (k v : Nat) (h : (k, v) ∈ s) : MaskSet.get s k &&& v = v := by
  induction s with
  | nil => cases h
  | cons p s ih =>
    rcases p with ⟨k', v'⟩
    simp only [MaskSet.get]
    rcases List.mem_cons.mp h with he | h
    · injection he with h1 h2
      subst h1; subst h2
      simp only [if_true]
      apply Nat.eq_of_testBit_eq; intro i
      simp only [Nat.testBit_and, Nat.testBit_or]
      cases k.testBit i <;> cases v.testBit i <;> simp
    · have := ih h
      by_cases hk : k' = k
      · simp only [hk, if_true]
        apply Nat.eq_of_testBit_eq; intro i
        have hi := congrArg (fun x => x.testBit i) this
        simp only [Nat.testBit_and] at hi
        simp only [Nat.testBit_and, Nat.testBit_or]
        cases h1 : v'.testBit i <;> cases h2 : (MaskSet.get s k).testBit i <;> cases h3 : v.testBit i <;> simp_all
      · simp only [hk, if_false]; exact this

theorem kind_lookup (A : List (Nat × Nat))
    (hsh : ∀ e ∈ A, idIsVirtual e.1 = true ∧ idIsVirtual e.2 = false ∧ idKind e.2 = idKind e.1) (z : Nat) :
    idKind (lookupDefault A z) = idKind z := by
  by_cases hz : z ∈ A.map (·.1)
  · obtain ⟨p, hp, hl⟩ := lookup_of_key A z hz
    rw [hl]; exact (hsh _ hp).2.2
  · rw [lookup_of_not_key A z hz]

theorem edges_imply_valid (A : List (Nat × Nat)) (c : CInstr)
    (hsh : ∀ e ∈ A, idIsVirtual e.1 = true ∧ idIsVirtual e.2 = false ∧ idKind e.2 = idKind e.1)
    (h : ∀ d ∈ c.defs, ∀ e ∈ edgesOf d c.liveOut, lookupDefault A e.1 ≠ lookupDefault A e.2) :
    checkValidAt A c = true := by
  unfold checkValidAt
  apply List.all_eq_true.mpr; intro d hd
  apply List.all_eq_true.mpr; intro p hp
  by_cases h1 : p.1 = d.id
  · simp [h1]
  · by_cases h2 : lookupDefault A p.1 = lookupDefault A d.id
    · -- equal images: the masks must be disjoint, else there is an edge
      by_cases h3 : d.mask &&& p.2 = 0
      · simp [h3]
      · exfalso
        have hk : idKind p.1 = idKind d.id := by
          have a := kind_lookup A hsh p.1
          have b := kind_lookup A hsh d.id
          rw [h2] at a; rw [← a, b]
        have hpk : p ∈ ofKind c.liveOut (idKind d.id) := (mem_ofKind _ _ _).mpr ⟨hp, hk⟩
        have hpo : p ∈ MaskSet.discard (ofKind c.liveOut (idKind d.id)) d.id d.mask :=
          discard_keeps_other _ _ _ _ hpk h1
        have hget : MaskSet.get (MaskSet.discard (ofKind c.liveOut (idKind d.id)) d.id d.mask) p.1 &&& p.2 = p.2 :=
          get_entry_sub _ p.1 p.2 hpo
        have hov : d.mask &&& MaskSet.get (MaskSet.discard (ofKind c.liveOut (idKind d.id)) d.id d.mask) p.1 ≠ 0 := by
          intro hz
          apply h3
          rw [← hget, ← Nat.and_assoc, hz, Nat.zero_and]
        have hedge : (d.id, p.1) ∈ edgesOf d c.liveOut := by
          unfold edgesOf
          simp only [List.mem_filterMap]
          refine ⟨p, hpo, ?_⟩
          have : (d.mask &&& MaskSet.get (MaskSet.discard (ofKind c.liveOut (idKind d.id)) d.id d.mask) p.1 != 0) = true := by
            simpa using hov
          rw [if_pos this]
        exact h d hd _ hedge h2.symm
    · have : (lookupDefault A p.1 != lookupDefault A d.id) = true := by simpa using h2
      simp [this]

/-- **C01 for the allocator model.** Whenever the model of avo's allocation
succeeds — for every function, with liveness data of any shape — the result
passes the validity and shape checks that `accepted_preserves` requires. -/
theorem avo_alloc_valid (tbl : List RegRow) (is : List AInstr) (A : List (Nat × Nat))
    (hc : ∀ k, ∀ p ∈ candidates tbl k, idIsVirtual p = false)
    (h : allocate tbl is = .ok A) (P : CProg)
    (hP : ∀ c ∈ P.toList, ∃ i ∈ is, i.outs = c.defs ∧ i.liveOut = c.liveOut) :
    checkValid P A = true ∧ checkAllocShape A = true := by
  obtain ⟨hedges, hsh⟩ := allocate_valid tbl is A hc h
  constructor
  · unfold checkValid
    apply List.all_eq_true.mpr
    intro c hcm
    obtain ⟨i, hi, ho, hl⟩ := hP c hcm
    apply edges_imply_valid A c hsh
    intro d hd e he
    rw [← ho] at hd; rw [← hl] at he
    exact hedges i hi d hd e he
  · unfold checkAllocShape
    apply List.all_eq_true.mpr
    intro e he
    obtain ⟨a, b, c⟩ := hsh e he
    simp [a, b, c]

end Avo.Alloc

namespace Avo.Alloc
open Avo.Reg

/-- Every register handed out by the loop comes from a candidate list. -/
theorem allocLoop_vals (Q : Nat → Prop) : ∀ (fuel : Nat) (st : AState) (al : List (Nat × Nat)),
    allocLoop fuel st = .ok al → (∀ e ∈ st.allocation, Q e.2) → (∀ e ∈ st.possible, ∀ p ∈ e.2, Q p) → ∀ e ∈ al, Q e.2
  | 0, st, al, h, _, _ => by simp [allocLoop] at h
  | fuel + 1, st, al, h, ha, hp => by
    simp only [allocLoop] at h
    cases hu : updateEdges st.allocation st.edges st.possible [] with
    | error e => simp [hu] at h
    | ok pr =>
      rcases pr with ⟨poss, rem⟩
      simp only [hu] at h
      obtain ⟨_, hm, _, _⟩ := updateEdges_spec st.allocation st.edges st.possible [] poss rem hu
      have hq : ∀ e ∈ poss, ∀ p ∈ e.2, Q p := by
        intro e he p hpe
        obtain ⟨l, hl, hsub⟩ := hm e.1 e.2 he
        exact hp (e.1, l) hl p (hsub p hpe)
      cases hmr : mostRestricted poss with
      | none => simp only [hmr] at h; injection h with h; subst h; exact ha
      | some m =>
        rcases m with ⟨v, ps⟩
        simp only [hmr] at h
        cases ps with
        | nil => simp at h
        | cons p ps' =>
          simp only at h
          apply allocLoop_vals Q fuel _ al h
          · intro e he
            rcases List.mem_append.mp he with he | he
            · exact ha e he
            · have : e = (v, p) := by simpa using he
              subst this; exact hq _ (mostRestricted_mem poss _ hmr) p List.mem_cons_self
          · intro e he; exact hq e (List.mem_filter.mp he).1

theorem allocKind_vals (tbl : List RegRow) (is : List AInstr) (kind : Nat) (al : List (Nat × Nat))
    (h : allocKind tbl is kind = .ok al) : ∀ e ∈ al, e.2 ∈ candidates tbl kind := by
  unfold allocKind at h
  simp only at h
  split at h
  · cases h
  · have hregs : ∀ r ∈ (is.flatMap (·.regs)).filter (fun r => idKind r.id == kind), idKind r.id = kind := by
      intro r hr; simpa using (List.mem_filter.mp hr).2
    obtain ⟨ok0, _⟩ := foldl_addVirt_regs (candidates tbl kind) kind _ [] hregs (by intro e he; cases he)
    obtain ⟨ok1, _, _⟩ := foldl_addVirt_edges (candidates tbl kind) kind (kindEdges is kind) _
      (fun e he => kindEdges_kinds is kind e he) ok0
    exact allocLoop_vals (fun p => p ∈ candidates tbl kind) _ _ al h (by intro e he; cases he)
      (fun e he p hp => ((ok1 e he).2.2 p hp).1)

/-- Every target of a successful allocation is a candidate register of some kind. -/
theorem allocate_targets (tbl : List RegRow) (is : List AInstr) (A : List (Nat × Nat))
    (h : allocate tbl is = .ok A) : ∀ e ∈ A, ∃ k, e.2 ∈ candidates tbl k := by
  unfold allocate at h
  obtain ⟨hA, hks⟩ := allocate_fold tbl is (kindsOf is) [] A h
  simp only [List.nil_append] at hA
  intro e he
  rw [hA] at he
  obtain ⟨k, hk, hek⟩ := List.mem_flatMap.mp he
  exact ⟨k, allocKind_vals tbl is k _ (hks k hk) e hek⟩

end Avo.Alloc
