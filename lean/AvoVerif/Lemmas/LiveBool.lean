/-
Single-location liveness (Boolean): Gauss–Seidel sweeps are sound w.r.t. the
path specification and complete at a quiet sweep.
-/
namespace Avo.LiveBool

structure Prog where
  succ : Nat → List Nat
  use  : Nat → Bool
  dfn  : Nat → Bool

/-- Path specification: the location is read at `i`, or not overwritten at `i`
and live at some successor. -/
inductive LiveIn (P : Prog) : Nat → Prop
  | here {i} : P.use i = true → LiveIn P i
  | step {i s} : P.dfn i = false → s ∈ P.succ i → LiveIn P s → LiveIn P i

def LiveOut (P : Prog) (i : Nat) : Prop := ∃ s, s ∈ P.succ i ∧ LiveIn P s

structure St where
  inS : Nat → Bool
  outS : Nat → Bool

def upd (f : Nat → Bool) (i : Nat) (b : Bool) : Nat → Bool := fun j => if j = i then b else f j

@[simp] theorem upd_same (f i b) : upd f i b i = b := by simp [upd]
theorem upd_other (f i b j) (h : j ≠ i) : upd f i b j = f j := by simp [upd, h]

def newOut (P : Prog) (st : St) (i : Nat) : Bool := st.outS i || (P.succ i).any st.inS
def newIn (P : Prog) (st : St) (i : Nat) : Bool := st.inS i || (newOut P st i && !P.dfn i)

def visit (P : Prog) (st : St) (i : Nat) : St :=
  { inS := upd st.inS i (newIn P st i), outS := upd st.outS i (newOut P st i) }

def FixAt (P : Prog) (st : St) (i : Nat) : Prop :=
  newOut P st i = st.outS i ∧ newIn P st i = st.inS i

def Sound (P : Prog) (st : St) : Prop :=
  ∀ i, (st.inS i = true → LiveIn P i) ∧ (st.outS i = true → LiveOut P i)

theorem newOut_sound (P st i) (hs : Sound P st) (h : newOut P st i = true) : LiveOut P i := by
  unfold newOut at h
  rcases Bool.or_eq_true _ _ |>.mp h with h | h
  · exact (hs i).2 h
  · obtain ⟨s, hs1, hs2⟩ := List.any_eq_true.mp h
    exact ⟨s, hs1, (hs s).1 hs2⟩

theorem newIn_sound (P st i) (hs : Sound P st) (h : newIn P st i = true) : LiveIn P i := by
  unfold newIn at h
  rcases Bool.or_eq_true _ _ |>.mp h with h | h
  · exact (hs i).1 h
  · have h' := Bool.and_eq_true _ _ |>.mp h
    obtain ⟨s, hs1, hs2⟩ := newOut_sound P st i hs h'.1
    have hd : P.dfn i = false := by simpa using h'.2
    exact LiveIn.step hd hs1 hs2

theorem visit_sound (P st i) (hs : Sound P st) : Sound P (visit P st i) := by
  intro j
  by_cases hj : j = i
  · subst hj
    simp only [visit, upd_same]
    exact ⟨newIn_sound P st j hs, newOut_sound P st j hs⟩
  · simp only [visit, upd_other _ _ _ _ hj]
    exact hs j

def Infl (P : Prog) (st : St) : Prop := ∀ i, P.use i = true → st.inS i = true

theorem visit_infl (P st i) (h : Infl P st) : Infl P (visit P st i) := by
  intro j hj
  by_cases hji : j = i
  · subst hji; simp [visit, newIn, h j hj]
  · simp [visit, upd_other _ _ _ _ hji, h j hj]

/-- Successors of instructions in `dom` stay in `dom`. -/
def Closed (P : Prog) (dom : Nat → Prop) : Prop := ∀ i, dom i → ∀ s ∈ P.succ i, dom s

theorem complete_of_fix (P : Prog) (dom : Nat → Prop) (st : St) (hc : Closed P dom) (hinfl : Infl P st)
    (hfix : ∀ i, dom i → FixAt P st i) : ∀ i, LiveIn P i → dom i → st.inS i = true := by
  intro i hl
  induction hl with
  | here hu => intro _; exact hinfl _ hu
  | @step i s hd hs _ ih =>
    intro hi
    have hsin : st.inS s = true := ih (hc i hi s hs)
    obtain ⟨fo, fi⟩ := hfix i hi
    have ho : st.outS i = true := by
      rw [← fo]; unfold newOut
      have : (P.succ i).any st.inS = true := List.any_eq_true.mpr ⟨s, hs, hsin⟩
      simp [this]
    rw [← fi]; unfold newIn newOut
    simp [ho, hd]

theorem liveOut_of_fix (P : Prog) (dom : Nat → Prop) (st : St) (hc : Closed P dom) (hinfl : Infl P st)
    (hfix : ∀ i, dom i → FixAt P st i) : ∀ i, dom i → LiveOut P i → st.outS i = true := by
  intro i hi ⟨s, hs, hl⟩
  have hsin := complete_of_fix P dom st hc hinfl hfix s hl (hc i hi s hs)
  obtain ⟨fo, _⟩ := hfix i hi
  rw [← fo]; unfold newOut
  have : (P.succ i).any st.inS = true := List.any_eq_true.mpr ⟨s, hs, hsin⟩
  simp [this]

end Avo.LiveBool
