/-
Round-trip lemmas for `Model/NumText.lean`: reading back what was printed
gives the number, for every number (no bound).
-/
import AvoVerif.Model.NumText
namespace Avo.NumText

theorem digitVal_digitChar : ∀ d, d < 16 → digitVal (digitChar d) = some d := by decide

theorem digitVal_sign : digitVal '-' = none ∧ digitVal '+' = none ∧ digitVal 'x' = none := by decide

theorem readDigits_append (b : Nat) (xs ys : List Char) (acc : Nat) :
    readDigits b (xs ++ ys) acc = (readDigits b xs acc).bind (readDigits b ys) := by
  induction xs generalizing acc with
  | nil => simp [readDigits]
  | cons c cs ih =>
    simp only [List.cons_append, readDigits]
    cases digitVal c with
    | none => simp
    | some d =>
      by_cases h : d < b
      · simp [h, ih]
      · simp [h]

theorem readDigits_single (b d : Nat) (hd : d < b) (hb : b ≤ 16) (acc : Nat) :
    readDigits b [digitChar d] acc = some (acc * b + d) := by
  simp [readDigits, digitVal_digitChar d (by omega), hd]

theorem digitsFuel_ne_nil (b fuel n : Nat) : digitsFuel b (fuel + 1) n ≠ [] := by
  unfold digitsFuel
  by_cases h : n < b <;> simp [h]

theorem readDigits_digitsFuel (b : Nat) (hb2 : 2 ≤ b) (hb : b ≤ 16) :
    ∀ fuel n, n < fuel → readDigits b (digitsFuel b fuel n) 0 = some n := by
  intro fuel
  induction fuel with
  | zero => intro n h; omega
  | succ fuel ih =>
    intro n hn
    unfold digitsFuel
    by_cases h : n < b
    · simp only [h, if_true]
      rw [readDigits_single b n h hb]; simp
    · simp only [h, if_false]
      have hdiv : n / b < fuel := by
        have : n / b < n := Nat.div_lt_self (by omega) (by omega)
        omega
      rw [readDigits_append, ih (n / b) hdiv]
      simp only [Option.bind]
      rw [readDigits_single b (n % b) (Nat.mod_lt _ (by omega)) hb]
      congr 1
      exact Nat.div_add_mod' n b

/-- Reading back the printed digits gives the number (any base 2..16). -/
theorem parseNat_digits (b : Nat) (hb2 : 2 ≤ b) (hb : b ≤ 16) (n : Nat) :
    parseNat b (digits b n) = some n := by
  unfold parseNat digits
  have hne := digitsFuel_ne_nil b n n
  cases hd : digitsFuel b (n + 1) n with
  | nil => exact absurd hd hne
  | cons c cs =>
    rw [← hd]
    simp only [hd, List.isEmpty_cons, Bool.false_eq_true, if_false]
    rw [← hd]
    exact readDigits_digitsFuel b hb2 hb (n + 1) n (by omega)

theorem parseNat_cons_nondigit (b : Nat) (c : Char) (cs : List Char) (h : digitVal c = none) :
    parseNat b (c :: cs) = none := by
  simp [parseNat, readDigits, h]

theorem parseNat_zero_x (cs : List Char) : parseNat 10 ('0' :: 'x' :: cs) = none := by
  have : digitVal '0' = some 0 := by decide
  simp [parseNat, readDigits, this, digitVal_sign.2.2]

/-- The decimal digits are not mistaken for a hexadecimal literal. -/
theorem parseMag_digits10 (n : Nat) : parseMag (digits 10 n) = some n := by
  have h := parseNat_digits 10 (by omega) (by omega) n
  unfold parseMag
  split
  · rename_i c0 c1 rest heq
    by_cases hc : c0 = '0' ∧ c1 = 'x'
    · rw [heq, hc.1, hc.2, parseNat_zero_x] at h
      cases h
    · simp only [hc, if_false]; exact h
  · exact h

theorem readDigits_zeros (b : Nat) (hb : 0 < b) (k : Nat) (cs : List Char) :
    readDigits b (List.replicate k '0' ++ cs) 0 = readDigits b cs 0 := by
  induction k with
  | zero => simp
  | succ k ih =>
    have : digitVal '0' = some 0 := by decide
    simp [List.replicate_succ, readDigits, this, hb, ih]

theorem parseNat_padZero (b : Nat) (hb : 0 < b) (w : Nat) (cs : List Char) (hne : cs ≠ []) :
    parseNat b (padZero w cs) = parseNat b cs := by
  unfold parseNat padZero
  have h1 : (List.replicate (w - cs.length) '0' ++ cs).isEmpty = false := by
    cases cs with
    | nil => exact absurd rfl hne
    | cons c cs => simp
  have h2 : cs.isEmpty = false := by
    cases cs with
    | nil => exact absurd rfl hne
    | cons c cs => simp
  simp only [h1, h2, Bool.false_eq_true, if_false]
  exact readDigits_zeros b hb _ cs

/-- `%#0Nx` text reads back as the number, for every width and number. -/
theorem parseMag_hexPad (w n : Nat) : parseMag (hexPad w n) = some n := by
  unfold hexPad parseMag
  simp only [and_self, if_true]
  have hp := parseNat_padZero 16 (by omega) w (digits 16 n) (digitsFuel_ne_nil 16 n n)
  rw [hp]
  exact parseNat_digits 16 (by omega) (by omega) n

theorem parseIntLit_hexPad (w n : Nat) : parseIntLit (hexPad w n) = some (n : Int) := by
  have h := parseMag_hexPad w n
  unfold hexPad at h ⊢
  unfold parseIntLit
  have h1 : ¬ ('0' = '-') := by decide
  have h2 : ¬ ('0' = '+') := by decide
  simp [h]

/-- `%+d` text reads back as the integer, for every integer. -/
theorem parseIntLit_intDecPlus (v : Int) : parseIntLit (intDecPlus v) = some v := by
  unfold intDecPlus parseIntLit
  by_cases hv : v < 0
  · simp [hv, parseMag_digits10]; omega
  · have h1 : ¬ ('+' = '-') := by decide
    simp [hv, h1, parseMag_digits10]; omega

/-- `%d` text reads back as the integer. -/
theorem parseIntLit_intDec (v : Int) : parseIntLit (intDec v) = some v := by
  unfold intDec
  by_cases hv : v < 0
  · unfold parseIntLit
    simp [hv, parseMag_digits10]; omega
  · simp only [hv, if_false]
    have hm := parseMag_digits10 v.natAbs
    have hp := parseNat_digits 10 (by omega) (by omega) v.natAbs
    unfold parseIntLit
    cases hd : digits 10 v.natAbs with
    | nil => rw [hd] at hp; simp [parseNat] at hp
    | cons c rest =>
      rw [hd] at hp hm
      by_cases hc1 : c = '-'
      · rw [hc1, parseNat_cons_nondigit 10 '-' rest digitVal_sign.1] at hp; cases hp
      · by_cases hc2 : c = '+'
        · rw [hc2, parseNat_cons_nondigit 10 '+' rest digitVal_sign.2.1] at hp; cases hp
        · simp [hc1, hc2, hm]; omega

/-- Every printed digit is one of the 16 digit characters. -/
theorem mem_digitsFuel (b : Nat) (hb2 : 2 ≤ b) (hb : b ≤ 16) : ∀ fuel n c, c ∈ digitsFuel b fuel n → ∃ d, d < 16 ∧ c = digitChar d := by
  intro fuel
  induction fuel with
  | zero => intro n c h; simp [digitsFuel] at h
  | succ fuel ih =>
    intro n c h
    unfold digitsFuel at h
    by_cases hn : n < b
    · simp only [hn, if_true, List.mem_singleton] at h
      exact ⟨n, by omega, h⟩
    · simp only [hn, if_false, List.mem_append, List.mem_singleton] at h
      rcases h with h | h
      · exact ih _ _ h
      · exact ⟨n % b, by have := Nat.mod_lt n (by omega : b > 0); omega, h⟩

theorem digitChar_not_punct : ∀ d, d < 16 → digitChar d ≠ '-' ∧ digitChar d ≠ '(' ∧ digitChar d ≠ '+' ∧ digitChar d ≠ '/' := by decide

theorem digits_no_minus (n : Nat) : ∀ c ∈ digits 10 n, (c != '-') = true := by
  intro c hc
  obtain ⟨d, hd, rfl⟩ := mem_digitsFuel 10 (by omega) (by omega) _ _ _ hc
  simpa using (digitChar_not_punct d hd).1

theorem digits_no_paren (n : Nat) : ∀ c ∈ digits 10 n, (c != '(') = true := by
  intro c hc
  obtain ⟨d, hd, rfl⟩ := mem_digitsFuel 10 (by omega) (by omega) _ _ _ hc
  simpa using (digitChar_not_punct d hd).2.1

theorem takeWhile_append_stop {α} (p : α → Bool) (xs : List α) (y : α) (ys : List α)
    (hx : ∀ x ∈ xs, p x = true) (hy : p y = false) :
    (xs ++ y :: ys).takeWhile p = xs ∧ (xs ++ y :: ys).dropWhile p = y :: ys := by
  induction xs with
  | nil => simp [hy]
  | cons x xs ih =>
    have hxx := hx x List.mem_cons_self
    have := ih (fun z hz => hx z (List.mem_cons_of_mem _ hz))
    simp [hxx, this]

theorem takeWhile_all {α} (p : α → Bool) (xs : List α) (hx : ∀ x ∈ xs, p x = true) :
    xs.takeWhile p = xs ∧ xs.dropWhile p = [] := by
  induction xs with
  | nil => simp
  | cons x xs ih =>
    have hxx := hx x List.mem_cons_self
    have := ih (fun z hz => hx z (List.mem_cons_of_mem _ hz))
    simp [hxx, this]

example : intDecPlus (-128) = "-128".toList := by decide
example : intDecPlus 0 = "+0".toList := by decide
example : hexPad 4 0xab = "0x00ab".toList := by decide
example : hexPad 2 0x1ff = "0x1ff".toList := by decide
example : parseIntLit "+0x10".toList = some 16 := by decide

end Avo.NumText
