/-
Projection of the MaskSet-level liveness algorithm onto one location
(register id, byte lane): it is the Boolean algorithm of `LiveBool`.
-/
import AvoVerif.Model.Live
import AvoVerif.Lemmas.MaskSet
import AvoVerif.Lemmas.LiveBool
namespace Avo.Live
open Avo.Reg Avo.MaskSet

theorem set_getMS_self (a : Array MS) (i : Nat) : a.setIfInBounds i (getMS a i) = a := by
  unfold getMS
  apply Array.ext
  · simp
  · intro j h1 h2
    rw [Array.getElem_setIfInBounds (hj := h2)]
    by_cases h : i = j
    · subst h; simp [Array.getD, h2]
    · simp [h]

theorem getMS_set (a : Array MS) (i j : Nat) (v : MS) :
    getMS (a.setIfInBounds i v) j = if j = i ∧ i < a.size then v else getMS a j := by
  unfold getMS
  simp only [Array.getD_eq_getD_getElem?, Array.getElem?_setIfInBounds]
  by_cases h : i = j
  · subst h; by_cases h2 : i < a.size <;> simp [h2]
  · have : ¬ j = i := fun e => h e.symm
    simp [h, this]

/-- Does register `r` cover location (id, lane)? -/
def covers (id lane : Nat) (r : R) : Bool := r.id == id && r.mask.testBit lane

/-- The single-location program seen by location (id, lane). -/
def progAt (P : LProg) (id lane : Nat) : LiveBool.Prog :=
  { succ := fun i => (P.getD i default).succ.filterMap (fun x => x)
    use := fun i => (P.getD i default).uses.any (covers id lane)
    dfn := fun i => (P.getD i default).defs.any (covers id lane) }

def proj (st : LState) (id lane : Nat) : LiveBool.St :=
  { inS := fun i => mem (getMS st.ins i) id lane, outS := fun i => mem (getMS st.outs i) id lane }

theorem outLoop_mem (ins : Array MS) (id lane : Nat) : ∀ (ss : List (Option Nat)) (acc : MS × Bool),
    mem (outLoop ins acc ss).1 id lane =
      (mem acc.1 id lane || (ss.filterMap (fun x => x)).any (fun s => mem (getMS ins s) id lane))
  | [], acc => by simp [outLoop]
  | none :: ss, acc => by simp [outLoop, outLoop_mem ins id lane ss acc]
  | some s :: ss, acc => by
    simp [outLoop, outLoop_mem ins id lane ss, mem_update, Bool.or_assoc]

theorem outLoop_flag (ins : Array MS) : ∀ (ss : List (Option Nat)) (acc : MS × Bool),
    (outLoop ins acc ss).2 = false →
      acc.2 = false ∧ (outLoop ins acc ss).1 = acc.1 ∧
      ∀ s ∈ ss.filterMap (fun x => x), ∀ id lane, mem (getMS ins s) id lane = true → mem acc.1 id lane = true
  | [], acc, h => by simp [outLoop] at h ⊢; exact h
  | none :: ss, acc, h => by
    simp only [outLoop] at h ⊢
    simpa using outLoop_flag ins ss acc h
  | some s :: ss, acc, h => by
    simp only [outLoop] at h ⊢
    obtain ⟨h1, h2, h3⟩ := outLoop_flag ins ss _ h
    simp only [Bool.or_eq_false_iff] at h1
    obtain ⟨e, hm⟩ := update_unchanged acc.1 (getMS ins s) h1.2
    simp only at h2 h3
    refine ⟨h1.1, h2.trans e, ?_⟩
    intro t ht id lane hmem
    simp only [List.filterMap_cons, List.mem_cons] at ht
    rcases ht with rfl | ht
    · exact hm id lane hmem
    · have := h3 t ht id lane hmem
      rwa [e] at this

theorem visit_proj (P : LProg) (st : LState) (i : Nat) (hi1 : i < st.ins.size) (hi2 : i < st.outs.size)
    (id lane : Nat) :
    proj (visit P st i).1 id lane = LiveBool.visit (progAt P id lane) (proj st id lane) i := by
  have hout : mem (outLoop st.ins (getMS st.outs i, false) (P.getD i default).succ).1 id lane =
      LiveBool.newOut (progAt P id lane) (proj st id lane) i := by
    rw [outLoop_mem]; rfl
  unfold proj LiveBool.visit visit
  simp only [LiveBool.St.mk.injEq]
  constructor
  · funext j
    simp only [getMS_set, LiveBool.upd]
    by_cases hj : j = i
    · subst hj
      simp only [hi1, and_self, if_true, mem_update, mem_difference, hout]
      unfold LiveBool.newIn
      simp only [proj, progAt, mem_ofRegs]
      rfl
    · simp [hj]
  · funext j
    simp only [getMS_set, LiveBool.upd]
    by_cases hj : j = i
    · subst hj; simp only [hi2, and_self, if_true, hout]; rfl
    · simp [hj]

theorem visit_size (P : LProg) (st : LState) (i : Nat) :
    (visit P st i).1.ins.size = st.ins.size ∧ (visit P st i).1.outs.size = st.outs.size := by
  simp [visit]

/-- A quiet visit leaves the state untouched and is a fixed point for every location. -/
theorem visit_quiet (P : LProg) (st : LState) (i : Nat) (h : (visit P st i).2 = false) :
    (visit P st i).1 = st ∧ ∀ id lane, LiveBool.FixAt (progAt P id lane) (proj st id lane) i := by
  unfold visit at h
  simp only [Bool.or_eq_false_iff] at h
  obtain ⟨ho, hu⟩ := h
  obtain ⟨_, eo, hmo⟩ := outLoop_flag st.ins _ _ ho
  simp only at eo hmo
  obtain ⟨eu, hmu⟩ := update_unchanged _ _ hu
  constructor
  · unfold visit
    simp only [eo] at eu ⊢
    simp only [eu, set_getMS_self]
  · intro id lane
    constructor
    · -- newOut = outS
      show (mem (getMS st.outs i) id lane || _) = mem (getMS st.outs i) id lane
      cases hm : mem (getMS st.outs i) id lane with
      | true => simp
      | false =>
        simp only [Bool.false_or]
        apply Bool.eq_false_iff.mpr
        intro hany
        obtain ⟨s, hs, hsm⟩ := List.any_eq_true.mp hany
        have := hmo s hs id lane hsm
        rw [hm] at this; cases this
    · -- newIn = inS
      have hout : LiveBool.newOut (progAt P id lane) (proj st id lane) i = mem (getMS st.outs i) id lane := by
        show (mem (getMS st.outs i) id lane || _) = mem (getMS st.outs i) id lane
        cases hm : mem (getMS st.outs i) id lane with
        | true => simp
        | false =>
          simp only [Bool.false_or]
          apply Bool.eq_false_iff.mpr
          intro hany
          obtain ⟨s, hs, hsm⟩ := List.any_eq_true.mp hany
          have := hmo s hs id lane hsm
          rw [hm] at this; cases this
      unfold LiveBool.newIn
      rw [hout]
      show (mem (getMS st.ins i) id lane || _) = mem (getMS st.ins i) id lane
      cases hm : mem (getMS st.ins i) id lane with
      | true => simp
      | false =>
        simp only [Bool.false_or]
        apply Bool.eq_false_iff.mpr
        intro hand
        have hd := hmu id lane
        rw [eo, mem_difference, mem_ofRegs] at hd
        have : mem (getMS st.ins i) id lane = true := hd (by simpa [progAt, covers] using hand)
        rw [hm] at this; cases this

end Avo.Live
