/-
Helper lemmas for C14 about the text functions of `Model/Tags.lean`
(split / fields / join / trim).  Core Lean only.
-/
import AvoVerif.Model.Tags
namespace Avo.Tags

/-! ### split -/

theorem splitGo_append (sep : Char) (w rest cur : Str) (h : ∀ c ∈ w, c ≠ sep) :
    splitGo sep cur (w ++ rest) = splitGo sep (cur ++ w) rest := by
  induction w generalizing cur with
  | nil => simp
  | cons a w ih =>
    have ha : a ≠ sep := h a List.mem_cons_self
    have hw : ∀ c ∈ w, c ≠ sep := fun c hc => h c (List.mem_cons_of_mem _ hc)
    simp only [List.cons_append, splitGo]
    have : (a == sep) = false := by simpa using ha
    simp only [this, Bool.false_eq_true, if_false]
    rw [ih _ hw]; simp

theorem splitGo_join (sep : Char) (t : Str) (ts : List Str) (cur : Str)
    (h : ∀ x ∈ t :: ts, ∀ c ∈ x, c ≠ sep) :
    splitGo sep cur (join sep (t :: ts)) = (cur ++ t) :: ts := by
  induction ts generalizing t cur with
  | nil =>
    have := splitGo_append sep t [] cur (h t List.mem_cons_self)
    simpa [join, splitGo] using this
  | cons u us ih =>
    have ht := h t List.mem_cons_self
    have hu : ∀ x ∈ u :: us, ∀ c ∈ x, c ≠ sep := fun x hx => h x (List.mem_cons_of_mem _ hx)
    simp only [join]
    rw [splitGo_append sep t _ cur ht]
    simp only [splitGo, beq_self_eq_true, if_true]
    rw [ih u [] hu]; simp

/-- `strings.Split(strings.Join(o, ","), ",") = o` for a non-empty list of comma-free strings. -/
theorem split_join (sep : Char) (o : List Str) (hne : o ≠ [])
    (h : ∀ x ∈ o, ∀ c ∈ x, c ≠ sep) : split sep (join sep o) = o := by
  cases o with
  | nil => exact absurd rfl hne
  | cons t ts => simpa [split] using splitGo_join sep t ts [] h

theorem splitGo_ne_nil (sep : Char) (cur s : Str) : splitGo sep cur s ≠ [] := by
  induction s generalizing cur with
  | nil => simp [splitGo]
  | cons c cs ih =>
    simp only [splitGo]; split
    · simp
    · exact ih _

/-! ### fields -/

theorem fieldsGo_append (w rest cur : Str) (h : ∀ c ∈ w, isSpace c = false) :
    fieldsGo cur (w ++ rest) = fieldsGo (cur ++ w) rest := by
  induction w generalizing cur with
  | nil => simp
  | cons a w ih =>
    have ha : isSpace a = false := h a List.mem_cons_self
    have hw : ∀ c ∈ w, isSpace c = false := fun c hc => h c (List.mem_cons_of_mem _ hc)
    simp only [List.cons_append, fieldsGo, ha, Bool.false_eq_true, if_false]
    rw [ih _ hw]; simp

theorem fieldsGo_spaces (sp : Str) (h : ∀ c ∈ sp, isSpace c = true) : fieldsGo [] sp = [] := by
  induction sp with
  | nil => simp [fieldsGo]
  | cons a sp ih =>
    have ha := h a List.mem_cons_self
    simp only [fieldsGo, ha, if_true, List.isEmpty_nil]
    exact ih (fun c hc => h c (List.mem_cons_of_mem _ hc))

theorem fieldsGo_append_spaces (x sp cur : Str) (h : ∀ c ∈ sp, isSpace c = true) :
    fieldsGo cur (x ++ sp) = fieldsGo cur x := by
  induction x generalizing cur with
  | nil =>
    cases sp with
    | nil => rfl
    | cons a sp =>
      have ha := h a List.mem_cons_self
      have hs := fieldsGo_spaces sp (fun c hc => h c (List.mem_cons_of_mem _ hc))
      cases cur <;> simp [fieldsGo, ha, hs]
  | cons a x ih =>
    simp only [List.cons_append, fieldsGo]
    split
    · split <;> simp [ih]
    · exact ih _

theorem fields_trimLeft (s : Str) : fields (trimLeft s) = fields s := by
  induction s with
  | nil => rfl
  | cons a s ih =>
    unfold trimLeft fields at *
    by_cases ha : isSpace a = true
    · simp only [List.dropWhile_cons, ha, if_true, fieldsGo, List.isEmpty_nil]; exact ih
    · simp [ha]

theorem mem_takeWhile_sat {α} (p : α → Bool) (l : List α) (a : α) (h : a ∈ l.takeWhile p) : p a = true := by
  induction l with
  | nil => simp at h
  | cons b l ih =>
    rw [List.takeWhile_cons] at h
    by_cases hb : p b = true
    · simp only [hb, if_true, List.mem_cons] at h
      rcases h with h | h
      · rw [h]; exact hb
      · exact ih h
    · simp [hb] at h

theorem length_dropWhile_le' {α} (p : α → Bool) (l : List α) : (l.dropWhile p).length ≤ l.length := by
  induction l with
  | nil => simp
  | cons b l ih =>
    rw [List.dropWhile_cons]
    split
    · simp only [List.length_cons]; omega
    · simp

theorem trimRight_append_spaces (s : Str) :
    ∃ sp, (∀ c ∈ sp, isSpace c = true) ∧ s = trimRight s ++ sp := by
  refine ⟨(s.reverse.takeWhile isSpace).reverse, ?_, ?_⟩
  · intro c hc
    exact mem_takeWhile_sat _ _ _ (List.mem_reverse.mp hc)
  · unfold trimRight
    rw [← List.reverse_append, List.takeWhile_append_dropWhile, List.reverse_reverse]

theorem fields_trimRight (s : Str) : fields (trimRight s) = fields s := by
  obtain ⟨sp, hsp, hs⟩ := trimRight_append_spaces s
  unfold fields
  conv => rhs; rw [hs]
  rw [fieldsGo_append_spaces _ _ _ hsp]

theorem fields_trimSpace (s : Str) : fields (trimSpace s) = fields s := by
  unfold trimSpace; rw [fields_trimRight, fields_trimLeft]

/-! ### trim -/

theorem length_trimLeft_le (s : Str) : (trimLeft s).length ≤ s.length :=
  length_dropWhile_le' _ _

theorem length_trimRight_le (s : Str) : (trimRight s).length ≤ s.length := by
  unfold trimRight
  rw [List.length_reverse]
  have := length_dropWhile_le' isSpace s.reverse
  simpa using this

theorem length_trimSpace_le (s : Str) : (trimSpace s).length ≤ s.length :=
  Nat.le_trans (length_trimRight_le _) (length_trimLeft_le _)

theorem trimRight_cons (a : Char) (x : Str) :
    trimRight (a :: x) = if (trimRight x).isEmpty && isSpace a then [] else a :: trimRight x := by
  unfold trimRight
  rw [List.reverse_cons, List.dropWhile_append]
  by_cases h : (List.dropWhile isSpace x.reverse).isEmpty = true
  · have h' : List.dropWhile isSpace x.reverse = [] := by simpa using h
    by_cases ha : isSpace a = true <;> simp [h', ha]
  · have h' : List.dropWhile isSpace x.reverse ≠ [] := by simpa using h
    simp [h']

theorem trimRight_nil : trimRight [] = [] := rfl

/-- A prefix ending in a non-space survives `trimRight`. -/
theorem trimRight_prefix (p b : Str) (a : Char) (ha : isSpace a = false) :
    trimRight (p ++ a :: b) = p ++ trimRight (a :: b) := by
  induction p with
  | nil => rfl
  | cons q p ih =>
    rw [List.cons_append, trimRight_cons, ih]
    have : trimRight (a :: b) ≠ [] := by
      rw [trimRight_cons]; simp [ha]
    have h2 : (p ++ trimRight (a :: b)).isEmpty = false := by
      cases p <;> simp [this]
    simp [h2]

end Avo.Tags
