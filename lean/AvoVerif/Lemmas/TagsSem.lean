/-
Helper lemmas for C14 about terms, options and their toolchain reading.
Core Lean only.
-/
import AvoVerif.Lemmas.TagsText
namespace Avo.Tags

theorem name_cases (t : Term) :
    (t = '!' :: name t ∧ isNegated t = true) ∨ (name t = t ∧ isNegated t = false) := by
  unfold name isNegated
  split <;> simp_all

theorem validTerm_iff (tc : Char → Bool) (t : Term) :
    validTerm tc t = true ↔
      (∀ r, t ≠ '!' :: '!' :: r) ∧ name t ≠ [] ∧ ∀ c ∈ name t, tc c = true := by
  unfold validTerm
  split
  · simp
  · rename_i h
    simp only [Bool.and_eq_true, Bool.not_eq_true', List.isEmpty_eq_false_iff, List.all_eq_true]
    constructor
    · intro ⟨h1, h2⟩
      exact ⟨fun r hr => h r hr, h1, h2⟩
    · intro ⟨_, h1, h2⟩
      exact ⟨h1, h2⟩

theorem validTerm_chars (tc : Char → Bool) (t : Term) (h : validTerm tc t = true) :
    t ≠ [] ∧ ∀ c ∈ t, c = '!' ∨ tc c = true := by
  rw [validTerm_iff] at h
  obtain ⟨_, h1, h2⟩ := h
  rcases name_cases t with ⟨ht, _⟩ | ⟨ht, _⟩
  · constructor
    · rw [ht]; simp
    · intro c hc
      rw [ht] at hc
      rcases List.mem_cons.mp hc with hc | hc
      · exact Or.inl hc
      · exact Or.inr (h2 c hc)
  · rw [ht] at h1 h2
    exact ⟨h1, fun c hc => Or.inr (h2 c hc)⟩

theorem validTerm_sep {tc : Char → Bool} (hs : SepFree tc) (t : Term) (h : validTerm tc t = true) :
    t ≠ [] ∧ (∀ c ∈ t, c ≠ ',') ∧ (∀ c ∈ t, isSpace c = false) := by
  obtain ⟨h1, h2⟩ := validTerm_chars tc t h
  refine ⟨h1, ?_, ?_⟩
  · intro c hc hcc
    rcases h2 c hc with h | h
    · rw [h] at hcc; exact absurd hcc (by decide)
    · rw [hcc, hs.comma] at h; exact absurd h (by decide)
  · intro c hc
    rcases h2 c hc with h | h
    · rw [h]; decide
    · cases hsp : isSpace c with
      | false => rfl
      | true => rw [hs.space c hsp] at h; exact absurd h (by decide)

theorem mem_join (sep : Char) (xs : List Str) (c : Char) (h : c ∈ join sep xs) :
    c = sep ∨ ∃ x ∈ xs, c ∈ x := by
  induction xs with
  | nil => simp [join] at h
  | cons x xs ih =>
    cases xs with
    | nil => simp only [join] at h; exact Or.inr ⟨x, List.mem_cons_self, h⟩
    | cons y r =>
      simp only [join, List.mem_append, List.mem_cons] at h
      rcases h with h | h | h
      · exact Or.inr ⟨x, List.mem_cons_self, h⟩
      · exact Or.inl h
      · rcases ih h with h | ⟨z, hz, hc⟩
        · exact Or.inl h
        · exact Or.inr ⟨z, List.mem_cons_of_mem _ hz, hc⟩

theorem join_ne_nil (sep : Char) (x : Str) (xs : List Str) (h : x ≠ []) : join sep (x :: xs) ≠ [] := by
  cases xs <;> simp [join, h]

/-- A valid non-empty option prints as a non-empty text without white space. -/
theorem optText_word {tc : Char → Bool} (hs : SepFree tc) (o : Opt) (hv : validOpt tc o = true) (hne : o ≠ []) :
    optText o ≠ [] ∧ ∀ c ∈ optText o, isSpace c = false := by
  have hall : ∀ t ∈ o, validTerm tc t = true := by simpa [validOpt] using hv
  cases o with
  | nil => exact absurd rfl hne
  | cons t ts =>
    constructor
    · exact join_ne_nil _ _ _ (validTerm_sep hs t (hall t List.mem_cons_self)).1
    · intro c hc
      rcases mem_join _ _ _ hc with h | ⟨x, hx, hcx⟩
      · rw [h]; decide
      · exact (validTerm_sep hs x (hall x hx)).2.2 c hcx

theorem split_optText {tc : Char → Bool} (hs : SepFree tc) (o : Opt) (hv : validOpt tc o = true) (hne : o ≠ []) :
    split ',' (optText o) = o := by
  have hall : ∀ t ∈ o, validTerm tc t = true := by simpa [validOpt] using hv
  exact split_join ',' o hne (fun x hx => (validTerm_sep hs x (hall x hx)).2.1)

/-- `strings.Fields` of the printed options gives back the option texts. -/
theorem fields_body (c : Constraint)
    (h : ∀ o ∈ c, optText o ≠ [] ∧ ∀ ch ∈ optText o, isSpace ch = false) :
    fields (body c) = c.map optText := by
  induction c with
  | nil => rfl
  | cons o os ih =>
    have ho := h o List.mem_cons_self
    have ih := ih (fun o' ho' => h o' (List.mem_cons_of_mem _ ho'))
    have hsp : isSpace ' ' = true := by decide
    unfold fields at *
    simp only [body, List.cons_append, fieldsGo, hsp, if_true, List.isEmpty_nil, List.map_cons]
    rw [fieldsGo_append _ _ _ ho.2, List.nil_append]
    have hne : (optText o).isEmpty = false := by simpa using ho.1
    cases os with
    | nil => simp [body, fieldsGo, hne]
    | cons o' os' =>
      simp only [body, List.cons_append, fieldsGo, hsp, if_true, List.isEmpty_nil] at ih
      simp only [body, List.cons_append, fieldsGo, hsp, if_true, hne, Bool.false_eq_true, if_false, ih]

end Avo.Tags
