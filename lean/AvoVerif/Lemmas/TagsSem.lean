/-
Helper lemmas for C14 about terms, options and their toolchain reading.
Core Lean only.
-/
import AvoVerif.Lemmas.TagsText
namespace Avo.Tags

/-! Validity without the non-emptiness clauses (the lemmas below carry
non-emptiness as separate hypotheses; `Props/C14.lean` derives both from
`validate`). -/
def termsValid (tc : Char → Bool) (o : Opt) : Bool := o.all (validTerm tc)
def optsValid (tc : Char → Bool) (c : Constraint) : Bool := c.all (termsValid tc)
def setValid (tc : Char → Bool) (cs : Constraints) : Bool := cs.all (optsValid tc)

theorem validOpt_iff (tc : Char → Bool) (o : Opt) :
    validOpt tc o = true ↔ o ≠ [] ∧ termsValid tc o = true := by
  simp [validOpt, termsValid]

theorem validConstraint_iff (tc : Char → Bool) (c : Constraint) :
    validConstraint tc c = true ↔ c ≠ [] ∧ (∀ o ∈ c, o ≠ []) ∧ optsValid tc c = true := by
  simp only [validConstraint, optsValid, Bool.and_eq_true, Bool.not_eq_true', List.isEmpty_eq_false_iff,
    List.all_eq_true, validOpt_iff]
  constructor
  · intro ⟨h1, h2⟩; exact ⟨h1, fun o ho => (h2 o ho).1, fun o ho => (h2 o ho).2⟩
  · intro ⟨h1, h2, h3⟩; exact ⟨h1, fun o ho => ⟨h2 o ho, h3 o ho⟩⟩

theorem validate_iff (tc : Char → Bool) (cs : Constraints) :
    validate tc cs = true ↔ (∀ c ∈ cs, c ≠ []) ∧ (∀ c ∈ cs, ∀ o ∈ c, o ≠ []) ∧ setValid tc cs = true := by
  simp only [validate, setValid, List.all_eq_true, validConstraint_iff]
  constructor
  · intro h; exact ⟨fun c hc => (h c hc).1, fun c hc => (h c hc).2.1, fun c hc => (h c hc).2.2⟩
  · intro ⟨h1, h2, h3⟩ c hc; exact ⟨h1 c hc, h2 c hc, h3 c hc⟩

theorem name_cases (t : Term) :
    (t = '!' :: name t ∧ isNegated t = true) ∨ (name t = t ∧ isNegated t = false) := by
  unfold name isNegated
  split <;> simp_all

theorem validTerm_iff (tc : Char → Bool) (t : Term) :
    validTerm tc t = true ↔
      (∀ r, t ≠ '!' :: '!' :: r) ∧ name t ≠ [] ∧ ∀ c ∈ name t, tc c = true := by
  unfold validTerm
  split
  · simp
  · rename_i h
    simp only [Bool.and_eq_true, Bool.not_eq_true', List.isEmpty_eq_false_iff, List.all_eq_true]
    constructor
    · intro ⟨h1, h2⟩
      exact ⟨fun r hr => h r hr, h1, h2⟩
    · intro ⟨_, h1, h2⟩
      exact ⟨h1, h2⟩

theorem validTerm_chars (tc : Char → Bool) (t : Term) (h : validTerm tc t = true) :
    t ≠ [] ∧ ∀ c ∈ t, c = '!' ∨ tc c = true := by
  rw [validTerm_iff] at h
  obtain ⟨_, h1, h2⟩ := h
  rcases name_cases t with ⟨ht, _⟩ | ⟨ht, _⟩
  · constructor
    · rw [ht]; simp
    · intro c hc
      rw [ht] at hc
      rcases List.mem_cons.mp hc with hc | hc
      · exact Or.inl hc
      · exact Or.inr (h2 c hc)
  · rw [ht] at h1 h2
    exact ⟨h1, fun c hc => Or.inr (h2 c hc)⟩

theorem validTerm_sep {tc : Char → Bool} (hs : SepFree tc) (t : Term) (h : validTerm tc t = true) :
    t ≠ [] ∧ (∀ c ∈ t, c ≠ ',') ∧ (∀ c ∈ t, isSpace c = false) := by
  obtain ⟨h1, h2⟩ := validTerm_chars tc t h
  refine ⟨h1, ?_, ?_⟩
  · intro c hc hcc
    rcases h2 c hc with h | h
    · rw [h] at hcc; exact absurd hcc (by decide)
    · rw [hcc, hs.comma] at h; exact absurd h (by decide)
  · intro c hc
    rcases h2 c hc with h | h
    · rw [h]; decide
    · cases hsp : isSpace c with
      | false => rfl
      | true => rw [hs.space c hsp] at h; exact absurd h (by decide)

theorem mem_join (sep : Char) (xs : List Str) (c : Char) (h : c ∈ join sep xs) :
    c = sep ∨ ∃ x ∈ xs, c ∈ x := by
  induction xs with
  | nil => simp [join] at h
  | cons x xs ih =>
    cases xs with
    | nil => simp only [join] at h; exact Or.inr ⟨x, List.mem_cons_self, h⟩
    | cons y r =>
      simp only [join, List.mem_append, List.mem_cons] at h
      rcases h with h | h | h
      · exact Or.inr ⟨x, List.mem_cons_self, h⟩
      · exact Or.inl h
      · rcases ih h with h | ⟨z, hz, hc⟩
        · exact Or.inl h
        · exact Or.inr ⟨z, List.mem_cons_of_mem _ hz, hc⟩

theorem join_ne_nil (sep : Char) (x : Str) (xs : List Str) (h : x ≠ []) : join sep (x :: xs) ≠ [] := by
  cases xs <;> simp [join, h]

/-- A valid non-empty option prints as a non-empty text without white space. -/
theorem optText_word {tc : Char → Bool} (hs : SepFree tc) (o : Opt) (hv : termsValid tc o = true) (hne : o ≠ []) :
    optText o ≠ [] ∧ ∀ c ∈ optText o, isSpace c = false := by
  have hall : ∀ t ∈ o, validTerm tc t = true := by simpa [termsValid] using hv
  cases o with
  | nil => exact absurd rfl hne
  | cons t ts =>
    constructor
    · exact join_ne_nil _ _ _ (validTerm_sep hs t (hall t List.mem_cons_self)).1
    · intro c hc
      rcases mem_join _ _ _ hc with h | ⟨x, hx, hcx⟩
      · rw [h]; decide
      · exact (validTerm_sep hs x (hall x hx)).2.2 c hcx

theorem split_optText {tc : Char → Bool} (hs : SepFree tc) (o : Opt) (hv : termsValid tc o = true) (hne : o ≠ []) :
    split ',' (optText o) = o := by
  have hall : ∀ t ∈ o, validTerm tc t = true := by simpa [termsValid] using hv
  exact split_join ',' o hne (fun x hx => (validTerm_sep hs x (hall x hx)).2.1)

/-- `strings.Fields` of the printed options gives back the option texts. -/
theorem fields_body (c : Constraint)
    (h : ∀ o ∈ c, optText o ≠ [] ∧ ∀ ch ∈ optText o, isSpace ch = false) :
    fields (body c) = c.map optText := by
  induction c with
  | nil => rfl
  | cons o os ih =>
    have ho := h o List.mem_cons_self
    have ih := ih (fun o' ho' => h o' (List.mem_cons_of_mem _ ho'))
    have hsp : isSpace ' ' = true := by decide
    unfold fields at *
    simp only [body, List.cons_append, fieldsGo, hsp, if_true, List.isEmpty_nil, List.map_cons]
    rw [fieldsGo_append _ _ _ ho.2, List.nil_append]
    have hne : (optText o).isEmpty = false := by simpa using ho.1
    cases os with
    | nil => simp [body, fieldsGo, hne]
    | cons o' os' =>
      simp only [body, List.cons_append, fieldsGo, hsp, if_true, List.isEmpty_nil] at ih
      simp only [body, List.cons_append, fieldsGo, hsp, if_true, hne, Bool.false_eq_true, if_false, ih]

/-! roundtrip -/
theorem parseOption_optText {tc : Char → Bool} (hs : SepFree tc) (o : Opt) (hv : termsValid tc o = true) (hne : o ≠ []) :
    parseOption tc (optText o) = some o := by
  unfold parseOption
  have hvo : validOpt tc o = true := (validOpt_iff tc o).mpr ⟨hne, hv⟩
  simp only [split_optText hs o hv hne, hvo, if_true]

theorem parseOptions_map {tc : Char → Bool} (hs : SepFree tc) (c : Constraint)
    (hv : optsValid tc c = true) (hne : ∀ o ∈ c, o ≠ []) :
    parseOptions tc (c.map optText) = some c := by
  induction c with
  | nil => rfl
  | cons o os ih =>
    have hv' : termsValid tc o = true ∧ optsValid tc os = true := by
      simpa [optsValid] using hv
    simp only [List.map_cons, parseOptions,
      parseOption_optText hs o hv'.1 (hne o List.mem_cons_self),
      ih hv'.2 (fun o' ho' => hne o' (List.mem_cons_of_mem _ ho'))]

/-! toolchain literals -/
theorem toolchainTag_eq (tc : Char → Bool) (t : Term) : validTerm tc t = toolchainTag tc t := by
  unfold validTerm toolchainTag isValidTag
  split
  · rfl
  · rename_i h
    split
    · exact absurd rfl (h _)
    · simp [name]
    · rename_i r h2 h3
      simp [name]
    · rename_i h2 h3 h4
      have : name t = t := by
        unfold name; split
        · exact absurd rfl (h4 _)
        · rfl
      rw [this]

theorem litExpr_valid (tc : Char → Bool) (t : Term) (h : validTerm tc t = true) :
    litExpr tc t = if isNegated t then .not (.tag (name t)) else .tag (name t) := by
  rw [toolchainTag_eq] at h
  unfold toolchainTag at h
  unfold litExpr
  split
  · simp at h
  · simp at h
  · rename_i r h2 h3
    simp only at h
    simp [h, isNegated, name]
  · rename_i h2 h3 h4
    have hn : name t = t := by
      unfold name; split
      · exact absurd rfl (h4 _)
      · rfl
    have hneg : isNegated t = false := by
      unfold isNegated; split
      · exact absurd rfl (h4 _)
      · rfl
    split at h
    · exact absurd rfl (h2 _)
    · exact absurd rfl h3
    · exact absurd rfl (h4 _)
    · simp [h, hn, hneg]

theorem eval_litExpr (tc : Char → Bool) (v : Str → Bool) (t : Term) (h : validTerm tc t = true) :
    (litExpr tc t).eval v = evalTerm tc v t := by
  rw [litExpr_valid tc t h]
  unfold evalTerm
  rw [h]
  cases hn : isNegated t <;> simp [Expr.eval]

theorem eval_andAll (v : Str → Bool) (x : Expr) (ys : List Expr) :
    (andAll x ys).eval v = (x.eval v && ys.all (·.eval v)) := by
  induction ys generalizing x with
  | nil => simp [andAll]
  | cons y ys ih => simp [andAll, ih, Expr.eval, Bool.and_assoc]

theorem eval_orAll (v : Str → Bool) (x : Expr) (ys : List Expr) :
    (orAll x ys).eval v = (x.eval v || ys.any (·.eval v)) := by
  induction ys generalizing x with
  | nil => simp [orAll]
  | cons y ys ih => simp [orAll, ih, Expr.eval, Bool.or_assoc]

theorem all_congr' {α} (l : List α) (f g : α → Bool) (h : ∀ x ∈ l, f x = g x) : l.all f = l.all g := by
  induction l with
  | nil => rfl
  | cons a l ih =>
    simp only [List.all_cons, h a List.mem_cons_self, ih (fun x hx => h x (List.mem_cons_of_mem _ hx))]

theorem any_congr' {α} (l : List α) (f g : α → Bool) (h : ∀ x ∈ l, f x = g x) : l.any f = l.any g := by
  induction l with
  | nil => rfl
  | cons a l ih =>
    simp only [List.any_cons, h a List.mem_cons_self, ih (fun x hx => h x (List.mem_cons_of_mem _ hx))]

theorem eval_clauseExpr {tc : Char → Bool} (hs : SepFree tc) (v : Str → Bool) (o : Opt)
    (hv : termsValid tc o = true) (hne : o ≠ []) :
    (clauseExpr tc (optText o)).eval v = evalOpt tc v o := by
  unfold clauseExpr
  rw [split_optText hs o hv hne]
  have hall : ∀ t ∈ o, validTerm tc t = true := by simpa [termsValid] using hv
  cases o with
  | nil => exact absurd rfl hne
  | cons t ts =>
    simp only [List.map_cons, eval_andAll, evalOpt, List.all_cons, List.all_map]
    rw [eval_litExpr tc v t (hall t List.mem_cons_self)]
    congr 1
    apply all_congr'
    intro x hx
    exact eval_litExpr tc v x (hall x (List.mem_cons_of_mem _ hx))

theorem sumOps_eq {tc : Char → Bool} (hs : SepFree tc) (c : Constraint)
    (hv : optsValid tc c = true) (hne : ∀ o ∈ c, o ≠ []) :
    ((c.map optText).map (fun cl => (split ',' cl).length - 1)).sum + c.length = termCount c := by
  induction c with
  | nil => rfl
  | cons o os ih =>
    have hv' : termsValid tc o = true ∧ optsValid tc os = true := by
      simpa [optsValid] using hv
    have ho := hne o List.mem_cons_self
    have ih := ih hv'.2 (fun o' ho' => hne o' (List.mem_cons_of_mem _ ho'))
    have hl : 0 < o.length := List.length_pos_iff.mpr ho
    simp only [List.map_cons, List.sum_cons, List.length_cons, termCount, split_optText hs o hv'.1 ho] at ih ⊢
    omega

theorem plusBuildExpr_of_fields {tc : Char → Bool} (hs : SepFree tc) (c : Constraint)
    (hv : optsValid tc c = true) (hne : ∀ o ∈ c, o ≠ []) (hsz : termCount c ≤ maxOldSize + 1)
    (text : Str) (hf : fields text = c.map optText) :
    plusBuildExpr tc text = some (lineExpr tc c) := by
  unfold plusBuildExpr
  simp only [hf]
  have h1 := sumOps_eq hs c hv hne
  have : ¬ plusOps (c.map optText) > maxOldSize := by
    unfold plusOps
    cases c with
    | nil => simp [maxOldSize]
    | cons o os => simp only [List.length_map, List.length_cons, maxOldSize] at *; omega
  simp only [this, if_false, List.map_map, lineExpr]
  cases c with
  | nil => rfl
  | cons o os => rfl

theorem eval_lineExpr {tc : Char → Bool} (hs : SepFree tc) (v : Str → Bool) (c : Constraint)
    (hv : optsValid tc c = true) (hne : ∀ o ∈ c, o ≠ [])
    (hig : c ≠ [] ∨ v ignoreTag = false) :
    (lineExpr tc c).eval v = evalConstraint tc v c := by
  have hall : ∀ o ∈ c, termsValid tc o = true := by simpa [optsValid] using hv
  unfold lineExpr evalConstraint
  cases c with
  | nil =>
    rcases hig with h | h
    · exact absurd rfl h
    · simp [Expr.eval, h]
  | cons o os =>
    simp only [List.map_cons, eval_orAll, List.any_cons, List.any_map]
    rw [eval_clauseExpr hs v o (hall o List.mem_cons_self) (hne o List.mem_cons_self)]
    congr 1
    apply any_congr'
    intro x hx
    exact eval_clauseExpr hs v x (hall x (List.mem_cons_of_mem _ hx)) (hne x (List.mem_cons_of_mem _ hx))

/-! lines -/
def lineArg (c : Constraint) : Str := trimSpace (trimRight (body c))

theorem body_head (c : Constraint) : body c = [] ∨ ∃ x, body c = ' ' :: x := by
  cases c with
  | nil => exact Or.inl rfl
  | cons o os => exact Or.inr ⟨_, rfl⟩

theorem stripOneNewline_id (s : Str) (h : '\n' ∉ s) : stripOneNewline s = s := by
  unfold stripOneNewline
  split
  · rename_i r hr
    have : '\n' ∈ s.reverse := by rw [hr]; exact List.mem_cons_self
    exact absurd (List.mem_reverse.mp this) h
  · rfl

theorem splitPlusBuild_lineText (c : Constraint) (hnl : '\n' ∉ body c) :
    splitPlusBuild (lineText c) = some (lineArg c) := by
  have hnl' : '\n' ∉ lineText c := by
    unfold lineText plusPrefix
    simp only [List.mem_append, not_or]
    exact ⟨by decide, hnl⟩
  unfold splitPlusBuild
  simp only [stripOneNewline_id _ hnl']
  have hc : (lineText c).contains '\n' = false := by simpa using hnl'
  simp only [hc, Bool.false_eq_true, if_false]
  have h1 : dropPrefix? ['/', '/'] (lineText c) = some (' ' :: (['+', 'b', 'u', 'i', 'l'] ++ 'd' :: body c)) := by
    simp [lineText, plusPrefix, dropPrefix?]
  simp only [h1]
  have h2 : trimSpace (' ' :: (['+', 'b', 'u', 'i', 'l'] ++ 'd' :: body c)) = plusBuildWord ++ trimRight (body c) := by
    unfold trimSpace
    have : trimLeft (' ' :: (['+', 'b', 'u', 'i', 'l'] ++ 'd' :: body c)) = ['+', 'b', 'u', 'i', 'l'] ++ 'd' :: body c := by
      unfold trimLeft
      rw [List.dropWhile_cons]
      have : isSpace ' ' = true := by decide
      simp only [this, if_true]
      have h3 : isSpace '+' = false := by decide
      simp [h3]
    rw [this, trimRight_prefix _ _ _ (by decide), trimRight_cons]
    have : isSpace 'd' = false := by decide
    simp [this, plusBuildWord]
  simp only [h2]
  have h3 : dropPrefix? plusBuildWord (plusBuildWord ++ trimRight (body c)) = some (trimRight (body c)) := by
    simp [plusBuildWord, dropPrefix?]
  simp only [h3]
  have h4 : ¬ (((trimRight (body c)).length == (trimSpace (trimRight (body c))).length && !(trimRight (body c)).isEmpty) = true) := by
    rcases body_head c with h | ⟨x, h⟩
    · simp [h, trimRight_nil]
    · rw [h, trimRight_cons]
      split
      · simp
      · have hl : (trimSpace (' ' :: trimRight x)).length ≤ (trimRight x).length := by
          unfold trimSpace
          have : trimLeft (' ' :: trimRight x) = trimLeft (trimRight x) := by
            unfold trimLeft; rw [List.dropWhile_cons]
            have : isSpace ' ' = true := by decide
            simp [this]
          rw [this]
          exact Nat.le_trans (length_trimRight_le _) (length_trimLeft_le _)
        simp only [List.length_cons, Bool.and_eq_true, beq_iff_eq, not_and]
        intro heq
        omega
  simp [h4, lineArg]

theorem fields_lineArg (c : Constraint) : fields (lineArg c) = fields (body c) := by
  unfold lineArg; rw [fields_trimSpace, fields_trimRight]

theorem mem_body (c : Constraint) (ch : Char) (h : ch ∈ body c) : ch = ' ' ∨ ∃ o ∈ c, ch ∈ optText o := by
  induction c with
  | nil => simp [body] at h
  | cons o os ih =>
    simp only [body, List.cons_append, List.mem_cons, List.mem_append] at h
    rcases h with h | h | h
    · exact Or.inl h
    · exact Or.inr ⟨o, List.mem_cons_self, h⟩
    · rcases ih h with h | ⟨o', ho', h⟩
      · exact Or.inl h
      · exact Or.inr ⟨o', List.mem_cons_of_mem _ ho', h⟩

theorem newline_not_in_body {tc : Char → Bool} (hs : SepFree tc) (c : Constraint)
    (hv : optsValid tc c = true) : '\n' ∉ body c := by
  intro h
  have hall : ∀ o ∈ c, termsValid tc o = true := by simpa [optsValid] using hv
  rcases mem_body c _ h with h | ⟨o, ho, h⟩
  · exact absurd h (by decide)
  · rcases mem_join _ _ _ h with h | ⟨t, ht, h⟩
    · exact absurd h (by decide)
    · have hvt : validTerm tc t = true := by
        have := hall o ho
        simp only [termsValid, List.all_eq_true] at this
        exact this t ht
      have := (validTerm_sep hs t hvt).2.2 _ h
      exact absurd this (by decide)

def pkgLine : Str := ['p', 'a', 'c', 'k', 'a', 'g', 'e', ' ', 's', 't', 'u', 'b']

theorem split_goString (cs : Constraints) (h : ∀ c ∈ cs, '\n' ∉ lineText c) :
    split '\n' (goString cs ++ stubSuffix) = cs.map lineText ++ [[], pkgLine] := by
  unfold split
  induction cs with
  | nil => simp [goString, stubSuffix, splitGo, pkgLine]
  | cons c cs ih =>
    have hc := h c List.mem_cons_self
    have ih := ih (fun c' hc' => h c' (List.mem_cons_of_mem _ hc'))
    simp only [goString, goStringC, List.append_assoc, List.map_cons, List.cons_append]
    rw [splitGo_append '\n' (lineText c) _ [] (fun x hx hxe => hc (hxe ▸ hx))]
    simp only [List.nil_append, splitGo, beq_self_eq_true, if_true, ih]

theorem filterMap_lines (cs : Constraints) (h : ∀ c ∈ cs, '\n' ∉ body c) :
    (cs.map lineText ++ [[], pkgLine]).filterMap splitPlusBuild = cs.map lineArg := by
  induction cs with
  | nil => decide
  | cons c cs ih =>
    have ih := ih (fun c' hc' => h c' (List.mem_cons_of_mem _ hc'))
    simp only [List.map_cons, List.cons_append, List.filterMap_cons,
      splitPlusBuild_lineText c (h c List.mem_cons_self), ih]

theorem parseAll_map (tc : Char → Bool) (cs : Constraints)
    (h : ∀ c ∈ cs, plusBuildExpr tc (lineArg c) = some (lineExpr tc c)) :
    parseAll tc (cs.map lineArg) = some (cs.map (lineExpr tc)) := by
  induction cs with
  | nil => rfl
  | cons c cs ih =>
    simp only [List.map_cons, parseAll, h c List.mem_cons_self,
      ih (fun c' hc' => h c' (List.mem_cons_of_mem _ hc'))]

/-- What `buildtags.Format` prints for a valid constraint set within the
`// +build` complexity limit: nothing for the empty set, otherwise one
`//go:build` line with the AND of the line expressions. -/
theorem format_eq {tc : Char → Bool} (hs : SepFree tc) (cs : Constraints)
    (hv : setValid tc cs = true) (hne : ∀ c ∈ cs, ∀ o ∈ c, o ≠ [])
    (hsz : ∀ c ∈ cs, termCount c ≤ maxOldSize + 1) :
    format tc cs = match cs.map (lineExpr tc) with
      | [] => .none
      | e :: es => .goBuild (andAll e es) := by
  have hall : ∀ c ∈ cs, optsValid tc c = true := by simpa [setValid] using hv
  have hnl : ∀ c ∈ cs, '\n' ∉ body c := fun c hc => newline_not_in_body hs c (hall c hc)
  have hnl' : ∀ c ∈ cs, '\n' ∉ lineText c := by
    intro c hc
    unfold lineText plusPrefix
    simp only [List.mem_append, not_or]
    exact ⟨by decide, hnl c hc⟩
  unfold format formatHeader
  rw [split_goString cs hnl', filterMap_lines cs hnl, parseAll_map]
  · cases cs.map (lineExpr tc) <;> rfl
  · intro c hc
    have hvc := hall c hc
    have hallo : ∀ o ∈ c, termsValid tc o = true := by simpa [optsValid] using hvc
    apply plusBuildExpr_of_fields hs c hvc (hne c hc) (hsz c hc)
    rw [fields_lineArg]
    exact fields_body c (fun o ho => optText_word hs o (hallo o ho) (hne c hc o ho))

/-! sizes -/
def isBin : Expr → Nat
  | .and _ _ => 1
  | .or _ _ => 1
  | _ => 0

theorem psize_le (e : Expr) : e.psize + isBin e + 1 ≤ 2 * e.leaves := by
  induction e with
  | tag t => simp [Expr.psize, Expr.leaves, isBin]
  | not x ih =>
    cases x <;> simp only [Expr.psize, Expr.leaves, isBin] at ih ⊢ <;> omega
  | and x y ihx ihy =>
    cases x <;> cases y <;> simp only [Expr.psize, Expr.leaves, isBin] at ihx ihy ⊢ <;> omega
  | or x y ihx ihy =>
    cases x <;> cases y <;> simp only [Expr.psize, Expr.leaves, isBin] at ihx ihy ⊢ <;> omega

theorem leaves_andAll (x : Expr) (ys : List Expr) : (andAll x ys).leaves = x.leaves + (ys.map Expr.leaves).sum := by
  induction ys generalizing x with
  | nil => simp [andAll]
  | cons y ys ih => simp [andAll, ih, Expr.leaves, Nat.add_assoc]

theorem leaves_orAll (x : Expr) (ys : List Expr) : (orAll x ys).leaves = x.leaves + (ys.map Expr.leaves).sum := by
  induction ys generalizing x with
  | nil => simp [orAll]
  | cons y ys ih => simp [orAll, ih, Expr.leaves, Nat.add_assoc]

theorem leaves_litExpr (tc : Char → Bool) (t : Str) : (litExpr tc t).leaves = 1 := by
  unfold litExpr
  split <;> (try split) <;> simp [Expr.leaves]

theorem sum_leaves_lit (tc : Char → Bool) (zs : List Str) :
    (zs.map (Expr.leaves ∘ litExpr tc)).sum = zs.length := by
  induction zs with
  | nil => rfl
  | cons a zs ih => simp only [List.map_cons, List.sum_cons, Function.comp_apply, leaves_litExpr, List.length_cons, ih]; omega

theorem leaves_clauseExpr (tc : Char → Bool) (s : Str) : (clauseExpr tc s).leaves = (split ',' s).length := by
  unfold clauseExpr
  cases h : split ',' s with
  | nil => exact absurd h (splitGo_ne_nil _ _ _)
  | cons z zs =>
    simp only [List.map_cons, leaves_andAll, leaves_litExpr, List.length_cons, List.map_map]
    have := sum_leaves_lit tc zs
    omega

theorem leaves_lineExpr {tc : Char → Bool} (hs : SepFree tc) (c : Constraint)
    (hv : optsValid tc c = true) (hne : ∀ o ∈ c, o ≠ []) :
    (lineExpr tc c).leaves = max 1 (termCount c) := by
  have hall : ∀ o ∈ c, termsValid tc o = true := by simpa [optsValid] using hv
  have hsum : ∀ (os : List Opt), (∀ o ∈ os, termsValid tc o = true) → (∀ o ∈ os, o ≠ []) →
      ((os.map (fun o => clauseExpr tc (optText o))).map Expr.leaves).sum = termCount os := by
    intro os
    induction os with
    | nil => intros; rfl
    | cons o os ih =>
      intro h1 h2
      simp only [List.map_cons, List.sum_cons, termCount, leaves_clauseExpr,
        split_optText hs o (h1 o List.mem_cons_self) (h2 o List.mem_cons_self)]
      have := ih (fun o' ho' => h1 o' (List.mem_cons_of_mem _ ho')) (fun o' ho' => h2 o' (List.mem_cons_of_mem _ ho'))
      simp only [termCount] at this
      omega
  unfold lineExpr
  cases c with
  | nil => simp [Expr.leaves, termCount]
  | cons o os =>
    have h := hsum (o :: os) hall hne
    have hpos : 0 < o.length := List.length_pos_iff.mpr (hne o List.mem_cons_self)
    simp only [List.map_cons, List.sum_cons, leaves_orAll] at h ⊢
    rw [h]
    simp only [termCount, List.map_cons, List.sum_cons]
    omega

theorem leaves_header {tc : Char → Bool} (hs : SepFree tc) (c : Constraint) (cs : Constraints)
    (hv : setValid tc (c :: cs) = true) (hne : ∀ c' ∈ c :: cs, ∀ o ∈ c', o ≠ []) :
    (andAll (lineExpr tc c) (cs.map (lineExpr tc))).leaves = sizeBound (c :: cs) := by
  have hall : ∀ c' ∈ c :: cs, optsValid tc c' = true := by simpa [setValid] using hv
  rw [leaves_andAll]
  have : ∀ (l : Constraints), (∀ c' ∈ l, optsValid tc c' = true) → (∀ c' ∈ l, ∀ o ∈ c', o ≠ []) →
      ((l.map (lineExpr tc)).map Expr.leaves).sum = sizeBound l := by
    intro l
    induction l with
    | nil => intros; rfl
    | cons a l ih =>
      intro h1 h2
      simp only [List.map_cons, List.sum_cons, sizeBound,
        leaves_lineExpr hs a (h1 a List.mem_cons_self) (h2 a List.mem_cons_self)]
      have := ih (fun o' ho' => h1 o' (List.mem_cons_of_mem _ ho')) (fun o' ho' => h2 o' (List.mem_cons_of_mem _ ho'))
      simp only [sizeBound] at this
      omega
  have h := this (c :: cs) hall hne
  simpa using h

theorem eval_header {tc : Char → Bool} (hs : SepFree tc) (v : Str → Bool) (c : Constraint) (cs : Constraints)
    (hv : setValid tc (c :: cs) = true) (hne : ∀ c' ∈ c :: cs, ∀ o ∈ c', o ≠ [])
    (hig : (∀ c' ∈ c :: cs, c' ≠ []) ∨ v ignoreTag = false) :
    (andAll (lineExpr tc c) (cs.map (lineExpr tc))).eval v = evaluate tc v (c :: cs) := by
  have hall : ∀ c' ∈ c :: cs, optsValid tc c' = true := by simpa [setValid] using hv
  have hl : ∀ c' ∈ c :: cs, (lineExpr tc c').eval v = evalConstraint tc v c' := by
    intro c' hc'
    apply eval_lineExpr hs v c' (hall c' hc') (hne c' hc')
    rcases hig with h | h
    · exact Or.inl (h c' hc')
    · exact Or.inr h
  rw [eval_andAll, evaluate, List.all_cons, List.all_map, hl c List.mem_cons_self]
  congr 1
  apply all_congr'
  intro x hx
  exact hl x (List.mem_cons_of_mem _ hx)

end Avo.Tags
