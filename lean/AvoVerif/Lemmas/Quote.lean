/-
Round trip of the `%q` / Unquote model: `unquote (quote pr s) = some s` for all
byte strings `s` and every printability table `pr`.
-/
import AvoVerif.Model.Quote
namespace Avo.Quote

theorem unhexB_hexB : ∀ d, d < 16 → unhexB (hexB d) = some d := by decide

/-- What a successful decode says about the head of the input. -/
inductive DecodeSpec (s : List Nat) (r w : Nat) : Prop
  | one (b0 : Nat) (rest : List Nat) (hs : s = b0 :: rest) (h0 : b0 < 0x80) (hr : r = b0) (hw : w = 1)
  | two (b0 b1 : Nat) (rest : List Nat) (hs : s = b0 :: b1 :: rest)
      (h0 : 0xC2 ≤ b0 ∧ b0 ≤ 0xDF) (h1 : 0x80 ≤ b1 ∧ b1 ≤ 0xBF)
      (hr : r = (b0 - 0xC0) * 64 + (b1 - 0x80)) (hw : w = 2)
  | three (b0 b1 b2 : Nat) (rest : List Nat) (hs : s = b0 :: b1 :: b2 :: rest)
      (h0 : 0xE0 ≤ b0 ∧ b0 ≤ 0xEF) (h1 : 0x80 ≤ b1 ∧ b1 ≤ 0xBF)
      (hlo : b0 = 0xE0 → 0xA0 ≤ b1) (hhi : b0 = 0xED → b1 ≤ 0x9F) (h2 : 0x80 ≤ b2 ∧ b2 ≤ 0xBF)
      (hr : r = (b0 - 0xE0) * 4096 + (b1 - 0x80) * 64 + (b2 - 0x80)) (hw : w = 3)
  | four (b0 b1 b2 b3 : Nat) (rest : List Nat) (hs : s = b0 :: b1 :: b2 :: b3 :: rest)
      (h0 : 0xF0 ≤ b0 ∧ b0 ≤ 0xF4) (h1 : 0x80 ≤ b1 ∧ b1 ≤ 0xBF)
      (hlo : b0 = 0xF0 → 0x90 ≤ b1) (hhi : b0 = 0xF4 → b1 ≤ 0x8F)
      (h2 : 0x80 ≤ b2 ∧ b2 ≤ 0xBF) (h3 : 0x80 ≤ b3 ∧ b3 ≤ 0xBF)
      (hr : r = (b0 - 0xF0) * 262144 + (b1 - 0x80) * 4096 + (b2 - 0x80) * 64 + (b3 - 0x80)) (hw : w = 4)

theorem decode_spec (s : List Nat) (r w : Nat) (h : decodeRune s = some (r, w)) : DecodeSpec s r w := by
  cases s with
  | nil => simp [decodeRune] at h
  | cons b0 rest =>
    unfold decodeRune at h
    by_cases c1 : b0 < 0x80
    · simp only [c1, if_true, Option.some.injEq, Prod.mk.injEq] at h
      exact .one b0 rest rfl c1 h.1.symm h.2.symm
    · simp only [c1, if_false] at h
      by_cases c2 : 0xC2 ≤ b0 ∧ b0 ≤ 0xDF
      · simp only [c2, and_self, if_true] at h
        cases rest with
        | nil => simp at h
        | cons b1 rest =>
          simp only [isCont] at h
          by_cases c : 0x80 ≤ b1 ∧ b1 ≤ 0xBF
          · simp only [c, and_self, decide_true, if_true, Option.some.injEq, Prod.mk.injEq] at h
            exact .two b0 b1 rest rfl c2 c h.1.symm h.2.symm
          · simp [c] at h
      · simp only [c2, if_false] at h
        by_cases c3 : 0xE0 ≤ b0 ∧ b0 ≤ 0xEF
        · simp only [c3, and_self, if_true] at h
          match rest, h with
          | [], h => simp at h
          | [_], h => simp at h
          | b1 :: b2 :: rest, h =>
            simp only [isCont] at h
            by_cases c : (if b0 = 0xE0 then 0xA0 else 0x80) ≤ b1 ∧ b1 ≤ (if b0 = 0xED then 0x9F else 0xBF) ∧
                decide (0x80 ≤ b2 ∧ b2 ≤ 0xBF) = true
            · simp only [c, and_self, if_true, Option.some.injEq, Prod.mk.injEq] at h
              obtain ⟨ca, cb, cc⟩ := c
              have cc' : 0x80 ≤ b2 ∧ b2 ≤ 0xBF := by simpa using cc
              refine .three b0 b1 b2 rest rfl c3 ⟨?_, ?_⟩ ?_ ?_ cc' h.1.symm h.2.symm
              · split at ca <;> omega
              · split at cb <;> omega
              · intro e; simp [e] at ca; exact ca
              · intro e; simp [e] at cb; exact cb
            · simp only [c, if_false] at h; cases h
        · simp only [c3, if_false] at h
          by_cases c4 : 0xF0 ≤ b0 ∧ b0 ≤ 0xF4
          · simp only [c4, and_self, if_true] at h
            match rest, h with
            | [], h => simp at h
            | [_], h => simp at h
            | [_, _], h => simp at h
            | b1 :: b2 :: b3 :: rest, h =>
              simp only [isCont] at h
              by_cases c : (if b0 = 0xF0 then 0x90 else 0x80) ≤ b1 ∧ b1 ≤ (if b0 = 0xF4 then 0x8F else 0xBF) ∧
                  decide (0x80 ≤ b2 ∧ b2 ≤ 0xBF) = true ∧ decide (0x80 ≤ b3 ∧ b3 ≤ 0xBF) = true
              · simp only [c, and_self, if_true, Option.some.injEq, Prod.mk.injEq] at h
                obtain ⟨ca, cb, cc, cd⟩ := c
                have cc' : 0x80 ≤ b2 ∧ b2 ≤ 0xBF := by simpa using cc
                have cd' : 0x80 ≤ b3 ∧ b3 ≤ 0xBF := by simpa using cd
                refine .four b0 b1 b2 b3 rest rfl c4 ⟨?_, ?_⟩ ?_ ?_ cc' cd' h.1.symm h.2.symm
                · split at ca <;> omega
                · split at cb <;> omega
                · intro e; simp [e] at ca; exact ca
                · intro e; simp [e] at cb; exact cb
              · simp only [c, if_false] at h; cases h
          · simp [c4] at h

set_option maxRecDepth 4000 in
/-- The decoder looks at the encoded rune only: it gives the same answer with
any continuation. -/
theorem decode_prefix (s : List Nat) (r w : Nat) (h : decodeRune s = some (r, w)) (tail : List Nat) :
    decodeRune (s.take w ++ tail) = some (r, w) := by
  cases decode_spec s r w h with
  | one b0 rest hs h0 hr hw =>
    subst hs hw hr; simp [decodeRune, h0]
  | two b0 b1 rest hs h0 h1 hr hw =>
    subst hs hw hr
    have : ¬ b0 < 0x80 := by omega
    simp [decodeRune, isCont, this, h0, h1]
  | three b0 b1 b2 rest hs h0 h1 hlo hhi h2 hr hw =>
    subst hs hw hr
    have n1 : ¬ b0 < 0x80 := by omega
    have n2 : ¬ (0xC2 ≤ b0 ∧ b0 ≤ 0xDF) := by omega
    have ca : (if b0 = 0xE0 then 0xA0 else 0x80) ≤ b1 := by
      by_cases e : b0 = 0xE0
      · simp only [e, if_true]; exact hlo e
      · simp only [e, if_false]; exact h1.1
    have cb : b1 ≤ (if b0 = 0xED then 0x9F else 0xBF) := by
      by_cases e : b0 = 0xED
      · simp only [e, if_true]; exact hhi e
      · simp only [e, if_false]; exact h1.2
    simp [decodeRune, isCont, n1, n2, h0, h2, ca, cb]
  | four b0 b1 b2 b3 rest hs h0 h1 hlo hhi h2 h3 hr hw =>
    subst hs hw hr
    have n1 : ¬ b0 < 0x80 := by omega
    have n2 : ¬ (0xC2 ≤ b0 ∧ b0 ≤ 0xDF) := by omega
    have n3 : ¬ (0xE0 ≤ b0 ∧ b0 ≤ 0xEF) := by omega
    have ca : (if b0 = 0xF0 then 0x90 else 0x80) ≤ b1 := by
      by_cases e : b0 = 0xF0
      · simp only [e, if_true]; exact hlo e
      · simp only [e, if_false]; exact h1.1
    have cb : b1 ≤ (if b0 = 0xF4 then 0x8F else 0xBF) := by
      by_cases e : b0 = 0xF4
      · simp only [e, if_true]; exact hhi e
      · simp only [e, if_false]; exact h1.2
    simp [decodeRune, isCont, n1, n2, n3, h0, h2, h3, ca, cb]

/-- Encoding the decoded rune gives back exactly the bytes consumed. -/
theorem encode_decode (s : List Nat) (r w : Nat) (h : decodeRune s = some (r, w)) :
    encodeRune r = s.take w ∧ validRune r = true ∧ 1 ≤ w ∧ w ≤ s.length ∧ r ≤ 0x10FFFF := by
  cases decode_spec s r w h with
  | one b0 rest hs h0 hr hw =>
    subst hs hw hr
    refine ⟨by simp [encodeRune, h0], by simp [validRune]; omega, by omega, by simp, by omega⟩
  | two b0 b1 rest hs h0 h1 hr hw =>
    subst hs hw
    have e1 : ¬ r < 0x80 := by omega
    have e2 : r < 0x800 := by omega
    refine ⟨?_, by simp [validRune]; omega, by omega, by simp, by omega⟩
    simp only [encodeRune, e1, e2, if_false, if_true, List.take_succ_cons, List.take_zero]
    congr 1
    · omega
    · congr 1; omega
  | three b0 b1 b2 rest hs h0 h1 hlo hhi h2 hr hw =>
    subst hs hw
    have e1 : ¬ r < 0x80 := by omega
    have e2 : ¬ r < 0x800 := by
      by_cases e : b0 = 0xE0
      · have := hlo e; omega
      · omega
    have e3 : r < 0x10000 := by omega
    have ev : validRune r = true := by
      simp only [validRune, decide_eq_true_eq]
      by_cases e : b0 = 0xED
      · have := hhi e; omega
      · omega
    refine ⟨?_, ev, by omega, by simp, by omega⟩
    simp only [encodeRune, e1, e2, e3, ev, if_false, if_true, Bool.not_true, Bool.false_eq_true,
      List.take_succ_cons, List.take_zero]
    congr 1
    · omega
    · congr 1
      · omega
      · congr 1; omega
  | four b0 b1 b2 b3 rest hs h0 h1 hlo hhi h2 h3 hr hw =>
    subst hs hw
    have e1 : ¬ r < 0x80 := by omega
    have e2 : ¬ r < 0x800 := by omega
    have e3 : ¬ r < 0x10000 := by
      by_cases e : b0 = 0xF0
      · have := hlo e; omega
      · omega
    have e4 : r ≤ 0x10FFFF := by
      by_cases e : b0 = 0xF4
      · have := hhi e; omega
      · omega
    have ev : validRune r = true := by
      simp only [validRune, decide_eq_true_eq]; omega
    refine ⟨?_, ev, by omega, by simp, e4⟩
    simp only [encodeRune, e1, e2, e3, ev, if_false, Bool.not_true, Bool.false_eq_true,
      List.take_succ_cons, List.take_zero]
    congr 1
    · omega
    · congr 1
      · omega
      · congr 1
        · omega
        · congr 1; omega

theorem unquoteStep_escX (b : Nat) (hb : b < 256) (tail : List Nat) :
    unquoteStep (escX b ++ tail) = some ([b], tail) := by
  have h1 := unhexB_hexB (b / 16) (by omega)
  have h2 := unhexB_hexB (b % 16) (by omega)
  simp only [escX, List.cons_append, List.nil_append, unquoteStep, h1, h2]
  simp
  omega

theorem unquoteStep_escU4 (r : Nat) (hr : r < 0x10000) (hv : validRune r = true) (tail : List Nat) :
    unquoteStep (escU4 r ++ tail) = some (encodeRune r, tail) := by
  have h1 := unhexB_hexB (r / 4096 % 16) (by omega)
  have h2 := unhexB_hexB (r / 256 % 16) (by omega)
  have h3 := unhexB_hexB (r / 16 % 16) (by omega)
  have h4 := unhexB_hexB (r % 16) (by omega)
  have hv' : validRune (((r / 4096 % 16 * 16 + r / 256 % 16) * 16 + r / 16 % 16) * 16 + r % 16) = true := by
    have : ((r / 4096 % 16 * 16 + r / 256 % 16) * 16 + r / 16 % 16) * 16 + r % 16 = r := by omega
    rw [this]; exact hv
  have hre : ((r / 4096 % 16 * 16 + r / 256 % 16) * 16 + r / 16 % 16) * 16 + r % 16 = r := by omega
  simp only [escU4, List.cons_append, List.nil_append, unquoteStep, h1, h2, h3, h4]
  simp [hre, hv]

theorem unquoteStep_escU8 (r : Nat) (hr : r ≤ 0x10FFFF) (hv : validRune r = true) (tail : List Nat) :
    unquoteStep (escU8 r ++ tail) = some (encodeRune r, tail) := by
  have h1 := unhexB_hexB (r / 268435456 % 16) (by omega)
  have h2 := unhexB_hexB (r / 16777216 % 16) (by omega)
  have h3 := unhexB_hexB (r / 1048576 % 16) (by omega)
  have h4 := unhexB_hexB (r / 65536 % 16) (by omega)
  have h5 := unhexB_hexB (r / 4096 % 16) (by omega)
  have h6 := unhexB_hexB (r / 256 % 16) (by omega)
  have h7 := unhexB_hexB (r / 16 % 16) (by omega)
  have h8 := unhexB_hexB (r % 16) (by omega)
  have hre : ((((((r / 268435456 % 16 * 16 + r / 16777216 % 16) * 16 + r / 1048576 % 16) * 16 +
      r / 65536 % 16) * 16 + r / 4096 % 16) * 16 + r / 256 % 16) * 16 + r / 16 % 16) * 16 + r % 16 = r := by omega
  simp only [escU8, List.cons_append, List.nil_append, unquoteStep, h1, h2, h3, h4, h5, h6, h7, h8]
  simp [hre, hv]

theorem unquoteStep_escASCII (b : Nat) (hb : b < 0x80) (tail : List Nat) :
    unquoteStep (escASCII b ++ tail) = some ([b], tail) := by
  unfold escASCII
  by_cases c1 : b = 0x22
  · subst c1; simp [unquoteStep]
  by_cases c2 : b = 0x5c
  · subst c2; simp [unquoteStep]
  by_cases c3 : 0x20 ≤ b ∧ b ≤ 0x7e
  · have n1 : ¬ b = 10 := by omega
    simp [c1, c2, c3, unquoteStep, n1, hb]
  by_cases c4 : b = 7
  · subst c4; simp [unquoteStep]
  by_cases c5 : b = 8
  · subst c5; simp [unquoteStep]
  by_cases c6 : b = 12
  · subst c6; simp [unquoteStep]
  by_cases c7 : b = 10
  · subst c7; simp [unquoteStep]
  by_cases c8 : b = 13
  · subst c8; simp [unquoteStep]
  by_cases c9 : b = 9
  · subst c9; simp [unquoteStep]
  by_cases c10 : b = 11
  · subst c10; simp [unquoteStep]
  simp only [c1, c2, c3, c4, c5, c6, c7, c8, c9, c10, if_false]
  exact unquoteStep_escX b (by omega) tail

theorem escASCII_ne_nil (b : Nat) : escASCII b ≠ [] := by
  unfold escASCII escX
  repeat' split
  all_goals simp

/-- **One step.** Reading back what one Quote step printed yields exactly the
bytes that step consumed, whatever follows. -/
theorem step_roundtrip (pr : Nat → Bool) (s : List Nat) (hne : s ≠ []) (hb : ∀ b ∈ s, b < 256)
    (tail : List Nat) :
    unquoteStep ((quoteStep pr s).1 ++ tail) = some (s.take (quoteStep pr s).2, tail) ∧
    1 ≤ (quoteStep pr s).2 ∧ (quoteStep pr s).2 ≤ s.length ∧ (quoteStep pr s).1 ≠ [] := by
  cases s with
  | nil => exact absurd rfl hne
  | cons b rest =>
    have hb0 : b < 256 := hb b List.mem_cons_self
    unfold quoteStep
    by_cases c1 : b < 0x80
    · simp only [c1, if_true]
      refine ⟨?_, by omega, by simp, escASCII_ne_nil b⟩
      rw [unquoteStep_escASCII b c1]; simp
    · simp only [c1, if_false]
      cases hd : decodeRune (b :: rest) with
      | none =>
        simp only
        refine ⟨?_, by omega, by simp, by simp [escX]⟩
        rw [unquoteStep_escX b hb0]; simp
      | some p =>
        obtain ⟨r, w⟩ := p
        obtain ⟨henc, hv, hw1, hw2, hmax⟩ := encode_decode _ r w hd
        simp only
        by_cases c2 : pr r = true
        · simp only [c2, if_true]
          refine ⟨?_, hw1, hw2, ?_⟩
          · have hpre := decode_prefix _ r w hd tail
            -- the raw copy starts with the same non-ASCII byte
            have hshape : ∃ rest', (b :: rest).take w = b :: rest' := by
              cases w with
              | zero => omega
              | succ w => exact ⟨rest.take w, by simp⟩
            obtain ⟨rest', hr'⟩ := hshape
            rw [hr'] at hpre ⊢
            have n1 : ¬ b = 0x5c := by omega
            have n2 : ¬ (b = 0x22 ∨ b = 0x0a) := by omega
            simp only [List.cons_append] at hpre ⊢
            unfold unquoteStep
            simp only [n1, n2, c1, if_false, hpre]
            rw [henc, hr']
            simp only [Option.some.injEq, Prod.mk.injEq, true_and]
            have hl : (b :: (rest' ++ tail)).drop w = tail := by
              have hlen : (b :: rest').length = w := by
                have hw2' := hw2
                simp only [List.length_cons] at hw2'
                rw [← hr']; simp only [List.length_take, List.length_cons]; omega
              have : b :: (rest' ++ tail) = (b :: rest') ++ tail := by simp
              rw [this, List.drop_append_of_le_length (by omega), List.drop_of_length_le (by omega)]
              simp
            exact hl
          · cases w with
            | zero => omega
            | succ w => simp
        · simp only [c2, Bool.false_eq_true, if_false]
          by_cases c3 : r < 0x10000
          · simp only [c3, if_true]
            refine ⟨?_, hw1, hw2, by simp [escU4]⟩
            rw [unquoteStep_escU4 r c3 hv, henc]
          · simp only [c3, if_false]
            refine ⟨?_, hw1, hw2, by simp [escU8]⟩
            rw [unquoteStep_escU8 r hmax hv, henc]

/-- Reading back the whole body, with any amount of spare fuel. -/
theorem unquoteFuel_quoteFuel (pr : Nat → Bool) :
    ∀ (n : Nat) (s : List Nat), s.length ≤ n → (∀ b ∈ s, b < 256) →
    ∀ k, (quoteFuel pr n s).length ≤ k → unquoteFuel k (quoteFuel pr n s) = some s := by
  intro n
  induction n with
  | zero =>
    intro s hs _ k _
    have : s = [] := List.eq_nil_of_length_eq_zero (by omega)
    subst this
    simp [quoteFuel, unquoteFuel]
  | succ n ih =>
    intro s hs hb k hk
    cases s with
    | nil => simp [quoteFuel, unquoteFuel]
    | cons b rest =>
      obtain ⟨hstep, hw1, hw2, hne⟩ := step_roundtrip pr (b :: rest) (by simp) hb
        (quoteFuel pr n ((b :: rest).drop (quoteStep pr (b :: rest)).2))
      simp only [quoteFuel] at hk ⊢
      generalize hst : quoteStep pr (b :: rest) = st at *
      have hdrop_len : ((b :: rest).drop st.2).length ≤ n := by
        simp only [List.length_drop, List.length_cons] at hs ⊢; omega
      have hdrop_b : ∀ x ∈ (b :: rest).drop st.2, x < 256 := fun x hx => hb x (List.mem_of_mem_drop hx)
      cases htext : st.1 ++ quoteFuel pr n ((b :: rest).drop st.2) with
      | nil =>
        have : st.1 = [] := (List.append_eq_nil_iff.mp htext).1
        exact absurd this hne
      | cons c cs =>
        rw [htext] at hk hstep
        cases k with
        | zero => simp at hk
        | succ k =>
          simp only [unquoteFuel, hstep]
          have hlen : (quoteFuel pr n ((b :: rest).drop st.2)).length ≤ k := by
            have h1 : (st.1 ++ quoteFuel pr n ((b :: rest).drop st.2)).length = (c :: cs).length := by rw [htext]
            have h2 : 1 ≤ st.1.length := by
              cases hh : st.1 with
              | nil => exact absurd hh hne
              | cons _ _ => simp
            simp only [List.length_append, List.length_cons] at h1 hk
            omega
          rw [ih _ hdrop_len hdrop_b k hlen]
          simp only [Option.some.injEq]
          exact List.take_append_drop st.2 (b :: rest)

/-- **Round trip.** For every byte string and every printability table,
Unquote of the `%q` text is the string. -/
theorem unquote_quote (pr : Nat → Bool) (s : List Nat) (hb : ∀ b ∈ s, b < 256) :
    unquote (quote pr s) = some s := by
  unfold unquote quote
  simp only [if_true, List.reverse_append, List.reverse_cons, List.reverse_nil, List.nil_append,
    List.cons_append, List.reverse_reverse]
  unfold unquoteBody quoteBody
  exact unquoteFuel_quoteFuel pr s.length s (Nat.le_refl _) hb _ (Nat.le_refl _)

/-! ### ASCII-only mode (`%+q`, i.e. no rune ≥ 0x80 is printed raw) -/

theorem hexB_lt : ∀ d, d < 16 → hexB d < 0x80 := by decide

theorem escASCII_ascii : ∀ b, b < 0x80 → ∀ x ∈ escASCII b, x < 0x80 := by decide

theorem escX_ascii (b : Nat) (hb : b < 256) : ∀ x ∈ escX b, x < 0x80 := by
  intro x hx
  have h1 := hexB_lt (b / 16) (by omega)
  have h2 := hexB_lt (b % 16) (by omega)
  simp only [escX, List.mem_cons, List.not_mem_nil, or_false] at hx
  rcases hx with h | h | h | h <;> subst h <;> omega

theorem escU4_ascii (r : Nat) : ∀ x ∈ escU4 r, x < 0x80 := by
  intro x hx
  have h1 := hexB_lt (r / 4096 % 16) (by omega)
  have h2 := hexB_lt (r / 256 % 16) (by omega)
  have h3 := hexB_lt (r / 16 % 16) (by omega)
  have h4 := hexB_lt (r % 16) (by omega)
  simp only [escU4, List.mem_cons, List.not_mem_nil, or_false] at hx
  rcases hx with h | h | h | h | h | h <;> subst h <;> omega

theorem escU8_ascii (r : Nat) : ∀ x ∈ escU8 r, x < 0x80 := by
  intro x hx
  have h1 := hexB_lt (r / 268435456 % 16) (by omega)
  have h2 := hexB_lt (r / 16777216 % 16) (by omega)
  have h3 := hexB_lt (r / 1048576 % 16) (by omega)
  have h4 := hexB_lt (r / 65536 % 16) (by omega)
  have h5 := hexB_lt (r / 4096 % 16) (by omega)
  have h6 := hexB_lt (r / 256 % 16) (by omega)
  have h7 := hexB_lt (r / 16 % 16) (by omega)
  have h8 := hexB_lt (r % 16) (by omega)
  simp only [escU8, List.mem_cons, List.not_mem_nil, or_false] at hx
  rcases hx with h | h | h | h | h | h | h | h | h | h <;> subst h <;> omega

theorem quoteStep_ascii (s : List Nat) (hb : ∀ b ∈ s, b < 256) :
    ∀ x ∈ (quoteStep (fun _ => false) s).1, x < 0x80 := by
  cases s with
  | nil => intro x hx; simp [quoteStep] at hx
  | cons b rest =>
    have hb0 : b < 256 := hb b List.mem_cons_self
    unfold quoteStep
    by_cases c1 : b < 0x80
    · simp only [c1, if_true]; exact escASCII_ascii b c1
    · simp only [c1, if_false]
      cases hd : decodeRune (b :: rest) with
      | none => exact escX_ascii b hb0
      | some p =>
        obtain ⟨r, w⟩ := p
        simp only [Bool.false_eq_true, if_false]
        by_cases c3 : r < 0x10000
        · simp only [c3, if_true]; exact escU4_ascii r
        · simp only [c3, if_false]; exact escU8_ascii r

theorem quoteFuel_ascii : ∀ (n : Nat) (s : List Nat), (∀ b ∈ s, b < 256) →
    ∀ x ∈ quoteFuel (fun _ => false) n s, x < 0x80 := by
  intro n
  induction n with
  | zero => intro s _ x hx; simp [quoteFuel] at hx
  | succ n ih =>
    intro s hb x hx
    cases s with
    | nil => simp [quoteFuel] at hx
    | cons b rest =>
      simp only [quoteFuel, List.mem_append] at hx
      rcases hx with h | h
      · exact quoteStep_ascii (b :: rest) hb x h
      · exact ih _ (fun y hy => hb y (List.mem_of_mem_drop hy)) x h

/-- In ASCII-only mode the whole literal is ASCII. -/
theorem quote_ascii (s : List Nat) (hb : ∀ b ∈ s, b < 256) :
    ∀ x ∈ quote (fun _ => false) s, x < 0x80 := by
  intro x hx
  unfold quote quoteBody at hx
  rcases List.mem_cons.mp hx with h | h
  · omega
  · rcases List.mem_append.mp h with h | h
    · exact quoteFuel_ascii _ s hb x h
    · have : x = 0x22 := by simpa using h
      omega

end Avo.Quote
