import AvoVerif.Props.C08FindingF18
#print axioms Avo.Mov.mov_ok_fails_at_f18
