import AvoVerif.Props.C03
import AvoVerif.Props.C03Pipeline
#print axioms Avo.Alloc.bindReg_ok
#print axioms Avo.Alloc.verifyBound_false_of_unbound
#print axioms Avo.Alloc.regs_idsDetermined
#print axioms Avo.Alloc.regs_restricted_uniform
#print axioms Avo.Alloc.candidates_unrestricted
#print axioms Avo.Alloc.sp_k0_never_candidates
#print axioms Avo.Alloc.sp_k0_rows_restricted
#print axioms Avo.Alloc.candidates_right_kind
#print axioms Avo.Alloc.candidates_nonempty
#print axioms Avo.Alloc.checkBindOne_sound
#print axioms Avo.Alloc.checkBind_sound
#print axioms Avo.Alloc.sameClass_of_shape
#print axioms Avo.Alloc.high_byte_views
#print axioms Avo.Alloc.lookup_returns_requested_view
#print axioms Avo.Alloc.compile_bound_ok
#print axioms Avo.Alloc.compile_targets_unrestricted
#print axioms Avo.Alloc.targets_in_table
#print axioms Avo.Alloc.compile_targets_in_candidates
#print axioms Avo.Alloc.compile_targets_not_sp_k0
#print axioms Avo.Alloc.checkBindOne_in_colour_set
#print axioms Avo.Alloc.spCopyFn_allocates
