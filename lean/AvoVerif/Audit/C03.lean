import AvoVerif.Props.C03
import AvoVerif.Props.C03Pipeline
#print axioms Avo.Alloc.bindReg_ok
#print axioms Avo.Alloc.verifyBound_false_of_unbound
#print axioms Avo.Alloc.regs_idsDetermined
#print axioms Avo.Alloc.regs_restricted_uniform
#print axioms Avo.Alloc.candidates_unrestricted
#print axioms Avo.Alloc.restricted_are_sp_k0
#print axioms Avo.Alloc.high_byte_views
#print axioms Avo.Alloc.lookup_returns_requested_view
#print axioms Avo.Alloc.bp_last
#print axioms Avo.Alloc.candidate_counts
#print axioms Avo.Alloc.compile_bound_ok
#print axioms Avo.Alloc.compile_targets_unrestricted
#print axioms Avo.Alloc.targets_in_table
