import AvoVerif.Props.C16
#print axioms Avo.Locals.acceptLocals_iff
#print axioms Avo.Locals.locals_ok
#print axioms Avo.Locals.forced_local_not_handed_out
#print axioms Avo.Locals.text_frame
#print axioms Avo.Locals.asm_text_frame
#print axioms Avo.Locals.text_frame_wraps
#print axioms Avo.Locals.acceptLocalsText_sound
#print axioms Avo.Locals.locals_in_text_frame
#print axioms Avo.Locals.stack_addr_text
#print axioms Avo.Locals.read_back
#print axioms Avo.NumText.parseNat_digits
#print axioms Avo.NumText.parseIntLit_intDec
