import AvoVerif.Props.C02
import AvoVerif.Props.C02Term
#print axioms Avo.Live.liveness_exact
#print axioms Avo.Live.liveout_exact
#print axioms Avo.Live.liveness_order_irrelevant
#print axioms Avo.Live.iter_result
#print axioms Avo.Live.sweep_quiet
#print axioms Avo.Live.visit_proj
#print axioms Avo.Live.visit_quiet
#print axioms Avo.MaskSet.mem_update
#print axioms Avo.MaskSet.mem_difference
#print axioms Avo.MaskSet.mem_ofRegs
#print axioms Avo.MaskSet.update_unchanged
#print axioms Avo.LiveBool.complete_of_fix
#print axioms Avo.LiveBool.visit_sound
#print axioms Avo.Live.liveness_terminates
#print axioms Avo.Live.liveness_exact_total
#print axioms Avo.Live.iter_count
