import AvoVerif.Props.C02
import AvoVerif.Props.C02Term
import AvoVerif.Props.C02UseDef
import AvoVerif.Props.C02Accept
#print axioms Avo.Live.liveness_exact
#print axioms Avo.Live.liveout_exact
#print axioms Avo.Live.liveness_order_irrelevant
#print axioms Avo.Live.iter_result
#print axioms Avo.Live.sweep_quiet
#print axioms Avo.Live.visit_proj
#print axioms Avo.Live.visit_quiet
#print axioms Avo.MaskSet.mem_update
#print axioms Avo.MaskSet.mem_difference
#print axioms Avo.MaskSet.mem_ofRegs
#print axioms Avo.MaskSet.update_unchanged
#print axioms Avo.LiveBool.complete_of_fix
#print axioms Avo.LiveBool.visit_sound
#print axioms Avo.Live.liveness_terminates
#print axioms Avo.Live.liveness_exact_total
#print axioms Avo.Live.iter_count
#print axioms Avo.Live.liveout_exact_total
#print axioms Avo.Live.liveness_fuel_irrelevant
#print axioms Avo.UseDef.acceptUseDef_sound
#print axioms Avo.UseDef.sameLanes_iff_mem
#print axioms Avo.UseDef.mem_specWrites
#print axioms Avo.UseDef.specReads_eq
#print axioms Avo.UseDef.specReads_iff_of_not_cancels
#print axioms Avo.UseDef.written_mem_address_read
#print axioms Avo.UseDef.mem_address_read
#print axioms Avo.UseDef.specReads_cancelling_pair
#print axioms Avo.UseDef.other_operands_still_read
#print axioms Avo.UseDef.cancelled_register_not_read
#print axioms Avo.UseDef.different_registers_both_read
#print axioms Avo.Live.acceptLive_sound
#print axioms Avo.Live.acceptLive_sound_checked
#print axioms Avo.Live.wf_of_wfb
