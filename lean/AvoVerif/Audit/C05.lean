import AvoVerif.Props.C05
import AvoVerif.Props.C05Tables
import AvoVerif.Props.C05Build
#print axioms Avo.AsmText.parseSigned_fmtPlusD
#print axioms Avo.AsmText.parseSigned_fmtD
#print axioms Avo.AsmText.parseHex_fmtHex
#print axioms Avo.AsmText.hexPad_digits_length
#print axioms Avo.AsmText.parseOp_reg
#print axioms Avo.AsmText.parseOp_label
#print axioms Avo.AsmText.parseOp_rel
#print axioms Avo.AsmText.parseOp_imm
#print axioms Avo.AsmText.parseOp_mem
#print axioms Avo.AsmText.parseOp_asm
#print axioms Avo.AsmText.splitOps_joinOps
#print axioms Avo.AsmText.asm_noComma
#print axioms Avo.AsmText.line_roundtrip
#print axioms Avo.AsmText.canon_value
#print axioms Avo.AsmText.canon_unsigned
#print axioms Avo.AsmText.canon_mem_address
#print axioms Avo.AsmText.readImm_asm
#print axioms Avo.AsmText.signExtend32_eq
#print axioms Avo.AsmText.asmImm_value_partial
#print axioms Avo.AsmText.immWanted_faithful
#print axioms Avo.AsmText.asmImm_differs_without_guard
#print axioms Avo.AsmText.asmImm_fails_at_F6
#print axioms Avo.AsmText.build_first_match
#print axioms Avo.AsmText.build_operands_kept
#print axioms Avo.AsmText.regNames_ok
#print axioms Avo.AsmText.parseOp_asm_regs
#print axioms Avo.AsmText.line_roundtrip_regs
#print axioms Avo.AsmText.const_verbs
#print axioms Avo.AsmText.reg_anchors
#print axioms Avo.AsmText.instr_build_eq
#print axioms Avo.AsmText.instr_build_first_match
