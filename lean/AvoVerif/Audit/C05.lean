import AvoVerif.Props.C05
import AvoVerif.Props.C05Tables
import AvoVerif.Props.C05Build
import AvoVerif.Props.C05Judge
import AvoVerif.Props.C05Line
#print axioms Avo.AsmText.parseSigned_fmtPlusD
#print axioms Avo.AsmText.parseSigned_fmtD
#print axioms Avo.AsmText.parseHex_fmtHex
#print axioms Avo.AsmText.hexPad_digits_length
#print axioms Avo.AsmText.parseOp_reg
#print axioms Avo.AsmText.parseOp_label
#print axioms Avo.AsmText.parseOp_rel
#print axioms Avo.AsmText.parseOp_imm
#print axioms Avo.AsmText.parseOp_mem
#print axioms Avo.AsmText.parseOp_asm
#print axioms Avo.AsmText.splitOps_joinOps
#print axioms Avo.AsmText.asm_noComma
#print axioms Avo.AsmText.line_roundtrip
#print axioms Avo.AsmText.canon_value
#print axioms Avo.AsmText.canon_unsigned
#print axioms Avo.AsmText.canon_mem_address
#print axioms Avo.AsmText.readImm_asm
#print axioms Avo.AsmText.signExtend32_eq
#print axioms Avo.AsmText.asmImm_value_partial
#print axioms Avo.AsmText.asmImm_spelling
#print axioms Avo.AsmText.asmImm_preserves
#print axioms Avo.AsmText.asmImm_truncates
#print axioms Avo.AsmText.immWanted_faithful
#print axioms Avo.AsmText.asmImm_differs_without_guard
#print axioms Avo.AsmText.asmImm_fails_at_F6
#print axioms Avo.AsmText.build_first_match
#print axioms Avo.AsmText.build_operands_kept
#print axioms Avo.AsmText.regNames_ok
#print axioms Avo.AsmText.parseOp_asm_regs
#print axioms Avo.AsmText.line_roundtrip_regs
#print axioms Avo.AsmText.const_asm_samples
#print axioms Avo.AsmText.const_asm_samples_cover
#print axioms Avo.AsmText.reg_anchors
#print axioms Avo.AsmText.instr_build_eq
#print axioms Avo.AsmText.instr_build_first_match
#print axioms Avo.AsmJudge.regMatch_sound
#print axioms Avo.AsmJudge.addrRegMatch_sound
#print axioms Avo.AsmJudge.baseDispErr_sound
#print axioms Avo.AsmJudge.memMatch_sound
#print axioms Avo.AsmJudge.immMatch_sound
#print axioms Avo.AsmJudge.immAgrees_value
#print axioms Avo.AsmJudge.opMatch_sound
#print axioms Avo.AsmJudge.matchSeq_sound
#print axioms Avo.AsmJudge.judgeO_sound
#print axioms Avo.AsmJudge.judge_ok_iff
#print axioms Avo.AsmJudge.judge_sound
#print axioms Avo.Drv.C05.readsBack_sound
#print axioms Avo.Drv.C05.lineOperandsErr_sound
#print axioms Avo.Drv.C05.lineErr_sound
#print axioms Avo.Drv.C05.judgeLine_ok_iff
#print axioms Avo.Drv.C05.judgeLine_sound
