import AvoVerif.Props.C12
#print axioms Avo.Print.stub_constraints_eq
#print axioms Avo.Print.constraints_position
#print axioms Avo.Print.parse_stubs
#print axioms Avo.Print.declared_once
#print axioms Avo.Print.stubs_match_asm
