import AvoVerif.Props.C12
#print axioms Avo.Print.stub_constraints_eq
#print axioms Avo.Print.constraints_position
#print axioms Avo.Print.parse_stubs
#print axioms Avo.Print.declared_once
#print axioms Avo.Print.stubs_match_asm
#print axioms Avo.Print.acceptStubs_sound
#print axioms Avo.Print.acceptCons_sound
#print axioms Avo.Print.stub_text_lines
#print axioms Avo.Print.acceptStubs_model
#print axioms Avo.Print.stub_text_reads_back
#print axioms Avo.Print.stub_names_are_text_symbols
#print axioms Avo.Print.newline_injects_declaration
#print axioms Avo.Print.wfStubsB_sound
