import AvoVerif.Props.C08
import AvoVerif.Props.C08Regs
#print axioms Avo.Mov.acceptSel_sound
#print axioms Avo.Mov.acceptStoreBytes_sound
#print axioms Avo.Mov.acceptLoadGP_sound
#print axioms Avo.Mov.acceptLoadLow_sound
#print axioms Avo.Mov.tab_complete
#print axioms Avo.Mov.tab_opcodes_modelled
#print axioms Avo.Mov.tab_type_determined
#print axioms Avo.Mov.tab_address_independent
#print axioms Avo.Mov.mov_table_resolved
#print axioms Avo.Mov.mov_opcodes_modelled
#print axioms Avo.Mov.ast_agrees_bool
#print axioms Avo.Mov.ast_agrees
#print axioms Avo.Mov.mov_ok_partial_bool
#print axioms Avo.Mov.mov_ok_partial
#print axioms Avo.Mov.mov_sel_ok
#print axioms Avo.Mov.mov_err
#print axioms Avo.Mov.mov_first
#print axioms Avo.Mov.gp_width_errors
#print axioms Avo.Mov.must_move_defined
#print axioms Avo.Mov.mov_class_level
#print axioms Avo.Mov.loadStore_class_invariant
#print axioms Avo.Mov.extend_sign_spec
#print axioms Avo.Mov.goConvert_spec
#print axioms Avo.Mov.regClasses_cover
#print axioms Avo.Mov.regClasses_cover_specs
