import AvoVerif.Props.C08
#print axioms Avo.Mov.mov_table_resolved
#print axioms Avo.Mov.mov_default
#print axioms Avo.Mov.mov_opcodes_modelled
#print axioms Avo.Mov.mov_ok_partial_bool
#print axioms Avo.Mov.mov_ok_partial
#print axioms Avo.Mov.mov_err
#print axioms Avo.Mov.mov_first
#print axioms Avo.Mov.gp_width_errors
#print axioms Avo.Mov.gp_loads_defined
#print axioms Avo.Mov.must_move_defined
#print axioms Avo.Mov.mov_class_level
#print axioms Avo.Mov.loadStore_class_invariant
