import AvoVerif.Props.C18
#print axioms Avo.Ctx.errs_monotone
#print axioms Avo.Ctx.step_errs_length
#print axioms Avo.Ctx.run_errs
#print axioms Avo.Ctx.errs_prefix
#print axioms Avo.Ctx.faults_length
#print axioms Avo.Ctx.bad_never_masked
#print axioms Avo.Ctx.valid_no_error
#print axioms Avo.Ctx.errs_count
#print axioms Avo.Ctx.component_chain
#print axioms Avo.Ctx.component_chain_reported
#print axioms Avo.Ctx.pass_error_stops
#print axioms Avo.Ctx.pass_all_ok
#print axioms Avo.Ctx.main_stops
#print axioms Avo.Ctx.c18Accept_sound
#print axioms Avo.Ctx.c18Accept_complete
#print axioms Avo.Ctx.C18
