import AvoVerif.Props.C19
import AvoVerif.Props.C19Tables
#print axioms Avo.Attr.attr_value
#print axioms Avo.Attr.text_clause_value
#print axioms Avo.Attr.attr_include
#print axioms Avo.Attr.include_pass
#print axioms Avo.Attr.names_agree
#print axioms Avo.Attr.attr_value_installed
#print axioms Avo.Attr.text_clause_installed
#print axioms Avo.Attr.consts_agree
#print axioms Avo.Attr.attrname_agree
