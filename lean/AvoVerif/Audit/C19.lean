import AvoVerif.Props.C19
import AvoVerif.Props.C19Tables
import AvoVerif.Props.C19File
import AvoVerif.Props.C19FileTables
#print axioms Avo.Attr.attr_value
#print axioms Avo.Attr.text_clause_value
#print axioms Avo.Attr.attr_include
#print axioms Avo.Attr.include_pass
#print axioms Avo.Attr.names_agree
#print axioms Avo.Attr.attr_value_installed
#print axioms Avo.Attr.text_clause_installed
#print axioms Avo.Attr.consts_agree
#print axioms Avo.Attr.attrname_agree
#print axioms Avo.Attr.include_pass_shape
#print axioms Avo.Attr.include_pass_keeps
#print axioms Avo.Attr.include_pass_adds_only
#print axioms Avo.Attr.include_pass_idem
#print axioms Avo.Attr.include_pass_exact_spelling
#print axioms Avo.Attr.include_pass_needed_only
#print axioms Avo.Attr.hdrValue_macroEnv
#print axioms Avo.Attr.acceptFile_sound
#print axioms Avo.Attr.file_value
#print axioms Avo.Attr.printed_file_ok
#print axioms Avo.Attr.header_necessary
#print axioms Avo.Attr.stdEnv_world
#print axioms Avo.Attr.printed_file_ok_installed
#print axioms Avo.Attr.printed_file_accepted_installed
#print axioms Avo.Attr.header_necessary_installed
