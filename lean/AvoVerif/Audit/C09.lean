import AvoVerif.Props.C09
#print axioms Avo.Func.ltLoop_ok_iff
#print axioms Avo.Func.labelTarget_ok_iff
#print axioms Avo.Func.labelTarget_spec
#print axioms Avo.Func.labelTarget_err
#print axioms Avo.Func.succLoop_spec
#print axioms Avo.Func.pred_iff
#print axioms Avo.Func.buildCFG_ok
#print axioms Avo.Func.buildCFG_err_iff
