import AvoVerif.Props.C09
import AvoVerif.Props.C09Tables
import AvoVerif.Props.C09Accept
#print axioms Avo.Func.ltLoop_ok_iff
#print axioms Avo.Func.labelTarget_ok_iff
#print axioms Avo.Func.labelTarget_spec
#print axioms Avo.Func.labelTarget_err
#print axioms Avo.Func.succLoop_spec
#print axioms Avo.Func.pred_iff
#print axioms Avo.Func.buildCFG_ok
#print axioms Avo.Func.buildCFG_err_iff
#print axioms Avo.Func.features_are_x86_classes
#print axioms Avo.Func.rel_operand_opcodes
#print axioms Avo.Func.buildCFG_succ_in_range
#print axioms Avo.Func.buildCFG_pred_iff
#print axioms Avo.Func.buildCFG_succ_iff
#print axioms Avo.Func.buildCFG_meets
#print axioms Avo.Func.acceptCFG_sound
#print axioms Avo.Func.acceptCFG_complete
