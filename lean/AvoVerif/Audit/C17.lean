import AvoVerif.Props.C17
import AvoVerif.Props.C17Tables
import AvoVerif.Props.C02
#print axioms Avo.Determinism.get_perm
#print axioms Avo.Determinism.update_perm
#print axioms Avo.Determinism.update_flag_perm
#print axioms Avo.Determinism.difference_perm
#print axioms Avo.Determinism.ofKind_perm
#print axioms Avo.Determinism.sortRegs_perm
#print axioms Avo.Determinism.mostRestricted_perm
#print axioms Avo.Determinism.mapRanges_expected
#print axioms Avo.Live.liveness_order_irrelevant
#print axioms Avo.Determinism.allocLoop_perm
#print axioms Avo.Alloc.foldl_perm
#print axioms Avo.Determinism.allocate_kinds_perm
#print axioms Avo.Determinism.requiredISA_perm
