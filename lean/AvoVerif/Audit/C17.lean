import AvoVerif.Props.C17
import AvoVerif.Props.C17Tables
import AvoVerif.Props.C17Pipeline
import AvoVerif.Props.C17History
import AvoVerif.Props.C02
#print axioms Avo.Determinism.get_perm
#print axioms Avo.Determinism.update_perm
#print axioms Avo.Determinism.update_flag_perm
#print axioms Avo.Determinism.difference_perm
#print axioms Avo.Determinism.ofKind_perm
#print axioms Avo.Determinism.sortRegs_perm
#print axioms Avo.Determinism.mostRestricted_perm
#print axioms Avo.Determinism.mapIterTypes_known
#print axioms Avo.Determinism.mapIterTypes_nonempty
#print axioms Avo.Determinism.mapIterShapes_known
#print axioms Avo.Determinism.only_pass_and_reg_enumerate_maps
#print axioms Avo.Live.liveness_order_irrelevant
#print axioms Avo.Determinism.allocLoop_perm
#print axioms Avo.Alloc.foldl_perm
#print axioms Avo.Determinism.allocate_kinds_perm
#print axioms Avo.Determinism.requiredISA_perm
#print axioms Avo.Determinism.generation_deterministic
#print axioms Avo.Determinism.pipelineE_eq
#print axioms Avo.Determinism.livenessE_same
#print axioms Avo.Determinism.edgesOfE_perm
#print axioms Avo.Determinism.allocKindE_eq
#print axioms Avo.Determinism.allocateE_eqv
#print axioms Avo.Determinism.equals_perm
#print axioms Avo.Determinism.update_flag_same
#print axioms Avo.Determinism.acceptDet_sound
#print axioms Avo.Determinism.acceptDet_complete
#print axioms Avo.Determinism.globals_expected
#print axioms Avo.Determinism.globals_census_nonvacuous
#print axioms Avo.Determinism.no_variation_sources
#print axioms Avo.Determinism.new_allocator_history_independent
#print axioms Avo.Determinism.new_allocator_as_in_empty_process
#print axioms Avo.Determinism.run_proj
#print axioms Avo.Determinism.run_answers
#print axioms Avo.Determinism.compileObj_eq_allocKind
#print axioms Avo.Determinism.compile_after_any_history
#print axioms Avo.Determinism.orderJudge_sound
#print axioms Avo.Determinism.orderJudge_complete
