import AvoVerif.Props.C13
import AvoVerif.Props.C13Accept
import AvoVerif.Props.C13Tables
#print axioms Avo.Data.overlap_rejected
#print axioms Avo.Data.data_disjoint
#print axioms Avo.Data.data_image
#print axioms Avo.Data.int_text_roundtrip
#print axioms Avo.Data.string_text_roundtrip_partial
#print axioms Avo.Data.string_text_roundtrip
#print axioms Avo.Data.string_text_fails_at_middle_dot
#print axioms Avo.Data.data_lines
#print axioms Avo.Data.data_end_to_end
#print axioms Avo.Data.data_end_to_end_real
#print axioms Avo.Data.nonmonotone_rejected_witness
#print axioms Avo.Data.negative_offset_witness
#print axioms Avo.Data.dotless_float_text_is_integer
#print axioms Avo.Data.f32_text_fails_at_F11
#print axioms Avo.Data.f32_exact_text_ok_at_F11
#print axioms Avo.Data.shareB_iff
#print axioms Avo.Data.layoutB_sound
#print axioms Avo.Data.acceptData_sound
#print axioms Avo.Data.acceptData_image
#print axioms Avo.Data.replay_agrees
#print axioms Avo.Data.matchAll_perm
#print axioms Avo.Data.acceptData_agrees_with_model
#print axioms Avo.Data.replay_model
#print axioms Avo.Data.acceptData_complete
#print axioms Avo.Data.acceptData_rejects_negative
#print axioms Avo.Data.acceptLines_sound
#print axioms Avo.Data.acceptBytes_sound
#print axioms Avo.Data.measured_symbol_holds_constants
#print axioms Avo.Quote.unquote_quote
#print axioms Avo.NumText.parseIntLit_intDecPlus
#print axioms Avo.NumText.parseIntLit_hexPad
#print axioms Avo.Data.const_types_agree
#print axioms Avo.Data.int_vectors_agree
#print axioms Avo.Data.str_vectors_agree
#print axioms Avo.Data.float_vectors_agree
