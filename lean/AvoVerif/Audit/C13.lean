import AvoVerif.Props.C13
import AvoVerif.Props.C13Tables
#print axioms Avo.Data.overlap_rejected
#print axioms Avo.Data.data_disjoint
#print axioms Avo.Data.data_image
#print axioms Avo.Data.int_text_roundtrip
#print axioms Avo.Data.string_text_roundtrip_partial
#print axioms Avo.Data.string_text_roundtrip
#print axioms Avo.Data.string_text_fails_at_middle_dot
#print axioms Avo.Data.data_lines
#print axioms Avo.Data.data_end_to_end
#print axioms Avo.Data.nonmonotone_rejected_witness
#print axioms Avo.Data.f32_text_fails_at_F11
#print axioms Avo.Data.f32_exact_text_ok_at_F11
#print axioms Avo.Quote.unquote_quote
#print axioms Avo.NumText.parseIntLit_intDecPlus
#print axioms Avo.NumText.parseIntLit_hexPad
#print axioms Avo.Data.const_table_agrees
#print axioms Avo.Data.float_format_agrees
