import AvoVerif.Props.C10
import AvoVerif.Props.C10Tables
import AvoVerif.Props.C10Sim
import AvoVerif.Props.C10SelfMove
#print axioms Avo.Cleanup.prune_selfmov_ok
#print axioms Avo.Cleanup.selfMove_kind
#print axioms Avo.Cleanup.movl_self_has_effect
#print axioms Avo.Cleanup.movq_xmm_self_has_effect
#print axioms Avo.Cleanup.movl_self_not_pruned
#print axioms Avo.Cleanup.movq_xmm_self_not_pruned
#print axioms Avo.Cleanup.prune_labels_instrs
#print axioms Avo.Cleanup.prune_labels_keeps_referenced
#print axioms Avo.Cleanup.prune_labels_target
#print axioms Avo.Cleanup.pruned_jump_goes_to_next
#print axioms Avo.Cleanup.pruneJumps_sublist
#print axioms Avo.Cleanup.compile_order
#print axioms Avo.Cleanup.selfmove_opcodes
#print axioms Avo.Cleanup.pruneJumps_step
#print axioms Avo.Cleanup.pruneJumps_run
#print axioms Avo.Cleanup.pruneLabels_step
#print axioms Avo.Cleanup.after_prune
#print axioms Avo.Cleanup.pruneSelfMoves_step
#print axioms Avo.Cleanup.pruneSelfMoves_run
#print axioms Avo.Cleanup.pruneSelfMoves_steps_bound
#print axioms Avo.Cleanup.pruneSelfMoves_halts
#print axioms Avo.Cleanup.pruneSelfMoves_run_entry
#print axioms Avo.Cleanup.keepHead_step
#print axioms Avo.Cleanup.pruneSelfMoves_step_none
#print axioms Avo.Cleanup.pruneSelfMoves_step_none_conv
#print axioms Avo.Cleanup.after_pruneSelfMoves
#print axioms Avo.Cleanup.after_keepHead
#print axioms Avo.Cleanup.hself_of_execMov
