import AvoVerif.Props.C10
import AvoVerif.Props.C10Tables
import AvoVerif.Props.C10Sim
#print axioms Avo.Cleanup.prune_selfmov_ok
#print axioms Avo.Cleanup.selfMove_kind
#print axioms Avo.Cleanup.movl_self_has_effect
#print axioms Avo.Cleanup.movq_xmm_self_has_effect
#print axioms Avo.Cleanup.movl_self_not_pruned
#print axioms Avo.Cleanup.movq_xmm_self_not_pruned
#print axioms Avo.Cleanup.prune_labels_instrs
#print axioms Avo.Cleanup.prune_labels_keeps_referenced
#print axioms Avo.Cleanup.prune_labels_target
#print axioms Avo.Cleanup.pruned_jump_goes_to_next
#print axioms Avo.Cleanup.pruneJumps_sublist
#print axioms Avo.Cleanup.compile_order
#print axioms Avo.Cleanup.selfmove_opcodes
#print axioms Avo.Cleanup.pruneJumps_step
#print axioms Avo.Cleanup.pruneJumps_run
#print axioms Avo.Cleanup.pruneLabels_step
#print axioms Avo.Cleanup.after_prune
