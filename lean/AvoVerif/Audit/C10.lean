import AvoVerif.Props.C10
import AvoVerif.Props.C10Tables
import AvoVerif.Props.C10Sim
import AvoVerif.Props.C10SelfMove
import AvoVerif.Props.C10Accept
import AvoVerif.Props.C10Compose
import AvoVerif.Props.C10Pruned
import AvoVerif.Props.C10General
import AvoVerif.Props.C10Moves
#print axioms Avo.Cleanup.prune_selfmov_ok
#print axioms Avo.Cleanup.selfMove_kind
#print axioms Avo.Cleanup.movl_self_has_effect
#print axioms Avo.Cleanup.movq_xmm_self_has_effect
#print axioms Avo.Cleanup.movl_self_not_pruned
#print axioms Avo.Cleanup.movq_xmm_self_not_pruned
#print axioms Avo.Cleanup.prune_labels_instrs
#print axioms Avo.Cleanup.prune_labels_keeps_referenced
#print axioms Avo.Cleanup.prune_labels_target
#print axioms Avo.Cleanup.pruned_jump_goes_to_next
#print axioms Avo.Cleanup.pruneJumps_sublist
#print axioms Avo.Cleanup.compile_order
#print axioms Avo.Cleanup.selfmove_opcodes
#print axioms Avo.Cleanup.pruneJumps_step
#print axioms Avo.Cleanup.pruneJumps_run
#print axioms Avo.Cleanup.pruneLabels_step
#print axioms Avo.Cleanup.after_prune
#print axioms Avo.Cleanup.pruneSelfMoves_step
#print axioms Avo.Cleanup.pruneSelfMoves_run
#print axioms Avo.Cleanup.pruneSelfMoves_steps_bound
#print axioms Avo.Cleanup.pruneSelfMoves_halts
#print axioms Avo.Cleanup.pruneSelfMoves_run_entry
#print axioms Avo.Cleanup.keepHead_step
#print axioms Avo.Cleanup.pruneSelfMoves_step_none
#print axioms Avo.Cleanup.pruneSelfMoves_step_none_conv
#print axioms Avo.Cleanup.after_pruneSelfMoves
#print axioms Avo.Cleanup.after_keepHead
#print axioms Avo.Cleanup.hself_of_execMov
#print axioms Avo.Cleanup.walk_sound
#print axioms Avo.Cleanup.isNoopMove_spec
#print axioms Avo.Cleanup.checkDeleted_none
#print axioms Avo.Cleanup.Pruned.sublist
#print axioms Avo.Cleanup.Pruned.instrs_kept
#print axioms Avo.Cleanup.selfMove_not_cf
#print axioms Avo.Cleanup.pruneLabels_step_instr
#print axioms Avo.Cleanup.pruneLabels_run
#print axioms Avo.Cleanup.pruneLabels_step_none
#print axioms Avo.Cleanup.pruneJumps_halts
#print axioms Avo.Cleanup.pruneLabels_halts
#print axioms Avo.Cleanup.pruneSelfMoves_haltsWith
#print axioms Avo.Cleanup.HaltsWith_congr
#print axioms Avo.Cleanup.cleanup_halts_partial
#print axioms Avo.Cleanup.pruneJumps_pruned
#print axioms Avo.Cleanup.pruneLabels_pruned
#print axioms Avo.Cleanup.pruneSelfMoves_pruned
#print axioms Avo.Cleanup.pruneLabels_not_pruned_call
#print axioms Avo.Cleanup.after_pruned
#print axioms Avo.Cleanup.lead_pruned
#print axioms Avo.Cleanup.pruned_step
#print axioms Avo.Cleanup.pruned_run
#print axioms Avo.Cleanup.pruned_halt
#print axioms Avo.Cleanup.pruned_halts_partial
#print axioms Avo.Cleanup.accepted_halts_partial
#print axioms Avo.Cleanup.execMov_noopKind
#print axioms Avo.Cleanup.execMovMasked_noop
#print axioms Avo.Cleanup.selfMove_noop_iff
#print axioms Avo.Cleanup.maskedSelfMove_noop_iff
#print axioms Avo.Cleanup.noEffectMove_iff
#print axioms Avo.Cleanup.vex256_self_has_effect
#print axioms Avo.Cleanup.vex128_self_has_effect
#print axioms Avo.Cleanup.vex_self_judgement
#print axioms Avo.Cleanup.vex512_self_noop
#print axioms Avo.Cleanup.sse_self_noop
#print axioms Avo.Cleanup.vmovq_self_has_effect
#print axioms Avo.Cleanup.kmov_self_judgement
#print axioms Avo.Cleanup.masked_self_judgement
#print axioms Avo.Cleanup.pruned_moves_are_noops
#print axioms Avo.Cleanup.pruned_moves_no_effect
#print axioms Avo.Cleanup.selfmove_sweep_ran
#print axioms Avo.Cleanup.movesem_matches_cpu
#print axioms Avo.Cleanup.movesem_cpu_rows
