import AvoVerif.Props.C01
#print axioms Avo.Machine.rename_preserves
#print axioms Avo.Machine.step_rel
#print axioms Avo.AllocCheck.checkPostFix_sound
#print axioms Avo.AllocCheck.checkValid_sound
#print axioms Avo.AllocCheck.accepted_preserves
#print axioms Avo.AllocCheck.entry_rel
#print axioms Avo.AllocCheck.mem_flatMap_locs
