import AvoVerif.Props.C01
import AvoVerif.Props.C01Tables
import AvoVerif.Props.C01Pipeline
#print axioms Avo.Machine.rename_preserves
#print axioms Avo.Machine.step_rel
#print axioms Avo.AllocCheck.checkPostFix_sound
#print axioms Avo.AllocCheck.checkValid_sound
#print axioms Avo.AllocCheck.accepted_preserves
#print axioms Avo.AllocCheck.entry_rel
#print axioms Avo.AllocCheck.mem_flatMap_locs
#print axioms Avo.Alloc.updateEdges_spec
#print axioms Avo.Alloc.allocLoop_valid
#print axioms Avo.Alloc.allocKind_valid
#print axioms Avo.Alloc.allocate_valid
#print axioms Avo.Alloc.edges_imply_valid
#print axioms Avo.Alloc.avo_alloc_valid
#print axioms Avo.Alloc.candidates_physical
#print axioms Avo.Alloc.avo_alloc_valid_installed
#print axioms Avo.Pipeline.liveness_postfix
#print axioms Avo.Pipeline.pipeline_preserves
#print axioms Avo.Pipeline.mkLProg_wf
#print axioms Avo.AllocCheck.accepted_preserves_from_entry
#print axioms Avo.AllocCheck.checkRegsAt_sound
#print axioms Avo.Alloc.allocLoop_fuel_irrelevant
#print axioms Avo.Alloc.allocLoop_fuel_sufficient
#print axioms Avo.Pipeline.locsOf_bound
#print axioms Avo.Pipeline.locsOf_bindReg
#print axioms Avo.Pipeline.bound_prog_is_renamed
#print axioms Avo.Pipeline.compiled_preserves
#print axioms Avo.Pipeline.compiled_preserves_from_entry
#print axioms Avo.Alloc.checkBind_sound
