import AvoVerif.Props.C11
import AvoVerif.Props.C11Text
import AvoVerif.Props.C11Tables
import AvoVerif.Props.C11Examples
import AvoVerif.Props.C11Accept
import AvoVerif.Props.C11Bind
import AvoVerif.Props.C11Hist
import AvoVerif.Props.C11Cover
#print axioms Avo.Print.flush_complete
#print axioms Avo.Print.flush_complete_function
#print axioms Avo.Print.labels_bound
#print axioms Avo.Print.labels_bound_function
#print axioms Avo.Print.one_text_per_fn
#print axioms Avo.Print.parse_print
#print axioms Avo.Print.splitNL_render
#print axioms Avo.Print.lex_render_line
#print axioms Avo.Print.width_independent
#print axioms Avo.Print.lineOK_printFile
#print axioms Avo.Print.print_faithful
#print axioms Avo.Print.gen_names_plain
#print axioms Avo.Print.parseTextRest_textRest
#print axioms Avo.Print.print_faithful_gen
#print axioms Avo.Print.C11_partial
#print axioms Avo.Print.exFile_wf
#print axioms Avo.Drv.C11.acceptPrintE_sound
#print axioms Avo.Drv.C11.acceptPrint_sound
#print axioms Avo.Drv.C11.branchOK_sound
#print axioms Avo.Drv.C11.acceptAsmFn_sound
#print axioms Avo.Drv.C11.acceptAsmE_sound
#print axioms Avo.Drv.C11.acceptAsm_sound
#print axioms Avo.Print.ows_inj
#print axioms Avo.Drv.C11.exFile_wf_gen
#print axioms Avo.Drv.C11.exDataFile_accepted
#print axioms Avo.Drv.C11.exAsmFn_accepted
#print axioms Avo.Print.labelsFrom_is_labelTarget
#print axioms Avo.Print.Hist.hist_print_current
#print axioms Avo.Print.Hist.hist_print_faithful
#print axioms Avo.Print.Hist.hist_C11_partial
#print axioms Avo.Print.Hist.run_length
#print axioms Avo.Print.Hist.run_eq_printStates
#print axioms Avo.Print.Hist.heapAfter_frame
#print axioms Avo.Print.Hist.inspections_irrelevant
#print axioms Avo.Print.Hist.print_twice_same
#print axioms Avo.Print.Hist.text_of_content_only
#print axioms Avo.Print.Hist.reprint_after_edit
#print axioms Avo.Print.Hist.fresh_file_printed
#print axioms Avo.Print.Hist.edit_instr_printed
#print axioms Avo.Print.Hist.edit_suffixes_printed
#print axioms Avo.Print.Hist.edit_instr_count
#print axioms Avo.Print.Hist.acceptHist_sound
#print axioms Avo.Drv.C11.acceptGl_sound
#print axioms Avo.Drv.C11.acceptObjDataE_sound
#print axioms Avo.Drv.C11.exObjData_accepted
#print axioms Avo.AsmLit.scan_point
#print axioms Avo.AsmLit.scan_point_exp
#print axioms Avo.AsmLit.scan_exp
#print axioms Avo.AsmLit.withPoint_float
