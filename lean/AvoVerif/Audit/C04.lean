import AvoVerif.Props.C04
import AvoVerif.Props.C04Build
import AvoVerif.Props.C04Tables
import AvoVerif.Props.C04Alias
#print axioms Avo.RW.covers_sound
#print axioms Avo.RW.judge_iff
#print axioms Avo.RW.mem_undeclared
#print axioms Avo.RW.undeclared_nil_iff
#print axioms Avo.RW.covers_ofRegs
#print axioms Avo.RW.covers_specReads
#print axioms Avo.RW.covers_specWrites
#print axioms Avo.RW.executes_sound
#print axioms Avo.RW.builds_sound
#print axioms Avo.BuildRW.declaredReads_eq_spec
#print axioms Avo.BuildRW.declaredReads_isSome
#print axioms Avo.BuildRW.declaredWrites_eq_spec
#print axioms Avo.BuildRW.declared_cover_iff
#print axioms Avo.BuildRW.assign_positions
#print axioms Avo.BuildRW.assign_isSome_iff
#print axioms Avo.BuildRW.mem_specWrites_iff
#print axioms Avo.BuildRW.mem_readRegs_iff
#print axioms Avo.BuildRW.mem_writtenMemAddrRegs_iff
#print axioms Avo.BuildRW.specReads_false
#print axioms Avo.BuildRW.mem_specReads_of_read
#print axioms Avo.BuildRW.mem_specReads_of_addr
#print axioms Avo.BuildRW.specReads_sub
#print axioms Avo.BuildRW.declaredWrites_lanes_union
#print axioms Avo.BuildRW.declaredReads_lanes_union
#print axioms Avo.BuildRW.implicit_write_declared
#print axioms Avo.BuildRW.implicit_read_declared
#print axioms Avo.BuildRW.acceptDecl_sound
#print axioms Avo.BuildRW.model_accepted
#print axioms Avo.BuildRW.declMissing_nil_iff
#print axioms Avo.FormActions.Tables.table_rowOK
#print axioms Avo.FormActions.Tables.table_shape
#print axioms Avo.FormActions.Tables.cancelling_forms_lead_with_two_registers
#print axioms Avo.FormActions.Tables.implicit_operands_resolve
#print axioms Avo.FormActions.Tables.cmov_destination_read_write
#print axioms Avo.FormActions.Tables.setcc_destination_write_only
#print axioms Avo.FormActions.Tables.bitscan_destination_read_write
#print axioms Avo.FormActions.Tables.suffix_classes_Z_consistent
#print axioms Avo.FormActions.Tables.masked_vector_destination
#print axioms Avo.FormActions.Tables.nonfinal_opmasks_read
#print axioms Avo.FormActions.Tables.denied_rows_declare_their_operands
#print axioms Avo.FormActions.Tables.jcxz_reads_rcx
