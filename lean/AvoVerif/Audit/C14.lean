import AvoVerif.Props.C14
import AvoVerif.Props.C14Tables
#print axioms Avo.Tags.tags_equiv
#print axioms Avo.Tags.header_psize
#print axioms Avo.Tags.tags_format_text
#print axioms Avo.Tags.tags_roundtrip
#print axioms Avo.Tags.option_roundtrip
#print axioms Avo.Tags.tags_invalid
#print axioms Avo.Tags.tags_invalid_chars
#print axioms Avo.Tags.invalid_is_ignore
#print axioms Avo.Tags.sepFree_of_table
#print axioms Avo.Tags.acceptEvals_sound
#print axioms Avo.Tags.empty_option_invalid
#print axioms Avo.Tags.empty_option_lost_by_roundtrip
#print axioms Avo.Tags.empty_constraint_invalid
#print axioms Avo.Tags.tags_equiv_fails_long_line
#print axioms Avo.Tags.tags_equiv_fails_large_set
#print axioms Avo.Tags.space_agree
#print axioms Avo.Tags.installed_sepfree
#print axioms Avo.Tags.tags_equiv_installed
#print axioms Avo.Tags.tags_roundtrip_installed
#print axioms Avo.Tags.f8_installed
#print axioms Avo.Tags.valid_nonempty
