import AvoVerif.Props.C14
import AvoVerif.Props.C14Tables
import AvoVerif.Props.C14Bounds
#print axioms Avo.Tags.tags_equiv
#print axioms Avo.Tags.header_psize
#print axioms Avo.Tags.tags_format_text
#print axioms Avo.Tags.tags_roundtrip
#print axioms Avo.Tags.option_roundtrip
#print axioms Avo.Tags.tags_invalid
#print axioms Avo.Tags.tags_invalid_chars
#print axioms Avo.Tags.invalid_is_ignore
#print axioms Avo.Tags.sepFree_of_table
#print axioms Avo.Tags.acceptEvals_sound
#print axioms Avo.Tags.empty_option_invalid
#print axioms Avo.Tags.empty_option_lost_by_roundtrip
#print axioms Avo.Tags.empty_constraint_invalid
#print axioms Avo.Tags.tags_equiv_fails_long_line
#print axioms Avo.Tags.tags_equiv_fails_large_set
#print axioms Avo.Tags.space_agree
#print axioms Avo.Tags.installed_sepfree
#print axioms Avo.Tags.tags_equiv_installed
#print axioms Avo.Tags.tags_roundtrip_installed
#print axioms Avo.Tags.f8_installed
#print axioms Avo.Tags.valid_nonempty
#print axioms Avo.Tags.tags_equiv_selects
#print axioms Avo.Tags.formatChecked_cases
#print axioms Avo.Tags.acceptObs_sound
#print axioms Avo.Tags.long_term_format_error
#print axioms Avo.Tags.tags_equiv_fails_long_term
#print axioms Avo.Tags.printable_of_checks
#print axioms Avo.Tags.printable_at_operand_limit
#print axioms Avo.Tags.printable_at_line_limit
#print axioms Avo.Tags.exampleCs_printable
#print axioms Avo.Tags.split_eq_splitFast
#print axioms Avo.Tags.fields_eq_fieldsFast
#print axioms Avo.Tags.utf8Len_print_le
#print axioms Avo.Tags.weight_header
#print axioms Avo.Tags.printable_of_bounds
