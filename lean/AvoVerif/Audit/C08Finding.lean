import AvoVerif.Props.C08Finding
#print axioms Avo.Mov.mov_ok_fails_at_f7
#print axioms Avo.Mov.mov_ok_statement_false
