/-
C20 model addition (core Lean only): `reg.Allocation` (reg/types.go), the map
from virtual register ids to physical register ids, on PARTIAL allocations.

  LookupDefault(id)          a[id] if present, else id
  LookupRegister(r)          r itself if r is physical; else, if a has an entry
                             for r.ID(), the view `LookupID(a[r.ID()], r.spec())`
                             of that register (nil when the entry is a virtual id
                             or the register has no such view); nil when there is
                             NO entry — a virtual register is never resolved by
                             its own kind and index number
  LookupRegisterDefault(r)   LookupRegister(r) if not nil, else r itself
  Merge(b)                   error iff some id has different entries in a and b;
                             otherwise a's entries plus b's

`operand.ApplyAllocation` (and with it `pass.BindRegisters`) is
`LookupRegisterDefault` on register operands and on base / index of memory
operands.
-/
import AvoVerif.Model.RegHW
namespace Avo.Reg

/-- `map[ID]ID` as an association list (first entry wins). -/
abbrev Allocn := List (Nat × Nat)

def Allocn.lookupDefault (a : Allocn) (id : Nat) : Nat := (a.lookup id).getD id

/-- `Allocation.LookupRegister(r)` for a register given by its id and mask. -/
def Allocn.lookupRegister (tbl : List RegRow) (a : Allocn) (id mask : Nat) : Option RegRow :=
  if idIsVirtual id then
    match a.lookup id with
    | none => none
    | some t => lookupID tbl t mask
  else lookupID tbl id mask      -- a physical register: itself (the row with its id and mask)

/-- `Allocation.LookupRegisterDefault(r)` as (id, mask). -/
def Allocn.lookupRegisterDefault (tbl : List RegRow) (a : Allocn) (id mask : Nat) : Nat × Nat :=
  match a.lookupRegister tbl id mask with
  | some p => (p.id, p.mask)
  | none => (id, mask)

/-- `a.Merge(b)` succeeds. -/
def Allocn.mergeOK (a b : Allocn) : Bool :=
  b.all fun e => match a.lookup e.1 with
    | none => true
    | some p => p == e.2

/-- The statement about one `LookupRegister` / `LookupRegisterDefault` call, on
the implementation's own outputs.  `r` = (`id`, `mask`); `entry` = `a[r.ID()]` if
present; `res` = the register returned (id, mask, size) or nil; `rd` = what
`LookupRegisterDefault` returned.

* a physical register is returned as it is;
* a VIRTUAL register WITHOUT an entry is nil — it is never turned into a
  physical register — and `LookupRegisterDefault` leaves it as it is;
* a virtual register with an entry `t`: the result, if any, IS register `t`
  (identity) with `r`'s mask and its byte count as size; there is a result
  exactly when `t` is a physical id whose register has that view in hardware. -/
def AllocLookupOK (id mask : Nat) (entry : Option Nat) (res : Option (Nat × Nat × Nat)) (rd : Nat × Nat) : Prop :=
  (if idIsVirtual id then
    match entry with
    | none => res = none
    | some t =>
      match res with
      | none => idIsVirtual t = true ∨ hwViewExists (idKind t) (idIndex t) mask = false
      | some (id', m', sz') => idIsVirtual t = false ∧ hwViewExists (idKind t) (idIndex t) mask = true ∧
          id' = t ∧ m' = mask ∧ sz' = byteCount (maskBytes mask)
   else res.map (fun p => (p.1, p.2.1)) = some (id, mask)) ∧
  rd = (match res with
        | some (id', m', _) => (id', m')
        | none => (id, mask))
instance (id mask : Nat) (entry : Option Nat) (res : Option (Nat × Nat × Nat)) (rd : Nat × Nat) :
    Decidable (AllocLookupOK id mask entry res rd) := by
  unfold AllocLookupOK
  cases entry <;> cases res <;> infer_instance

end Avo.Reg
