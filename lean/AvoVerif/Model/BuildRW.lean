/-
Model of HOW avo computes the registers an instruction reads and writes
(x86/optab.go `form.build`, ir/ir.go `InputRegisters`/`OutputRegisters`,
pass/reg.go `ZeroExtend32BitOutputs`) — the algorithm, as opposed to the
declarative specification `Model/UseDef`.  Core Lean only.  The driver answers
`build-rw` requests with this model (compared exactly with the real code on
every measured instance); `Props/C04.lean` proves it equal to the specification.
-/
import AvoVerif.Model.UseDef
namespace Avo.BuildRW
open Avo.Reg Avo.UseDef

/-- One operand entry of a form row: its action (bit 0 read, bit 1 write) and
whether it is an implicit register. -/
structure Spec where
  action : Nat
  impl : Bool
  deriving Repr, Inhabited

/-- `form.build`, operand loop: every entry of the row takes the next implicit
register when it is implicit and the next explicit operand otherwise.  `none`:
the operand list is too short (the real code would index out of range). -/
def assign : List Spec → List Opnd → List Opnd → Option (List AOp)
  | [], _, _ => some []
  | s :: ss, impls, ops =>
    if s.impl then
      match impls with
      | i :: is => (assign ss is ops).map (fun t => ⟨s.action, i⟩ :: t)
      | [] => none
    else
      match ops with
      | o :: os => (assign ss impls os).map (fun t => ⟨s.action, o⟩ :: t)
      | [] => none

/-- `Instruction.Inputs`: operands whose action reads, in row order. -/
def inputsOf (a : List AOp) : List Opnd := (a.filter AOp.reads).map (·.op)

/-- `Instruction.Outputs`: operands whose action writes, in row order. -/
def outputsOf (a : List AOp) : List Opnd := (a.filter AOp.writes).map (·.op)

/-- `pass.ZeroExtend32BitOutputs`: a 32-bit general purpose output is replaced by the 64-bit register. -/
def zeroExtend (outs : List Opnd) : List Opnd :=
  outs.map (fun o => match o with
    | .reg r true => .reg ⟨r.id, S64⟩ false
    | o => o)

def memAddrs (outs : List Opnd) : List R :=
  outs.flatMap (fun o => match o with | .mem a => a | _ => [])

/-- `ir.Instruction.InputRegisters`: registers of the inputs, minus the first two when the form is
self-cancelling and they are equal, plus the registers of memory outputs.  `none`: `rs[0] == rs[1]`
indexes out of range (the real code panics). -/
def inputRegisters (cancelling : Bool) (ins outs : List Opnd) : Option (List R) :=
  let rs := ins.flatMap Opnd.regs
  if cancelling then
    match rs with
    | a :: b :: rest => some ((if a == b then rest else rs) ++ memAddrs outs)
    | _ => none
  else some (rs ++ memAddrs outs)

/-- `ir.Instruction.OutputRegisters`: the outputs that are registers. -/
def outputRegisters (outs : List Opnd) : List R :=
  outs.flatMap (fun o => match o with | .reg r _ => [r] | _ => [])

/-- Declared reads / writes of an instruction after the compile pipeline. -/
def declaredReads (cancelling : Bool) (a : List AOp) : Option (List R) :=
  inputRegisters cancelling (inputsOf a) (zeroExtend (outputsOf a))

def declaredWrites (a : List AOp) : List R := outputRegisters (zeroExtend (outputsOf a))

/-! ### Position-wise view of the operand loop

`form.build` walks the entries of the row; which operand an entry is paired with depends only on how many implicit /
explicit entries precede it — never on WHICH registers the operands are.  `operandAt` says that directly (it is not
used by `assign`; `Props/C04Alias.assign_positions` proves that `assign` pairs exactly so). -/

/-- number of implicit entries before entry `i` of the row -/
def implBefore (specs : List Spec) (i : Nat) : Nat := (specs.take i).countP (fun s => s.impl)

/-- number of explicit entries before entry `i` of the row -/
def explBefore (specs : List Spec) (i : Nat) : Nat := (specs.take i).countP (fun s => !s.impl)

/-- the operand entry `i` of the row stands for: the next implicit register, or the next explicit operand -/
def operandAt (specs : List Spec) (impls ops : List Opnd) (i : Nat) : Option Opnd :=
  match specs[i]? with
  | none => none
  | some s => if s.impl then impls[implBefore specs i]? else ops[explBefore specs i]?

end Avo.BuildRW
