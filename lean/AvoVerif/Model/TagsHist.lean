/-
C14, histories.  Model of what the two printers (`printer.NewGoAsm`,
`printer.NewStubs`) and a direct `buildtags.Format` call put into the constraint
header of an `*ir.File` over a whole call history in one process: files are
allocated, their constraints are set / appended to / parsed from text / replaced
in place / cleared (directly on the `ir.File`, or through the `build.Context`
routes `Constraints`, `Constraint`, `ConstraintExpr`, which validate), printed by
either printer any number of times in any order, dropped and allocated again.

The point of the model: the header of a print is a function of the file's
constraints AT THAT MOMENT (`printOut`), of nothing else: not of earlier prints,
not of the printer, not of other files, not of a former file in the same slot.
Core Lean only.
-/
import AvoVerif.Model.Tags
namespace Avo.Tags

/-- How the file was made: a bare `ir.NewFile()` whose `Constraints` field is
assigned directly, or the file of a `build.Context` (its routes validate and
count errors). -/
inductive FileKind where
  | raw
  | ctx
  deriving Repr, DecidableEq

/-- The part of an `ir.File` (+ its `build.Context`) that matters for the header. -/
structure FileSt where
  kind : FileKind
  cs : Constraints
  /-- errors accumulated by the `build.Context` (0 for raw files) -/
  errs : Nat
  deriving Repr, DecidableEq

/-- Who prints: the assembly printer, the stub printer, `buildtags.Format` called directly. -/
inductive PrintKind where
  | asm
  | stub
  | fmt
  deriving Repr, DecidableEq

inductive Op where
  /-- slot `i` := a freshly allocated file (whatever was there is forgotten) -/
  | new (i : Nat) (k : FileKind)
  /-- raw: `f.Constraints = cs`; ctx: `Context.Constraints(cs)` -/
  | set (i : Nat) (cs : Constraints)
  /-- raw: `f.Constraints = append(f.Constraints, c)`; ctx: `Context.Constraint(c)` -/
  | add (i : Nat) (c : Constraint)
  /-- raw: `ParseConstraint(e)` and append on success; ctx: `Context.ConstraintExpr(e)` -/
  | addExpr (i : Nat) (e : Str)
  /-- `f.Constraints[j] = c` in place (both kinds; nothing when `j` is out of range) -/
  | replace (i j : Nat) (c : Constraint)
  /-- `f.Constraints[j][k][l] = t` in place -/
  | setTerm (i j k l : Nat) (t : Term)
  /-- raw: `f.Constraints = nil`; ctx: `Context.Constraints(Constraints{})` -/
  | clear (i : Nat)
  | print (i : Nat) (p : PrintKind)
  /-- the file in slot `i` becomes garbage -/
  | drop (i : Nat)
  deriving Repr, DecidableEq

/-- Slots of live files. -/
abbrev Heap := Nat → Option FileSt

def Heap.empty : Heap := fun _ => none

def Heap.put (h : Heap) (i : Nat) (x : Option FileSt) : Heap := fun j => if j = i then x else h j

/-- `Context.Constraints(cs)`: validated, an invalid set is an error and changes nothing. -/
def ctxSet (tc : Char → Bool) (f : FileSt) (cs : Constraints) : FileSt :=
  if validate tc cs then { f with cs := cs } else { f with errs := f.errs + 1 }

def setAt {α} : List α → Nat → α → List α
  | [], _, _ => []
  | _ :: xs, 0, y => y :: xs
  | x :: xs, n + 1, y => x :: setAt xs n y

def modifyAt {α} (f : α → α) : List α → Nat → List α
  | [], _ => []
  | x :: xs, 0 => f x :: xs
  | x :: xs, n + 1 => x :: modifyAt f xs n

/-- The effect of a mutating operation on one file. -/
def applyFile (tc : Char → Bool) (f : FileSt) : Op → FileSt
  | .set _ cs => match f.kind with
    | .raw => { f with cs := cs }
    | .ctx => ctxSet tc f cs
  | .add _ c => match f.kind with
    | .raw => { f with cs := f.cs ++ [c] }
    | .ctx => ctxSet tc f (f.cs ++ [c])
  | .addExpr _ e =>
    match parseConstraint tc e with
    | none => (match f.kind with | .raw => f | .ctx => { f with errs := f.errs + 1 })
    | some c => (match f.kind with
      | .raw => { f with cs := f.cs ++ [c] }
      | .ctx => ctxSet tc f (f.cs ++ [c]))
  | .replace _ j c => { f with cs := setAt f.cs j c }
  | .setTerm _ j k l t => { f with cs := modifyAt (fun c => modifyAt (fun o => setAt o l t) c k) f.cs j }
  | .clear _ => match f.kind with
    | .raw => { f with cs := [] }
    | .ctx => ctxSet tc f []
  | _ => f

/-- The slot an operation works on. -/
def Op.slot : Op → Nat
  | .new i _ | .set i _ | .add i _ | .addExpr i _ | .replace i _ _ | .setTerm i _ _ _ _
  | .clear i | .print i _ | .drop i => i

def Op.isPrint : Op → Bool
  | .print _ _ => true
  | _ => false

/-- One step on the heap. -/
def step (tc : Char → Bool) (h : Heap) : Op → Heap
  | .new i k => h.put i (some ⟨k, [], 0⟩)
  | .drop i => h.put i none
  | .print _ _ => h
  | op => match h op.slot with
    | none => h
    | some f => h.put op.slot (some (applyFile tc f op))

def heapAfter (tc : Char → Bool) (h : Heap) (ops : List Op) : Heap := ops.foldl (step tc) h

/-- What one print shows: `none` = there is no file in the slot; otherwise the
constraints the file holds at that moment and the header (`none` = `Format`
failed, the printer returns an error and no text). -/
structure PrintOut where
  cs : Constraints
  hdr : Option Header
  deriving Repr, DecidableEq

/-- **The header of a print is `Format` of the file's current constraints** —
whatever the printer, whatever was printed before. -/
def printOut (tc : Char → Bool) (h : Heap) (i : Nat) (_p : PrintKind) : Option PrintOut :=
  (h i).map (fun f => ⟨f.cs, formatChecked tc f.cs⟩)

/-- Outputs of all prints of a history, in order. -/
def run (tc : Char → Bool) : Heap → List Op → List (Option PrintOut)
  | _, [] => []
  | h, .print i p :: ops => printOut tc h i p :: run tc h ops
  | h, op :: ops => run tc (step tc h op) ops

/-! ### Acceptor: the property on what the implementation printed along one history -/

/-- The property on all prints of a history: every print's observation
(avo's `Evaluate` of the constraints the file holds when it is printed, against
the toolchain's reading of the header that print produced) is fine. -/
def acceptHist (obs : List Obs) : Bool := obs.all Obs.ok

/-- Index of the first print whose observation is not fine. -/
def firstBadPrint (obs : List Obs) : Option Nat :=
  (List.range obs.length).find? (fun i => match obs[i]? with | some o => !o.ok | none => false)

end Avo.Tags
