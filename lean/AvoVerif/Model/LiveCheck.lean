/-
Executable acceptor for the function-level half of C02: the live sets REPORTED
by the implementation are, lane by lane, those computed by the model of the
analysis run with the proved fuel bound — which by `liveness_exact_total` /
`liveout_exact_total` are exactly the path specification.  Core Lean only.
Soundness (`acceptLive_sound`) is proved in `Props/C02Accept`.
-/
import AvoVerif.Model.Live
import AvoVerif.Model.UseDefCheck
namespace Avo.Live
open Avo.Reg Avo.MaskSet Avo.UseDef

/-- Successor indices point at instructions of the function (executable form of `WF`). -/
def wfb (P : LProg) : Bool :=
  P.toList.all (fun I => I.succ.all (fun s => match s with | none => true | some s => s < P.size))

/-- `ins[i]`, `outs[i]`: reported `LiveIn` / `LiveOut` of instruction `i`. -/
def acceptLive (P : LProg) (ins outs : List MS) : Bool :=
  let r := (liveness P (fuelBound P)).1
  (List.range P.size).all (fun i =>
    sameLanes (getMS r.ins i) (ins.getD i []) && sameLanes (getMS r.outs i) (outs.getD i []))

end Avo.Live
