/-
Model of local stack allocation: ir.Function.AllocLocal / FrameBytes
(ir/ir.go), operand.NewStackAddr (operand/types.go), the frame part of
pass.EnsureBasePointerCalleeSaved (pass/reg.go) and printer.textsize
(printer/goasm.go).  Core Lean only.

Go's `int` is modelled as `Int` (no overflow: frames stay far below 2^63).
The ASSEMBLER however reads the frame size of a TEXT line as an int32
(`autoffset := int32(p.To.Offset)`, negative → 0; Model/BP `autoffset`): the
frame that really exists is `asmTextFrame` of the printed text, which is the
printed number only below 2^31.
-/
import AvoVerif.Model.NumText
import AvoVerif.Model.BP
namespace Avo.Locals

/-- The bytes `[off, off+size)` relative to the hardware stack pointer. -/
structure Region where
  off  : Int
  size : Int
  deriving Repr, DecidableEq, Inhabited

/-- What a function-building step does, as far as the frame is concerned. -/
inductive Op where
  /-- `ctx.AllocLocal(size)` -/
  | alloc (size : Int)
  /-- any emitted instruction; `writesBP` = one of its output registers is a
  view of the base pointer register -/
  | instr (writesBP : Bool)
  deriving Repr, DecidableEq

/-- The part of `ir.Function` that matters here. `regions` are the regions
returned so far, oldest first. -/
structure Fn where
  localSize : Int := 0
  regions   : List Region := []
  clobbered : Bool := false
  deriving Repr

/-- `AllocLocal`: `ptr := NewStackAddr(f.LocalSize); f.LocalSize += size; return ptr`. -/
def allocLocal (f : Fn) (size : Int) : Fn :=
  { f with localSize := f.localSize + size, regions := f.regions ++ [⟨f.localSize, size⟩] }

def step (f : Fn) : Op → Fn
  | .alloc size => allocLocal f size
  | .instr w => { f with clobbered := f.clobbered || w }

def run (f : Fn) (ops : List Op) : Fn := ops.foldl step f

/-- Pointer size on amd64 (`gotypes.PointerSize`). -/
def pointerSize : Int := 8

/-- Result of compiling: the user regions, the forced 8-byte local if one was
added, and the final frame size (`FrameBytes()`). -/
structure Compiled where
  regions : List Region
  forced  : Option Region
  frame   : Int
  deriving Repr, DecidableEq

/-- `EnsureBasePointerCalleeSaved`: nothing if BP is not written; an error for
NOFRAME; otherwise an 8-byte local is allocated when there is no local yet. -/
def ensureBP (f : Fn) (noframe : Bool) : Option Compiled :=
  if !f.clobbered then some ⟨f.regions, none, f.localSize⟩
  else if noframe then none
  else if f.localSize == 0 then
    some ⟨f.regions, some ⟨f.localSize, pointerSize⟩, f.localSize + pointerSize⟩
  else some ⟨f.regions, none, f.localSize⟩

def compile (ops : List Op) (noframe : Bool) : Option Compiled :=
  ensureBP (run {} ops) noframe

/-- Where the assembler saves the caller's BP for a function of frame size
`frame` (obj6.go: the slot is added on top of the declared frame). -/
def bpSlot (frame : Int) : Region := ⟨frame, 8⟩

/-- `printer.textsize`: `$frame` or `$frame-args`. -/
def textSize (frame args : Int) : List Char :=
  '$' :: (NumText.intDec frame ++ (if args > 0 then '-' :: NumText.intDec args else []))

/-- How the assembler reads the TEXT size operand `$frame[-args]` (both
non-negative decimal numbers; the `-` starts the argument size). -/
def parseTextBody (body : List Char) : Option (Nat × Option Nat) :=
  let fr := body.takeWhile (· != '-')
  let tl := body.dropWhile (· != '-')
  match NumText.parseNat 10 fr, tl with
  | some f, [] => some (f, none)
  | some f, _ :: a => (NumText.parseNat 10 a).map (fun v => (f, some v))
  | none, _ => none

def parseTextSize : List Char → Option (Nat × Option Nat)
  | [] => none
  | c :: body => if c != '$' then none else parseTextBody body

/-- The frame the assembler allocates for a function whose TEXT line carries
this size operand: the printed number truncated to int32, negative read as 0
(cmd/internal/obj/x86/obj6.go). -/
def asmTextFrame (text : List Char) : Option Int :=
  (parseTextSize text).map (fun p => Avo.BP.autoffset (p.1 : Int))

/-- `Mem.Asm` of `NewStackAddr(off)`: `off(SP)`, the displacement omitted when 0. -/
def stackAddrAsm (off : Int) : List Char :=
  (if off != 0 then NumText.intDec off else []) ++ ['(', 'S', 'P', ')']

/-- Reads `[disp](SP)`: a plain hardware-SP reference (no symbol name, no index). -/
def parseStackAddr (cs : List Char) : Option Int :=
  let d := cs.takeWhile (· != '(')
  let r := cs.dropWhile (· != '(')
  if r != ['(', 'S', 'P', ')'] then none
  else if d.isEmpty then some 0
  else NumText.parseIntLit d

/-! ### Executable acceptor -/

def Region.nonempty (r : Region) : Bool := decide (0 < r.size)

/-- Interval test for two regions sharing no byte. -/
def disjointB (r s : Region) : Bool :=
  !r.nonempty || !s.nonempty || decide (r.off + r.size ≤ s.off) || decide (s.off + s.size ≤ r.off)

def insideB (r : Region) (frame : Int) : Bool :=
  !r.nonempty || (decide (0 ≤ r.off) && decide (r.off + r.size ≤ frame))

def pairwiseB : List Region → Bool
  | [] => true
  | r :: rs => rs.all (disjointB r) && pairwiseB rs

/-- The property on the implementation's own regions and frame. -/
def acceptLocals (regions : List Region) (frame : Int) : Bool :=
  regions.all (insideB · frame) && pairwiseB regions && regions.all (disjointB · (bpSlot frame))

/-- The property against the TEXT line as the assembler reads it: the regions
lie inside (and are disjoint within, and off the BP slot above) the frame that
is really allocated. -/
def acceptLocalsText (regions : List Region) (text : List Char) : Bool :=
  match asmTextFrame text with
  | none => false
  | some fr => acceptLocals regions fr

end Avo.Locals
