/-
Model of local stack allocation: ir.Function.AllocLocal / FrameBytes
(ir/ir.go), operand.NewStackAddr (operand/types.go), the frame part of
pass.EnsureBasePointerCalleeSaved (pass/reg.go) and printer.textsize
(printer/goasm.go).  Core Lean only.

Go's `int` is modelled as `Int` (no overflow: frames stay far below 2^63).
The ASSEMBLER however reads the frame size of a TEXT line as an int32
(`autoffset := int32(p.To.Offset)`, negative → 0; Model/BP `autoffset`): the
frame that really exists is `asmTextFrame` of the printed text, which is the
printed number only below 2^31.
-/
import AvoVerif.Model.NumText
import AvoVerif.Model.BP
namespace Avo.Locals

/-- The bytes `[off, off+size)` relative to the hardware stack pointer. -/
structure Region where
  off  : Int
  size : Int
  deriving Repr, DecidableEq, Inhabited

/-- What a function-building step does, as far as the frame is concerned. -/
inductive Op where
  /-- `ctx.AllocLocal(size)` -/
  | alloc (size : Int)
  /-- any emitted instruction; `writesBP` = one of its output registers is a
  view of the base pointer register -/
  | instr (writesBP : Bool)
  deriving Repr, DecidableEq

/-- The part of `ir.Function` that matters here. `regions` are the regions
returned so far, oldest first. -/
structure Fn where
  localSize : Int := 0
  regions   : List Region := []
  clobbered : Bool := false
  deriving Repr

/-- `AllocLocal`: `ptr := NewStackAddr(f.LocalSize); f.LocalSize += size; return ptr`. -/
def allocLocal (f : Fn) (size : Int) : Fn :=
  { f with localSize := f.localSize + size, regions := f.regions ++ [⟨f.localSize, size⟩] }

def step (f : Fn) : Op → Fn
  | .alloc size => allocLocal f size
  | .instr w => { f with clobbered := f.clobbered || w }

def run (f : Fn) (ops : List Op) : Fn := ops.foldl step f

/-- Pointer size on amd64 (`gotypes.PointerSize`). -/
def pointerSize : Int := 8

/-- Result of compiling: the user regions, the forced 8-byte local if one was
added, and the final frame size (`FrameBytes()`). -/
structure Compiled where
  regions : List Region
  forced  : Option Region
  frame   : Int
  deriving Repr, DecidableEq

/-- `EnsureBasePointerCalleeSaved`: nothing if BP is not written; an error for
NOFRAME; otherwise an 8-byte local is allocated when there is no local yet. -/
def ensureBP (f : Fn) (noframe : Bool) : Option Compiled :=
  if !f.clobbered then some ⟨f.regions, none, f.localSize⟩
  else if noframe then none
  else if f.localSize == 0 then
    some ⟨f.regions, some ⟨f.localSize, pointerSize⟩, f.localSize + pointerSize⟩
  else some ⟨f.regions, none, f.localSize⟩

def compile (ops : List Op) (noframe : Bool) : Option Compiled :=
  ensureBP (run {} ops) noframe

/-- Where the assembler saves the caller's BP for a function of frame size
`frame` (obj6.go: the slot is added on top of the declared frame). -/
def bpSlot (frame : Int) : Region := ⟨frame, 8⟩

/-- `printer.textsize`: `$frame` or `$frame-args`. -/
def textSize (frame args : Int) : List Char :=
  '$' :: (NumText.intDec frame ++ (if args > 0 then '-' :: NumText.intDec args else []))

/-- How the assembler reads the TEXT size operand `$frame[-args]` (both
non-negative decimal numbers; the `-` starts the argument size). -/
def parseTextBody (body : List Char) : Option (Nat × Option Nat) :=
  let fr := body.takeWhile (· != '-')
  let tl := body.dropWhile (· != '-')
  match NumText.parseNat 10 fr, tl with
  | some f, [] => some (f, none)
  | some f, _ :: a => (NumText.parseNat 10 a).map (fun v => (f, some v))
  | none, _ => none

def parseTextSize : List Char → Option (Nat × Option Nat)
  | [] => none
  | c :: body => if c != '$' then none else parseTextBody body

/-- The frame the assembler allocates for a function whose TEXT line carries
this size operand: the printed number truncated to int32, negative read as 0
(cmd/internal/obj/x86/obj6.go). -/
def asmTextFrame (text : List Char) : Option Int :=
  (parseTextSize text).map (fun p => Avo.BP.autoffset (p.1 : Int))

/-- `Mem.Asm` of `NewStackAddr(off)`: `off(SP)`, the displacement omitted when 0. -/
def stackAddrAsm (off : Int) : List Char :=
  (if off != 0 then NumText.intDec off else []) ++ ['(', 'S', 'P', ')']

/-- Reads `[disp](SP)`: a plain hardware-SP reference (no symbol name, no index). -/
def parseStackAddr (cs : List Char) : Option Int :=
  let d := cs.takeWhile (· != '(')
  let r := cs.dropWhile (· != '(')
  if r != ['(', 'S', 'P', ')'] then none
  else if d.isEmpty then some 0
  else NumText.parseIntLit d

/-! ### Executable acceptor -/

def Region.nonempty (r : Region) : Bool := decide (0 < r.size)

/-- Interval test for two regions sharing no byte. -/
def disjointB (r s : Region) : Bool :=
  !r.nonempty || !s.nonempty || decide (r.off + r.size ≤ s.off) || decide (s.off + s.size ≤ r.off)

def insideB (r : Region) (frame : Int) : Bool :=
  !r.nonempty || (decide (0 ≤ r.off) && decide (r.off + r.size ≤ frame))

def pairwiseB : List Region → Bool
  | [] => true
  | r :: rs => rs.all (disjointB r) && pairwiseB rs

/-- The property on the implementation's own regions and frame. -/
def acceptLocals (regions : List Region) (frame : Int) : Bool :=
  regions.all (insideB · frame) && pairwiseB regions && regions.all (disjointB · (bpSlot frame))

/-- The property against the TEXT line as the assembler reads it: the regions
lie inside (and are disjoint within, and off the BP slot above) the frame that
is really allocated. -/
def acceptLocalsText (regions : List Region) (text : List Char) : Bool :=
  match asmTextFrame text with
  | none => false
  | some fr => acceptLocals regions fr

/-! ### The addresses finally printed and assembled

The property is about the bytes the *compiled and printed* function touches, not about the `Mem` values
`AllocLocal` returned: every pass of `pass.Compile` that runs after the function was built may rewrite operands
or the frame size.  The part below models the stack operands of the emitted instructions and the pipeline step
`EnsureBasePointerCalleeSaved` on the whole function (frame AND operands). -/

/-- One stack operand of an emitted instruction: it was built from the `Mem` returned for local number `loc`
(`m.Offset(delta)`), and the instruction accesses `width` bytes there (0 for `LEAQ`). -/
structure Ref where
  loc   : Nat
  delta : Int
  width : Int
  deriving Repr, DecidableEq, Inhabited

/-- A function-building step with its stack operands. -/
inductive POp where
  | alloc (size : Int)
  | instr (writesBP : Bool) (refs : List Ref)
  deriving Repr

def POp.toOp : POp → Op
  | .alloc s => .alloc s
  | .instr w _ => .instr w

/-- A function under construction together with the SP-relative operands emitted so far, in program order,
each with the displacement it carries. -/
structure FnP where
  fn   : Fn := {}
  mems : List (Ref × Int) := []
  deriving Repr

/-- `m.Offset(delta).Disp` for the `Mem` returned by allocation number `loc` (operand.Mem.Offset adds to Disp). -/
def refDisp (f : Fn) (r : Ref) : Int :=
  match f.regions[r.loc]? with
  | some g => g.off + r.delta
  | none => r.delta

def stepP (f : FnP) : POp → FnP
  | .alloc s => { f with fn := allocLocal f.fn s }
  | .instr w rs => { fn := step f.fn (.instr w), mems := f.mems ++ rs.map (fun r => (r, refDisp f.fn r)) }

def runP (f : FnP) (ops : List POp) : FnP := ops.foldl stepP f

/-- Result of compiling, operands included. -/
structure CompiledP where
  frame : Compiled
  mems  : List (Ref × Int)
  deriving Repr, DecidableEq

/-- The pipeline step `EnsureBasePointerCalleeSaved` on the whole function: the frame part is `ensureBP`; the
operands of the instructions are left exactly as they were emitted.  (Every other pass of `pass.Compile` leaves
frame and SP-relative operands alone; the exact `final` stream compares the compiled function with this.) -/
def ensureBPFn (f : FnP) (noframe : Bool) : Option CompiledP :=
  (ensureBP f.fn noframe).map (fun c => ⟨c, f.mems⟩)

def compileP (ops : List POp) (noframe : Bool) : Option CompiledP :=
  ensureBPFn (runP {} ops) noframe

/-- One stack operand as it is finally printed (or assembled): what it was emitted for, and the displacement
from the hardware stack pointer that was observed. -/
structure Seen where
  ref  : Ref
  disp : Int
  deriving Repr, DecidableEq, Inhabited

/-- The observed operand addresses byte `delta` of the region handed out for its local. -/
def addrOKB (regions : List Region) (s : Seen) : Bool :=
  match regions[s.ref.loc]? with
  | some g => s.disp == g.off + s.ref.delta
  | none => false

/-- The acceptor of the finally printed function: every printed stack operand still addresses the region
`AllocLocal` handed out for it, and those regions (with the forced local) satisfy the property against the
frame the assembler allocates for the printed TEXT line. -/
def acceptFinal (regions : List Region) (forced : Option Region) (seen : List Seen) (text : List Char) : Bool :=
  seen.all (addrOKB regions) && acceptLocalsText (regions ++ forced.toList) text

/-- Diagnostics only: the region local `j` finally occupies, read off the first observed operand that refers to
it (a local no operand refers to stays where AllocLocal put it). -/
def finalRegion (seen : List Seen) (j : Nat) (g : Region) : Region :=
  match seen.find? (fun s => s.ref.loc == j) with
  | some s => ⟨s.disp - s.ref.delta, g.size⟩
  | none => g

def finalRegionsFrom (seen : List Seen) : Nat → List Region → List Region
  | _, [] => []
  | j, g :: gs => finalRegion seen j g :: finalRegionsFrom seen (j + 1) gs

/-- The bytes `[s.disp, s.disp + width)` really accessed lie inside the region handed out for the local. -/
def accessInB (regions : List Region) (s : Seen) : Bool :=
  match regions[s.ref.loc]? with
  | some g => decide (s.ref.width ≤ 0) || (decide (g.off ≤ s.disp) && decide (s.disp + s.ref.width ≤ g.off + g.size))
  | none => false

/-- The acceptor of the MEASURED function (assembled, disassembled): `top` is the measured distance from the
stack pointer (after the prologue) to the lowest reserved word, `reserved` are the measured reserved slots (the
word where the prologue stored BP, the return address); `seen` carry measured displacements and access widths. -/
def acceptMeasured (regions : List Region) (seen : List Seen) (top : Int) (reserved : List Region) : Bool :=
  seen.all (addrOKB regions) && seen.all (accessInB regions) &&
  regions.all (insideB · top) && pairwiseB regions &&
  reserved.all (fun s => regions.all (disjointB · s))

end Avo.Locals
