/-
Model of pass/isa.go: RequiredISAExtensions — the set of ISA extensions of a
function's instructions, as a sorted list.  Core Lean only.
-/
namespace Avo.ISA

def insertStr (x : String) : List String → List String
  | [] => [x]
  | y :: ys => if x < y then x :: y :: ys else y :: insertStr x ys

/-- `sort.Strings` on distinct strings. -/
def sortStrs (xs : List String) : List String := xs.foldr insertStr []

/-- `RequiredISAExtensions`: `set` lists the distinct extensions in whatever
order the Go map yields them; the pass leaves the function untouched when the
set is empty. -/
def requiredISA (set : List String) : List String := sortStrs set

end Avo.ISA

/-! Acceptor of the repeated-run measurement (C17): the digests of all runs of one program. -/
namespace Avo.Det

/-- verdict on the digests of the repeated generations of one program:
`none` = accepted; otherwise the failure class. -/
def judge : List String → Option String
  | [] => none
  | d :: rest =>
    if (d :: rest).any (· == "panic") then some "bad-panic"
    else if rest.all (· == d) then none
    else some "bad-nondeterministic"

def acceptDet (ds : List String) : Bool := (judge ds).isNone

/-- Which of the three parts `asm.stubs.alloc` of a digest differ somewhere (diagnostic only). -/
def differingParts (ds : List String) : List String :=
  match ds with
  | [] => []
  | d :: rest =>
    let p := d.splitOn "."
    if p.length != 3 then (if rest.all (· == d) then [] else ["status"]) else
    let names := ["asm", "stubs", "alloc"]
    (List.range 3).filterMap (fun i =>
      if rest.all (fun x => let q := x.splitOn "."; q.length == 3 && q.getD i "" == p.getD i "") then none
      else some (names.getD i ""))

end Avo.Det
