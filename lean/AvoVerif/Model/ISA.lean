/-
Model of pass/isa.go: RequiredISAExtensions — the set of ISA extensions of a
function's instructions, as a sorted list.  Core Lean only.
-/
namespace Avo.ISA

def insertStr (x : String) : List String → List String
  | [] => [x]
  | y :: ys => if x < y then x :: y :: ys else y :: insertStr x ys

/-- `sort.Strings` on distinct strings. -/
def sortStrs (xs : List String) : List String := xs.foldr insertStr []

/-- `RequiredISAExtensions`: `set` lists the distinct extensions in whatever
order the Go map yields them; the pass leaves the function untouched when the
set is empty. -/
def requiredISA (set : List String) : List String := sortStrs set

end Avo.ISA
