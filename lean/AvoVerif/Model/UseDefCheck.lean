/-
Executable acceptor for the instruction-level half of C02: the registers an
instruction is REPORTED to read / write (`InputRegisters` / `OutputRegisters`
as mask sets) are exactly, lane by lane, those of the specification
`specReads` / `specWrites`.  Core Lean only.  Soundness (`acceptUseDef_sound`)
is proved in `Props/C02UseDef`.
-/
import AvoVerif.Model.UseDef
import AvoVerif.Model.MaskSet
namespace Avo.UseDef
open Avo.Reg Avo.MaskSet

/-- Lane-wise equality of two mask sets: every register id occurring in either
carries the same mask in both (ids occurring in neither carry 0 in both). -/
def sameLanes (a b : MS) : Bool :=
  (a.map (·.1) ++ b.map (·.1)).all (fun k => get a k == get b k)

/-- The acceptor: reported reads `gotR` and reported writes `gotW` of an
instruction with operand list `ops` of a form that is (`c = true`) or is not
self-cancelling. -/
def acceptUseDef (c : Bool) (ops : List AOp) (gotR gotW : MS) : Bool :=
  sameLanes (ofRegs (specReads c ops)) gotR && sameLanes (ofRegs (specWrites ops)) gotW

end Avo.UseDef
