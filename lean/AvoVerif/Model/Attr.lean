/-
Model of attr/attr.go: Attribute.split / Asm / ContainsTextFlags, and of
pass/textflag.go: IncludeTextFlagHeader.  Core Lean only.
-/
namespace Avo.Attr

/-- `attrname[bit]` of the Go map: first entry with that key; the Go code treats
the empty string as "no flag". -/
def lookupName (names : List (Nat × String)) (v : Nat) : Option String :=
  match names.find? (fun p => p.1 == v) with
  | some (_, n) => if n == "" then none else some n
  | none => none

/-- A printed part of the attribute expression. -/
inductive Tok where
  | name (n : String)
  | num (v : Nat)
  deriving Repr, DecidableEq

/-- `Attribute.split` restricted to the bit positions in `is` (ascending).  The
Go loop visits the set bits of `a` from the lowest to the highest. -/
def splitBits (names : List (Nat × String)) (a : BitVec 16) : List Nat → List String × BitVec 16
  | [] => ([], 0#16)
  | i :: is =>
    let r := splitBits names a is
    if a.getLsbD i then
      match lookupName names (2 ^ i) with
      | some n => (n :: r.1, r.2)
      | none => (r.1, r.2 ||| (1#16 <<< i))
    else r

def split (names : List (Nat × String)) (a : BitVec 16) : List String × BitVec 16 :=
  splitBits names a (List.range 16)

/-- `Attribute.Asm` as a token list: flag names, then the decimal remainder when
there is no flag at all or the remainder is non-zero. -/
def asmToks (names : List (Nat × String)) (a : BitVec 16) : List Tok :=
  let r := split names a
  r.1.map Tok.name ++ (if r.1.isEmpty || r.2 != 0#16 then [Tok.num r.2.toNat] else [])

def Tok.render : Tok → String
  | .name n => n
  | .num v => toString v

/-- The text of `Attribute.Asm()`. -/
def asm (names : List (Nat × String)) (a : BitVec 16) : String :=
  "|".intercalate ((asmToks names a).map Tok.render)

/-- `Attribute.ContainsTextFlags`. -/
def containsTextFlags (names : List (Nat × String)) (a : BitVec 16) : Bool :=
  !(split names a).1.isEmpty

/-- Does the printed expression use a macro name? -/
def usesMacro (toks : List Tok) : Bool :=
  toks.any (fun t => match t with | .name _ => true | .num _ => false)

/-- Value of a macro in the toolchain header. -/
def hdrValue (hdr : List (String × Nat)) (n : String) : Option Nat :=
  (hdr.find? (fun p => p.1 == n)).map (·.2)

/-- How the assembler's preprocessor + expression evaluator value the printed
expression: the bitwise OR of its parts, macro names taken from the header. -/
def evalToks (hdr : List (String × Nat)) : List Tok → Option (BitVec 16)
  | [] => some 0#16
  | .name n :: ts =>
    match hdrValue hdr n, evalToks hdr ts with
    | some v, some r => some (BitVec.ofNat 16 v ||| r)
    | _, _ => none
  | .num v :: ts =>
    match evalToks hdr ts with
    | some r => some (BitVec.ofNat 16 v ||| r)
    | none => none

/-- TEXT directive: the attribute clause is omitted for 0; GLOBL always prints it. -/
def textClause (names : List (Nat × String)) (a : BitVec 16) : Option (List Tok) :=
  if a == 0#16 then none else some (asmToks names a)

/-! ### pass.IncludeTextFlagHeader -/

def textflagHeader : String := "textflag.h"

/-- `sections` are the attributes of the file's sections in order. -/
def includeTextFlagHeader (names : List (Nat × String)) (includes : List String)
    (sections : List (BitVec 16)) : List String :=
  if includes.contains textflagHeader then includes
  else if sections.any (containsTextFlags names) then includes ++ [textflagHeader]
  else includes

end Avo.Attr
