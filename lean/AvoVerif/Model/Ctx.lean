/-
Model of build/context.go, build/error.go, build/cli.go (Main), build/pseudo.go,
the error-carrying components of gotypes/components.go + signature.go, the
`Concat`/`Output` part of pass/pass.go and the error conditions of the compile
pipeline (pass/verify.go, pass/cleanup.go label pruning, pass/cfg.go,
register pressure in pass/alloc.go).  Core Lean only.

The state machine `Ctx` is driven by `step : Ctx → Op → Ctx`, one `Op` per
builder call.  Where validity of a request cannot be decided from the request
itself (do the operands match a form of the opcode?  does the Go type checker
accept the signature expression?  is there a MOV for this size/class pair?) the
`Op` carries the classification chosen by the harness; everything else
(unknown parameter, index out of range, navigation on the wrong type, datum
overlap, invalid build-tag term, labels, memory operands, register pressure,
missing active function / global) is decided here from the request data; the
one fact about the world outside avo that this needs — which characters the Go
toolchain allows in a build tag — is the parameter `tc`.
-/
namespace Avo.Ctx

/-- Classes of builder-time error messages. -/
inductive ErrClass where
  | noFunc        -- "no active function"
  | noGlobal      -- "no active global"
  | badOperands   -- "bad operands"
  | sigExpr       -- any error of ParseSignatureInPackage
  | unknownVar    -- unknown variable "x"
  | indexRange    -- "index out of range"
  | notPrimitive  -- "component is not primitive"
  | notPointer    -- "not pointer type"
  | noBase        -- "only slices and strings have base pointers"
  | noLen         -- "only slices and strings have length fields"
  | noCap         -- "only slices have capacity fields"
  | noReal        -- "only complex types have real values"
  | noImag        -- "only complex types have imaginary values"
  | notArray      -- "not array type"
  | arrayBounds   -- "array index out of bounds"
  | notStruct     -- "not struct type"
  | noField       -- "struct does not have field 'x'"
  | movDeduce     -- "could not deduce mov instruction"
  | overlap       -- "overlaps existing datum"
  | negOffset     -- "negative offset"
  | constraint    -- any error of buildtags validation
  | noPackage     -- "no package specified" (`Implement` without `Package`)
  deriving DecidableEq, Repr, Inhabited

def ErrClass.tag : ErrClass → String
  | .noFunc => "nofunc" | .noGlobal => "noglobal" | .badOperands => "badops" | .sigExpr => "sig"
  | .unknownVar => "unkvar" | .indexRange => "idxrange" | .notPrimitive => "notprim"
  | .notPointer => "notptr" | .noBase => "nobase" | .noLen => "nolen" | .noCap => "nocap"
  | .noReal => "noreal" | .noImag => "noimag" | .notArray => "notarray" | .arrayBounds => "arrbounds"
  | .notStruct => "notstruct" | .noField => "nofield" | .movDeduce => "mov" | .overlap => "overlap" | .negOffset => "negoff"
  | .constraint => "constraint" | .noPackage => "nopkg"

/-! ## Go types as far as component navigation looks at them -/

inductive Ty where
  | int (size : Nat) (signed : Bool)   -- integer basic types, uintptr
  | bool
  | float (size : Nat)
  | complex (size : Nat)               -- total size: 8 or 16
  | str
  | ptr (elem : Ty)
  | slice (elem : Ty)
  | array (len : Nat) (elem : Ty)
  | struct (fields : List (String × Ty))
  | other                              -- interface, map, chan, func

instance : Inhabited Ty := ⟨.other⟩

/-- `toprimitive(t) != nil`: a basic type that is neither string nor complex, or a pointer. -/
def Ty.isPrimitive : Ty → Bool
  | .int _ _ | .bool | .float _ | .ptr _ => true
  | _ => false

/-- A `gotypes.Component`: either a typed address (only the kind of its base
register matters here: frame pointer pseudo register or a general-purpose
register after `Dereference`) or an error (`componenterr`). -/
inductive Comp where
  | ok (t : Ty) (gpBase : Bool)
  | err (e : ErrClass)

instance : Inhabited Comp := ⟨.err .unknownVar⟩

/-- Navigation methods of the `Component` interface. -/
inductive Nav where
  | base | len | cap | real | imag
  | index (i : Int)
  | field (n : String)
  | deref
  deriving Repr

def lookupField (fs : List (String × Ty)) (n : String) : Option Ty :=
  match fs.find? (fun p => p.1 == n) with
  | some p => some p.2
  | none => none

/-- One navigation step.  `componenterr` returns itself from every method;
`*component` checks the type (an index is in range iff `0 ≤ i < len`). -/
def Comp.nav : Comp → Nav → Comp
  | .err e, _ => .err e
  | .ok t g, .base => match t with
      | .slice _ | .str => .ok (.int 8 false) g
      | _ => .err .noBase
  | .ok t g, .len => match t with
      | .slice _ | .str => .ok (.int 8 true) g
      | _ => .err .noLen
  | .ok t g, .cap => match t with
      | .slice _ => .ok (.int 8 true) g
      | _ => .err .noCap
  | .ok t g, .real => match t with
      | .complex s => .ok (.float (s / 2)) g
      | _ => .err .noReal
  | .ok t g, .imag => match t with
      | .complex s => .ok (.float (s / 2)) g
      | _ => .err .noImag
  | .ok t g, .index i => match t with
      | .array n e => if i < 0 ∨ i ≥ (n : Int) then .err .arrayBounds else .ok e g
      | _ => .err .notArray
  | .ok t g, .field n => match t with
      | .struct fs => match lookupField fs n with
          | some ft => .ok ft g
          | none => .err .noField
      | _ => .err .notStruct
  | .ok t _, .deref => match t with
      | .ptr e => .ok e true
      | _ => .err .notPointer

/-- `Resolve()`: `none` when it yields a `Basic`, else the class of its error. -/
def Comp.resolveErr : Comp → Option ErrClass
  | .err e => some e
  | .ok t _ => if t.isPrimitive then none else some .notPrimitive

def Comp.gpBase : Comp → Bool
  | .ok _ g => g
  | .err _ => false

/-- A signature: named (or unnamed = "") parameters and results. -/
structure Sig where
  params : List (String × Ty)
  results : List (String × Ty)

def Sig.void : Sig := ⟨[], []⟩
instance : Inhabited Sig := ⟨Sig.void⟩

/-- `Tuple.Lookup`: `byname` holds the non-empty names (a later duplicate wins). -/
def tupleLookup (t : List (String × Ty)) (n : String) : Comp :=
  if n == "" then .err .unknownVar else
  match t.reverse.find? (fun p => p.1 == n) with
  | some p => .ok p.2 false
  | none => .err .unknownVar

/-- `Tuple.At`: an index is in range iff `0 ≤ i < len`. -/
def tupleAt (t : List (String × Ty)) (i : Int) : Comp :=
  if i < 0 ∨ i ≥ (t.length : Int) then .err .indexRange else
  match t[i.toNat]? with
  | some p => .ok p.2 false
  | none => .err .indexRange

/-! ## Instructions and function bodies, as far as the passes' error conditions look at them -/

/-- Operand shapes.  Register kinds: 0 pseudo, 1 general purpose, 2 vector, 3 opmask. -/
inductive Opnd where
  | reg (kind : Nat)
  | imm
  | lbl (n : String)
  | mem (base : Option Nat) (index : Option Nat) (scale : Nat)
  deriving Repr, DecidableEq

structure Instr where
  /-- 0 not a branch, 1 unconditional branch, 2 conditional branch -/
  branch : Nat
  /-- kinds of the implicit register operands of the form -/
  implicitKinds : List Nat
  opnds : List Opnd
  deriving Repr, DecidableEq

instance : Inhabited Instr := ⟨⟨0, [], []⟩⟩

/-- `Instruction.TargetLabel`. -/
def Instr.target (i : Instr) : Option String :=
  if i.branch == 0 then none else
  match i.opnds with
  | .lbl n :: _ => some n
  | _ => none

def Opnd.kinds : Opnd → List Nat
  | .reg k => [k]
  | .mem b x _ => b.toList ++ x.toList
  | _ => []

/-- kinds of `Instruction.Registers()` (explicit operands only). -/
def Instr.explicitKinds (i : Instr) : List Nat := i.opnds.flatMap Opnd.kinds

inductive Node where
  | instr (i : Instr)
  | label (n : String)
  | comment
  /-- block of `n` simultaneously live fresh virtual registers of one kind:
  `n` definitions, `n-1` uses folding into the first, `RET` -/
  | press (kind n : Nat)
  deriving Repr, DecidableEq

/-- Number of `ir.Node`s a model node stands for. -/
def Node.count : Node → Nat
  | .press _ n => 2 * n
  | _ => 1

structure Fn where
  name : String
  attrs : Nat := 0
  sig : Sig := Sig.void
  localSize : Nat := 0
  nodes : List Node := []
  pragmas : Nat := 0
  docs : Nat := 0
  /-- the documentation lines (replaced by every `Doc` call) contain a line break
  followed by text that is not a comment -/
  docBreak : Bool := false
  /-- some pragma (they accumulate) contains such a line break -/
  pragmaBreak : Bool := false

/-- ASCII part of the Go identifier syntax (the generator stays within ASCII). -/
def isIdentStart (c : Char) : Bool := c.isAlpha || c == '_'
def isIdentChar (c : Char) : Bool := c.isAlpha || c.isDigit || c == '_'

def goKeywords : List String :=
  ["break", "case", "chan", "const", "continue", "default", "defer", "else", "fallthrough", "for", "func",
   "go", "goto", "if", "import", "interface", "map", "package", "range", "return", "select", "struct",
   "switch", "type", "var"]

/-- `name` can stand after `func` in a Go declaration. -/
def isGoIdent (name : String) : Bool :=
  match name.toList with
  | [] => false
  | c :: cs => isIdentStart c && cs.all isIdentChar && !goKeywords.contains name

/-- The stub printer (`printer/stubs.go`) ends with `format.Source`, which fails
when the text is not Go syntax: the declaration `func <name><signature>` with a
name that is not an identifier, or a doc line / pragma with a line break that
puts other text at declaration level. -/
def Fn.stubBreaks (f : Fn) : Bool := !isGoIdent f.name || f.docBreak || f.pragmaBreak

def Fn.nodeCount (f : Fn) : Nat := (f.nodes.map Node.count).sum

structure Glob where
  name : String
  attrs : Nat := 0
  /-- (offset, size in bytes) in insertion order -/
  data : List (Nat × Nat) := []
  size : Nat := 0

/-- `Datum.Overlaps`: `!(eo <= s || e <= so)`. -/
def overlaps (s e so eo : Nat) : Bool := !(eo ≤ s || e ≤ so)

def Glob.overlapsAny (g : Glob) (off sz : Nat) : Bool :=
  g.data.any (fun d => overlaps off (off + sz) d.1 (d.1 + d.2))

/-- `Global.add`: grow to the end of the datum, append it. -/
def Glob.add (g : Glob) (off sz : Nat) : Glob :=
  { g with size := if g.size < off + sz then off + sz else g.size, data := g.data ++ [(off, sz)] }

/-! ## Build constraints (validation)

Which characters may occur in a tag is a fact about the Go toolchain
(`go/build/constraint`: letters and decimal digits of every script, `_`, `.`),
not something avo is free to choose: it is the parameter `tc` of everything
below.  The property theorems hold for every `tc`; the driver and
`Props/C18Tables.lean` instantiate it with the table measured from the installed
toolchain on every run (`Oracle/TagChars.lean`, one `constraint.Parse` per code point). -/

/-- Tag character predicate from a table of inclusive code point ranges. -/
def tagCharOf (ranges : List (Nat × Nat)) (c : Char) : Bool :=
  ranges.any (fun r => r.1 ≤ c.toNat && c.toNat ≤ r.2)

/-- The ASCII part of the toolchain's table (`.`, digits, letters, `_`), for examples. -/
def asciiTagRanges : List (Nat × Nat) := [(46, 46), (48, 57), (65, 90), (95, 95), (97, 122)]
def asciiTag : Char → Bool := tagCharOf asciiTagRanges

/-- The tag name of a term: the term without one leading `!` (`Term.Name`). -/
def termName : List Char → List Char
  | '!' :: r => r
  | t => t

/-- A term is a tag or `!tag`: not prefixed `!!`, non-empty name, tag characters only. -/
def termValid (tc : Char → Bool) (t : List Char) : Bool :=
  match t with
  | '!' :: '!' :: _ => false
  | _ => !(termName t).isEmpty && (termName t).all tc

abbrev Option' := List (List Char)      -- AND of terms
abbrev Constraint := List Option'       -- OR of options

/-- An option has at least one term and every term is valid. -/
def optionValid (tc : Char → Bool) (o : Option') : Bool := !o.isEmpty && o.all (termValid tc)

/-- A constraint line has at least one option and every option is valid. -/
def constraintValid (tc : Char → Bool) (c : Constraint) : Bool :=
  !c.isEmpty && c.all (optionValid tc)
def constraintsValid (tc : Char → Bool) (cs : List Constraint) : Bool := cs.all (constraintValid tc)

/-! ### The text form (`ConstraintExpr`): white-space separated options, comma separated terms -/

/-- Code points `strings.Fields` splits on (`unicode.IsSpace`); compared with the
set measured from the installed `strings.Fields` in `Props/C18Tables.lean`. -/
def spaceCodes : List Nat :=
  [0x09, 0x0A, 0x0B, 0x0C, 0x0D, 0x20, 0x85, 0xA0, 0x1680,
   0x2000, 0x2001, 0x2002, 0x2003, 0x2004, 0x2005, 0x2006, 0x2007, 0x2008, 0x2009, 0x200A,
   0x2028, 0x2029, 0x202F, 0x205F, 0x3000]

def isSpace (c : Char) : Bool := spaceCodes.contains c.toNat

/-- Split at every `sep` (`strings.Split`): `cur` is the piece being read, reversed. -/
def splitGo (sep : Char) : List Char → List Char → List (List Char)
  | cur, [] => [cur.reverse]
  | cur, c :: cs => if c == sep then cur.reverse :: splitGo sep [] cs else splitGo sep (c :: cur) cs

def splitOn (sep : Char) (s : List Char) : List (List Char) := splitGo sep [] s

/-- Maximal runs of non-space characters (`strings.Fields`). -/
def fieldsGo : List Char → List Char → List (List Char)
  | cur, [] => if cur.isEmpty then [] else [cur.reverse]
  | cur, c :: cs =>
    if isSpace c then (if cur.isEmpty then fieldsGo [] cs else cur.reverse :: fieldsGo [] cs)
    else fieldsGo (c :: cur) cs

def fields (s : List Char) : List (List Char) := fieldsGo [] s

/-- The constraint a `// +build` text denotes. -/
def parseConstraint (text : List Char) : Constraint := (fields text).map (splitOn ',')

/-! ## The builder state -/

structure Ctx where
  errs : List ErrClass := []
  doneFns : List Fn := []          -- earlier functions, in file order
  cur : Option Fn := none          -- `Context.function`
  doneGlobs : List Glob := []
  glob : Option Glob := none       -- `Context.global`
  secOrder : List Bool := []       -- file sections: true = function, false = data section
  comps : List Comp := []          -- component values handed out so far (the harness' slots)
  cons : List Constraint := []     -- `file.Constraints`

def Ctx.init : Ctx := {}

def Ctx.fns (c : Ctx) : List Fn := c.doneFns ++ c.cur.toList
def Ctx.globs (c : Ctx) : List Glob := c.doneGlobs ++ c.glob.toList

/-- `adderror`. -/
def Ctx.addErr (c : Ctx) (e : ErrClass) : Ctx := { c with errs := c.errs ++ [e] }

/-- `c.activefunc().<update>`: without an active function an error is recorded
and the update goes to a throw-away function. -/
def Ctx.withFn (c : Ctx) (f : Fn → Fn) : Ctx :=
  match c.cur with
  | none => c.addErr .noFunc
  | some fn => { c with cur := some (f fn) }

/-- `c.activeglobal().<update>`. -/
def Ctx.withGlob (c : Ctx) (f : Glob → Glob) : Ctx :=
  match c.glob with
  | none => c.addErr .noGlobal
  | some g => { c with glob := some (f g) }

def Ctx.addNode (c : Ctx) (n : Node) : Ctx := c.withFn (fun f => { f with nodes := f.nodes ++ [n] })

def Ctx.pushComp (c : Ctx) (k : Comp) : Ctx := { c with comps := c.comps ++ [k] }

def Ctx.getComp (c : Ctx) (slot : Nat) : Comp := c.comps[slot]?.getD default

/-- `c.activefunc().Signature`: the void signature of the throw-away function when none is active. -/
def Ctx.rootComp (c : Ctx) (pick : Sig → Comp) : Ctx :=
  match c.cur with
  | none => (c.addErr .noFunc).pushComp (pick Sig.void)
  | some fn => c.pushComp (pick fn.sig)

/-- `Context.Function`. -/
def Ctx.newFn (c : Ctx) (name : String) : Ctx :=
  { c with doneFns := c.doneFns ++ c.cur.toList, cur := some { name := name }, secOrder := c.secOrder ++ [true] }

/-- The MOV instruction `Load`/`Store` add: memory operand of the component and a register. -/
def movInstr (gpBase : Bool) (regKind : Nat) (store : Bool) : Instr :=
  let m := Opnd.mem (some (if gpBase then 1 else 0)) none 0
  ⟨0, [], if store then [.reg regKind, m] else [m, .reg regKind]⟩

/-- `Context.Load` / `Context.Store`: resolve first; then deduce the MOV (harness
classification `ded`); the deduced instruction goes through `addinstruction`. -/
def Ctx.loadStore (c : Ctx) (slot regKind : Nat) (ded store : Bool) : Ctx :=
  match c.getComp slot with
  | .err e => c.addErr e
  | .ok t g =>
    if t.isPrimitive then
      if ded then c.addNode (.instr (movInstr g regKind store)) else c.addErr .movDeduce
    else c.addErr .notPrimitive

/-- One builder call. -/
inductive Op where
  | function (name : String)
  | attributes (a : Nat)
  /-- `Doc(lines…)`; `nl` = some line contains a line break followed by non-comment text -/
  | doc (nl : Bool)
  /-- `Pragma(directive, args…)`; `nl` as for `doc` -/
  | pragma (nl : Bool)
  /-- `SignatureExpr`: `none` = the expression is rejected by the Go type checker (harness classification) -/
  | signature (s : Option Sig)
  /-- a generated instruction constructor; `valid` = the operands match a form (harness classification) -/
  | instr (valid : Bool) (i : Instr)
  /-- `Context.Instruction(i)` with a hand-made instruction -/
  | rawInstr (i : Instr)
  | label (n : String)
  | comment
  | param (n : String)
  | paramIndex (i : Int)
  | ret (n : String)
  | retIndex (i : Int)
  /-- a `Component` method applied to an earlier component value -/
  | nav (slot : Nat) (n : Nav)
  | load (slot regKind : Nat) (ded : Bool)
  | store (slot regKind : Nat) (ded : Bool)
  | dereference (slot : Nat) (ded : Bool)
  | allocLocal (size : Nat)
  | staticGlobal (name : String)
  | dataAttributes (a : Nat)
  | addDatum (off size : Nat)
  /-- `AddDatum(-(below+1), v)`: a datum placed before the start of the section -/
  | addDatumNeg (below size : Nat)
  | appendDatum (size : Nat)
  | constraints (cs : List Constraint)
  | constraint (k : Constraint)
  /-- `ConstraintExpr(text)`: the text that follows `// +build` -/
  | constraintExpr (text : List Char)
  /-- `Function(name)` followed by a register-pressure block (all valid calls) -/
  | pressure (name : String) (kind n : Nat)
  /-- `Implement(name)` on a context without a package (`Package` is never called) -/
  | implement (name : String)
  /-- a builder call with a nil argument (`k` names the call).  What such a call
  does is not pinned down by the property beyond "does not panic": the model
  leaves the state alone and the statement (`Spec`) allows it to be reported or not. -/
  | nilArg (k : Nat)

def step (tc : Char → Bool) (c : Ctx) : Op → Ctx
  | .function name => c.newFn name
  | .attributes a => c.withFn (fun f => { f with attrs := a })
  | .doc nl => c.withFn (fun f => { f with docs := f.docs + 1, docBreak := nl })
  | .pragma nl => c.withFn (fun f => { f with pragmas := f.pragmas + 1, pragmaBreak := f.pragmaBreak || nl })
  | .signature none => c.addErr .sigExpr
  | .signature (some s) => c.withFn (fun f => { f with sig := s })
  | .instr valid i => if valid then c.addNode (.instr i) else c.addErr .badOperands
  | .rawInstr i => c.addNode (.instr i)
  | .label n => c.addNode (.label n)
  | .comment => c.addNode .comment
  | .param n => c.rootComp (fun s => tupleLookup s.params n)
  | .paramIndex i => c.rootComp (fun s => tupleAt s.params i)
  | .ret n => c.rootComp (fun s => tupleLookup s.results n)
  | .retIndex i => c.rootComp (fun s => tupleAt s.results i)
  | .nav slot n => c.pushComp ((c.getComp slot).nav n)
  | .load slot rk ded => c.loadStore slot rk ded false
  | .store slot rk ded => c.loadStore slot rk ded true
  | .dereference slot ded =>
      -- r := GP64(); Load(ptr, r); return ptr.Dereference(r)
      (c.loadStore slot 1 ded false).pushComp ((c.getComp slot).nav .deref)
  | .allocLocal size => c.withFn (fun f => { f with localSize := f.localSize + size })
  | .staticGlobal name =>
      { c with doneGlobs := c.doneGlobs ++ c.glob.toList, glob := some { name := name },
               secOrder := c.secOrder ++ [false] }
  | .dataAttributes a => c.withGlob (fun g => { g with attrs := a })
  | .addDatum off sz =>
      match c.glob with
      | none => c.addErr .noGlobal      -- the datum lands in an empty throw-away section: no overlap
      | some g => if g.overlapsAny off sz then c.addErr .overlap else { c with glob := some (g.add off sz) }
  | .addDatumNeg _ _ =>
      -- refused before anything is looked at; the section is left alone.  (Without an active
      -- section the real call records two messages — one per thing wrong with it — which this
      -- one-message-per-request machine does not express: such calls are not issued.)
      c.addErr (if c.glob.isNone then .noGlobal else .negOffset)
  | .appendDatum sz => c.withGlob (fun g => g.add g.size sz)
  | .constraints cs => if constraintsValid tc cs then { c with cons := cs } else c.addErr .constraint
  | .constraint k =>
      if constraintsValid tc (c.cons ++ [k]) then { c with cons := c.cons ++ [k] } else c.addErr .constraint
  | .constraintExpr text =>
      -- ParseConstraint validates every option; then Constraint(k)
      if constraintValid tc (parseConstraint text) then
        (if constraintsValid tc (c.cons ++ [parseConstraint text]) then
          { c with cons := c.cons ++ [parseConstraint text] } else c.addErr .constraint)
      else c.addErr .constraint
  | .pressure name kind n => (c.newFn name).addNode (.press kind n)
  | .implement _ => c.addErr .noPackage
  | .nilArg _ => c

def run (tc : Char → Bool) (c : Ctx) (ops : List Op) : Ctx := ops.foldl (step tc) c

/-- `Context.Result()`'s error part. -/
inductive Result where
  | ok
  | error (es : List ErrClass)
  deriving DecidableEq, Repr

def result (c : Ctx) : Result := if c.errs.isEmpty then .ok else .error c.errs

/-! ## Compile-time (pass) faults of a function -/

inductive PassErr where
  | memBase       -- "bad memory operand: missing base register"
  | memScale      -- "bad memory operand: index register with scale 0"
  | dupLabel      -- duplicate label "x"
  | endLabel      -- "function ends with label"
  | unknownLabel  -- unknown label "x"
  | alloc         -- "failed to allocate registers"
  deriving DecidableEq, Repr

def PassErr.tag : PassErr → String
  | .memBase => "membase" | .memScale => "memscale" | .dupLabel => "duplabel"
  | .endLabel => "endlabel" | .unknownLabel => "unklabel" | .alloc => "alloc"

def Opnd.memFaults : Opnd → List PassErr
  | .mem none _ _ => [.memBase]
  | .mem (some _) (some _) 0 => [.memScale]
  | _ => []

def Node.memFaults : Node → List PassErr
  | .instr i => i.opnds.flatMap Opnd.memFaults
  | _ => []

def isJumpTo (x y : Node) : Bool :=
  match x, y with
  | .instr i, .label l => i.branch == 1 && i.target == some l
  | _, _ => false

/-- `PruneJumpToFollowingLabel`: an unconditional jump to the label that is the very next node is deleted. -/
def pruneJumps : List Node → List Node
  | [] => []
  | [x] => [x]
  | x :: y :: rest => if isJumpTo x y then pruneJumps (y :: rest) else x :: pruneJumps (y :: rest)

def Node.target : Node → Option String
  | .instr i => i.target
  | _ => none

def referenced (nodes : List Node) (l : String) : Bool := nodes.any (fun n => n.target == some l)

/-- `PruneDanglingLabels`. -/
def pruneDangling (nodes : List Node) : List Node :=
  nodes.filter (fun n => match n with
    | .label l => referenced nodes l
    | _ => true)

def Node.isInstr : Node → Bool
  | .instr _ | .press _ _ => true
  | _ => false

/-- `LabelTarget` as it should be (a label seen before — pending or already bound — is a
duplicate): returns the labels defined and the faults.  `seen` = labels so far,
`pending` = labels since the last instruction. -/
def labelScan (seen : List String) (pending : Bool) : List Node → List String × List PassErr
  | [] => (seen, if pending then [.endLabel] else [])
  | .label l :: rest =>
      let r := labelScan (l :: seen) true rest
      (r.1, if seen.contains l then .dupLabel :: r.2 else r.2)
  | .comment :: rest => labelScan seen pending rest
  | _ :: rest => labelScan seen false rest

/-- Faults of one function under the compile pipeline (set semantics: every
condition that holds, independent of the order in which passes visit them). -/
def fnPassFaults (lim : Nat → Nat) (f : Fn) : List PassErr :=
  let mem := f.nodes.flatMap Node.memFaults
  let pruned := pruneDangling (pruneJumps f.nodes)
  let (defined, lerrs) := labelScan [] false pruned
  let unk := if pruned.any (fun n => match n.target with
      | some l => !defined.contains l
      | none => false) then [PassErr.unknownLabel] else []
  let al := if f.nodes.any (fun n => match n with
      | .press k n => n > lim k
      | _ => false) then [PassErr.alloc] else []
  mem ++ lerrs ++ unk ++ al

def passFaults (lim : Nat → Nat) (fns : List Fn) : List PassErr := fns.flatMap (fnPassFaults lim)

/-! ## pass.Concat and build.Main -/

structure Pass where
  /-- a `pass.Output` (printer + writer) -/
  output : Bool
  /-- its `Execute` returns an error (an Output pass then writes nothing) -/
  fails : Bool
  deriving Repr, DecidableEq

structure Run where
  ok : Bool
  /-- number of passes whose `Execute` was called -/
  executed : Nat
  /-- positions of the Output passes that ran to completion -/
  printed : List Nat
  deriving Repr, DecidableEq

/-- `pass.Concat(passes...).Execute`: in order, stop at the first error. -/
def concatFrom (k : Nat) : List Pass → Run
  | [] => ⟨true, 0, []⟩
  | p :: ps =>
    if p.fails then ⟨false, 1, []⟩ else
    let r := concatFrom (k + 1) ps
    ⟨r.ok, r.executed + 1, if p.output then k :: r.printed else r.printed⟩

def concat (ps : List Pass) : Run := concatFrom 0 ps

/-- `LogError`: one line per error; with a limit `mx > 0`, `mx` lines and "too many errors". -/
def logLines (mx n : Nat) : Nat := if mx > 0 ∧ n > mx then mx + 1 else n

structure Outcome where
  status : Nat
  executed : Nat
  printed : List Nat
  /-- lines written to `cfg.ErrOut` -/
  diag : Nat
  deriving Repr, DecidableEq

/-- `build.Main(cfg, ctx)` with `cfg.MaxErrors = mx` and the given passes (and their outcomes). -/
def main (mx : Nat) (passes : List Pass) (c : Ctx) : Outcome :=
  match result c with
  | .error es => ⟨1, 0, [], logLines mx es.length⟩
  | .ok =>
    let r := concat passes
    ⟨if r.ok then 0 else 1, r.executed, r.printed, if r.ok then 0 else 1⟩

/-! ## The process: `build.Generate`

`Generate` hands `Main`'s result to `os.Exit` when it is not 0 and returns
normally (process exit code 0) when it is.  The "status" of a generation, as
`go generate`, make or a CI job see it, is the exit code of that process, and the
operating system keeps only the low 8 bits of the value given to `exit`
(measured on every run: request `c18exit`).  A `Main` that answers a failure with
a multiple of 256 therefore reports success. -/

/-- What the operating system keeps of `os.Exit(status)` (for negative values too: `-1 ↦ 255`). -/
def exitCode (status : Int) : Nat := (status % 256).toNat

/-- `build.Generate`'s process exit code for the given configuration. -/
def generateExit (mx : Nat) (passes : List Pass) (c : Ctx) : Nat := exitCode (main mx passes c).status

/-- Some function of the file makes the stub printer fail. -/
def stubFails (c : Ctx) : Bool := c.fns.any Fn.stubBreaks

/-- The standard configuration: `pass.Compile`, then the assembly printer (never
fails), then the stub printer (fails when `format.Source` rejects its text). -/
def stdPasses (lim : Nat → Nat) (c : Ctx) : List Pass :=
  [⟨false, !(passFaults lim c.fns).isEmpty⟩, ⟨true, false⟩, ⟨true, stubFails c⟩]

end Avo.Ctx
