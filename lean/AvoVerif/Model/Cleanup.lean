/-
Model of pass/cleanup.go: PruneJumpToFollowingLabel, PruneDanglingLabels,
PruneSelfMoves; and the register-to-register MOV semantics needed to state that
a pruned self-move has no architectural effect.  Core Lean only.
-/
import AvoVerif.Model.Func
import AvoVerif.Model.Reg
namespace Avo.Cleanup
open Avo.Func Avo.Reg

/-- Operand of a move as far as the self-move pass cares. -/
inductive MOp where
  | reg (r : R)
  | other (tag : Nat)     -- memory / immediate / …; `tag` only distinguishes operands
  deriving Repr, DecidableEq, Inhabited

/-- A node with what the clean-up passes look at. `uid` identifies the instruction. -/
structure XInstr where
  uid : Nat
  cf : Instr               -- branch flags and label operand (Func.Instr)
  opcode : String
  ops : List MOp
  deriving Repr, DecidableEq, Inhabited

inductive XNode where
  | label (l : String)
  | comment
  | instr (i : XInstr)
  deriving Repr, DecidableEq, Inhabited

def XNode.toNode : XNode → Node
  | .label l => .label l
  | .comment => .comment
  | .instr i => .instr i.cf

/-! ### PruneJumpToFollowingLabel -/

/-- Is node `n` an unconditional jump whose target label is the node `next`? -/
def jumpsToNext (n next : XNode) : Bool :=
  match n, next with
  | .instr i, .label l => i.cf.isBranch && !i.cf.isCond && i.cf.target == some l
  | _, _ => false

/-- The Go loop deletes node `i` and continues with the node that took its
place (the label), so a jump that only *becomes* adjacent to the label through
a deletion is kept (harmlessly). -/
def pruneJumps : List XNode → List XNode
  | [] => []
  | [n] => [n]
  | n :: next :: rest =>
    if jumpsToNext n next then pruneJumps (next :: rest) else n :: pruneJumps (next :: rest)

/-! ### PruneDanglingLabels -/

def referenced (nodes : List XNode) (l : String) : Bool :=
  nodes.any (fun n => match n with
    | .instr i => i.cf.isBranch && i.cf.target == some l
    | _ => false)

def pruneLabels (nodes : List XNode) : List XNode :=
  nodes.filter (fun n => match n with
    | .label l => referenced nodes l
    | _ => true)

/-! ### PruneSelfMoves -/

/-- The pass's predicate: `MOVB/MOVW/MOVQ r, r` between identical general
purpose registers (a 32-bit self-move clears the upper half and `MOVQ x, x` on a
vector register clears its upper 64 bits: those are not no-ops). -/
def isSelfMove (i : XInstr) : Bool :=
  (i.opcode == "MOVB" || i.opcode == "MOVW" || i.opcode == "MOVQ") &&
  (match i.ops with
   | [.reg a, .reg b] => decide (a = b) && idKind a.id == kindGP
   | _ => false)

/-- `removeinstructions`: the Go loop does not step back after a deletion, so
the node following a deleted one is skipped. -/
def pruneSelfMovesAux : List XNode → List XNode
  | [] => []
  | .instr i :: rest =>
    if isSelfMove i then
      (match rest with
       | [] => []
       | n :: rest' => n :: pruneSelfMovesAux rest')
    else .instr i :: pruneSelfMovesAux rest
  | n :: rest => n :: pruneSelfMovesAux rest

def pruneSelfMoves (nodes : List XNode) : List XNode := pruneSelfMovesAux nodes

/-! ### Register-to-register MOV semantics (byte lanes) -/

abbrev RegFile := Nat → Nat → Nat      -- register id → lane → value

def lanesOf (mask : Nat) : List Nat := (List.range 7).filter (fun l => mask.testBit l)

def writeLanes (σ : RegFile) (id : Nat) (vals : List (Nat × Nat)) : RegFile :=
  fun i l => if i = id then (match vals.find? (·.1 == l) with | some (_, v) => v | none => σ i l) else σ i l

/-- Which register-to-register move an opcode/operand combination is. -/
inductive MovKind where
  | plain      -- MOVB / MOVW / MOVQ between general purpose registers, or a legacy-SSE full 128-bit move
               -- (MOVAPS/MOVAPD/MOVUPS/MOVUPD/MOVOA/MOVOU) between XMM registers: copies the lanes of the operand
  | zext32     -- MOVL: copies the low 32 bits and clears bits 32–63
  | vecLow64   -- MOVQ between vector registers: copies the low 64 bits and clears bits 64–127
  | notAMove
  deriving Repr, DecidableEq

def movKind (opcode : String) (src dst : R) : MovKind :=
  if opcode = "MOVB" then
    (if (dst.mask = S8L ∨ dst.mask = S8H) ∧ (src.mask = S8L ∨ src.mask = S8H) then .plain else .notAMove)
  else if opcode = "MOVW" then (if dst.mask = S16 ∧ src.mask = S16 then .plain else .notAMove)
  else if opcode = "MOVL" then (if dst.mask = S32 ∧ src.mask = S32 then .zext32 else .notAMove)
  else if opcode = "MOVQ" then
    (if idKind dst.id = kindGP ∧ idKind src.id = kindGP then
       (if dst.mask = S64 ∧ src.mask = S64 then .plain else .notAMove)
     else if idKind dst.id = kindVector ∧ idKind src.id = kindVector ∧ dst.mask = S128 ∧ src.mask = S128 then .vecLow64
     else .notAMove)
  else if opcode = "MOVAPS" ∨ opcode = "MOVAPD" ∨ opcode = "MOVUPS" ∨ opcode = "MOVUPD" ∨ opcode = "MOVOA" ∨ opcode = "MOVOU" then
    -- legacy SSE encodings: bits 0-127 are copied, bits 128 and up of the destination are preserved
    (if idKind dst.id = kindVector ∧ idKind src.id = kindVector ∧ dst.mask = S128 ∧ src.mask = S128 then .plain else .notAMove)
  else .notAMove

/-- Effect of `MOVx src, dst` between registers on the register file:
the destination's lanes receive the source's lanes position-wise; a 32-bit
destination additionally clears lane 3 (bits 32–63); `MOVQ` between vector
registers copies lanes 0–3 and clears lane 4 (bits 64–127). -/
def execMov (opcode : String) (src dst : R) (σ : RegFile) : Option RegFile :=
  let copy := (lanesOf dst.mask).zip ((lanesOf src.mask).map (σ src.id))
  match movKind opcode src dst with
  | .plain => some (writeLanes σ dst.id copy)
  | .zext32 => some (writeLanes σ dst.id (copy ++ [(3, 0)]))
  | .vecLow64 => some (writeLanes σ dst.id ((List.range 4).map (fun l => (l, σ src.id l)) ++ [(4, 0)]))
  | .notAMove => none

end Avo.Cleanup
