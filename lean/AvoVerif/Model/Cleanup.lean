/-
Model of pass/cleanup.go: PruneJumpToFollowingLabel, PruneDanglingLabels,
PruneSelfMoves; and the register-to-register MOV semantics needed to state that
a pruned self-move has no architectural effect.  Core Lean only.
-/
import AvoVerif.Model.Func
import AvoVerif.Model.Reg
namespace Avo.Cleanup
open Avo.Func Avo.Reg

/-- Operand of a move as far as the self-move pass cares. -/
inductive MOp where
  | reg (r : R)
  | other (tag : Nat)     -- memory / immediate / …; `tag` only distinguishes operands
  deriving Repr, DecidableEq, Inhabited

/-- A node with what the clean-up passes look at. `uid` identifies the instruction. -/
structure XInstr where
  uid : Nat
  cf : Instr               -- branch flags and label operand (Func.Instr)
  opcode : String
  ops : List MOp
  deriving Repr, DecidableEq, Inhabited

inductive XNode where
  | label (l : String)
  | comment
  | instr (i : XInstr)
  deriving Repr, DecidableEq, Inhabited

def XNode.toNode : XNode → Node
  | .label l => .label l
  | .comment => .comment
  | .instr i => .instr i.cf

/-! ### PruneJumpToFollowingLabel -/

/-- Is node `n` an unconditional jump whose target label is the node `next`? -/
def jumpsToNext (n next : XNode) : Bool :=
  match n, next with
  | .instr i, .label l => i.cf.isBranch && !i.cf.isCond && i.cf.target == some l
  | _, _ => false

/-- The Go loop deletes node `i` and continues with the node that took its
place (the label), so a jump that only *becomes* adjacent to the label through
a deletion is kept (harmlessly). -/
def pruneJumps : List XNode → List XNode
  | [] => []
  | [n] => [n]
  | n :: next :: rest =>
    if jumpsToNext n next then pruneJumps (next :: rest) else n :: pruneJumps (next :: rest)

/-! ### PruneDanglingLabels -/

def referenced (nodes : List XNode) (l : String) : Bool :=
  nodes.any (fun n => match n with
    | .instr i => i.cf.isBranch && i.cf.target == some l
    | _ => false)

def pruneLabels (nodes : List XNode) : List XNode :=
  nodes.filter (fun n => match n with
    | .label l => referenced nodes l
    | _ => true)

/-! ### PruneSelfMoves -/

/-- The pass's predicate: `MOVB/MOVW/MOVQ r, r` between identical general
purpose registers (a 32-bit self-move clears the upper half and `MOVQ x, x` on a
vector register clears its upper 64 bits: those are not no-ops). -/
def isSelfMove (i : XInstr) : Bool :=
  (i.opcode == "MOVB" || i.opcode == "MOVW" || i.opcode == "MOVQ") &&
  (match i.ops with
   | [.reg a, .reg b] => decide (a = b) && idKind a.id == kindGP
   | _ => false)

/-- `removeinstructions`: the Go loop does not step back after a deletion, so
the node following a deleted one is skipped. -/
def pruneSelfMovesAux : List XNode → List XNode
  | [] => []
  | .instr i :: rest =>
    if isSelfMove i then
      (match rest with
       | [] => []
       | n :: rest' => n :: pruneSelfMovesAux rest')
    else .instr i :: pruneSelfMovesAux rest
  | n :: rest => n :: pruneSelfMovesAux rest

def pruneSelfMoves (nodes : List XNode) : List XNode := pruneSelfMovesAux nodes

/-! ### Register-to-register MOV semantics (byte lanes) -/

abbrev RegFile := Nat → Nat → Nat      -- register id → lane → value

def lanesOf (mask : Nat) : List Nat := (List.range 7).filter (fun l => mask.testBit l)

def writeLanes (σ : RegFile) (id : Nat) (vals : List (Nat × Nat)) : RegFile :=
  fun i l => if i = id then (match vals.find? (·.1 == l) with | some (_, v) => v | none => σ i l) else σ i l

/-- Which register-to-register move an opcode/operand combination is. -/
inductive MovKind where
  | plain      -- MOVB / MOVW / MOVQ between general purpose registers, or a legacy-SSE full 128-bit move
               -- (MOVAPS/MOVAPD/MOVUPS/MOVUPD/MOVOA/MOVOU) between XMM registers: copies the lanes of the operand
  | zext32     -- MOVL: copies the low 32 bits and clears bits 32–63
  | vecLow64   -- MOVQ between vector registers: copies the low 64 bits and clears bits 64–127
  | copyZero (n top : Nat)
               -- copies lanes 0..n-1 of the source, CLEARS lanes n..top-1 of the destination, preserves lanes ≥ top:
               -- VEX/EVEX full-register moves (n = lanes of the operand, top = 7: a VEX/EVEX write clears everything
               -- above the vector length up to bit 511), VMOVQ x,x (4, 7), legacy MOVSD/MOVSS x,x (4,4 / 3,3: merge),
               -- KMOVB/W/D/Q k,k (1..4, 4: zero-extended to 64 bits)
  | notAMove
  deriving Repr, DecidableEq

/-- Number of byte lanes of a vector operand (lanes = bytes {0},{1},{2,3},{4..7},{8..15},{16..31},{32..63}). -/
def vecLanes (mask : Nat) : Nat :=
  if mask = S128 then 5 else if mask = S256 then 6 else if mask = S512 then 7 else 0

/-- VEX / EVEX encoded moves of a whole XMM/YMM/ZMM register (two-operand, unmasked forms). -/
def vexFullMoves : List String :=
  ["VMOVAPD", "VMOVAPS", "VMOVUPD", "VMOVUPS", "VMOVDQA", "VMOVDQU",
   "VMOVDQA32", "VMOVDQA64", "VMOVDQU8", "VMOVDQU16", "VMOVDQU32", "VMOVDQU64"]

/-- Both operands are views of the given width of vector registers. -/
def bothVec (src dst : R) (mask : Nat) : Prop :=
  idKind dst.id = kindVector ∧ idKind src.id = kindVector ∧ dst.mask = mask ∧ src.mask = mask

instance (src dst : R) (mask : Nat) : Decidable (bothVec src dst mask) := by unfold bothVec; infer_instance

/-- `MOVQ` and its assembler aliases `MOVD`, `MOVDQ2Q` between two registers of one file. -/
def movqKind (src dst : R) : MovKind :=
  if idKind dst.id = kindGP ∧ idKind src.id = kindGP then
    (if dst.mask = S64 ∧ src.mask = S64 then .plain else .notAMove)
  else if bothVec src dst S128 then .vecLow64
  else .notAMove

/-- The move opcodes beyond MOVB/MOVW/MOVL/MOVQ and the legacy full SSE moves. -/
def movKindExt (opcode : String) (src dst : R) : MovKind :=
  if vexFullMoves.contains opcode then
    (if idKind dst.id = kindVector ∧ idKind src.id = kindVector ∧ dst.mask = src.mask ∧ vecLanes dst.mask ≠ 0
     then .copyZero (vecLanes dst.mask) 7 else .notAMove)
  else if opcode = "VMOVQ" then (if bothVec src dst S128 then .copyZero 4 7 else .notAMove)
  else if opcode = "MOVD" ∨ opcode = "MOVDQ2Q" then movqKind src dst
  else if opcode = "MOVO" then (if bothVec src dst S128 then .plain else .notAMove)   -- = MOVOA
  else if opcode = "MOVSD" then (if bothVec src dst S128 then .copyZero 4 4 else .notAMove)
  else if opcode = "MOVSS" then (if bothVec src dst S128 then .copyZero 3 3 else .notAMove)
  else if idKind dst.id = kindOpmask ∧ idKind src.id = kindOpmask ∧ dst.mask = S64 ∧ src.mask = S64 then
    (if opcode = "KMOVB" then .copyZero 1 4
     else if opcode = "KMOVW" then .copyZero 2 4
     else if opcode = "KMOVD" then .copyZero 3 4
     else if opcode = "KMOVQ" then .copyZero 4 4
     else .notAMove)
  else .notAMove

def movKind (opcode : String) (src dst : R) : MovKind :=
  if opcode = "MOVB" then
    (if (dst.mask = S8L ∨ dst.mask = S8H) ∧ (src.mask = S8L ∨ src.mask = S8H) then .plain else .notAMove)
  else if opcode = "MOVW" then (if dst.mask = S16 ∧ src.mask = S16 then .plain else .notAMove)
  else if opcode = "MOVL" then (if dst.mask = S32 ∧ src.mask = S32 then .zext32 else .notAMove)
  else if opcode = "MOVQ" then
    (if idKind dst.id = kindGP ∧ idKind src.id = kindGP then
       (if dst.mask = S64 ∧ src.mask = S64 then .plain else .notAMove)
     else if idKind dst.id = kindVector ∧ idKind src.id = kindVector ∧ dst.mask = S128 ∧ src.mask = S128 then .vecLow64
     else .notAMove)
  else if opcode = "MOVAPS" ∨ opcode = "MOVAPD" ∨ opcode = "MOVUPS" ∨ opcode = "MOVUPD" ∨ opcode = "MOVOA" ∨ opcode = "MOVOU" then
    -- legacy SSE encodings: bits 0-127 are copied, bits 128 and up of the destination are preserved
    (if idKind dst.id = kindVector ∧ idKind src.id = kindVector ∧ dst.mask = S128 ∧ src.mask = S128 then .plain else .notAMove)
  else movKindExt opcode src dst

/-- Effect of `MOVx src, dst` between registers on the register file:
the destination's lanes receive the source's lanes position-wise; a 32-bit
destination additionally clears lane 3 (bits 32–63); `MOVQ` between vector
registers copies lanes 0–3 and clears lane 4 (bits 64–127). -/
def execMov (opcode : String) (src dst : R) (σ : RegFile) : Option RegFile :=
  let copy := (lanesOf dst.mask).zip ((lanesOf src.mask).map (σ src.id))
  match movKind opcode src dst with
  | .plain => some (writeLanes σ dst.id copy)
  | .zext32 => some (writeLanes σ dst.id (copy ++ [(3, 0)]))
  | .vecLow64 => some (writeLanes σ dst.id ((List.range 4).map (fun l => (l, σ src.id l)) ++ [(4, 0)]))
  | .copyZero n top => some (fun i l =>
      if i = dst.id then (if l < n then σ src.id l else if l < top then 0 else σ i l) else σ i l)
  | .notAMove => none

/-- A kind of move whose self-move (same register on both sides) is the identity on every register file. -/
def isNoopKind : MovKind → Bool
  | .plain => true
  | .copyZero n top => decide (top ≤ n)
  | _ => false

/-! ### Masked (EVEX, opmask) register-to-register moves: `OPC src, k, dst`

Each element of the destination below the vector length receives the source
element where the mask bit is set and otherwise keeps its value (merge
masking) or becomes zero (zeroing masking, opcode suffix `.Z`); everything
above the vector length is cleared.  Elements are finer than the byte lanes of
the register model, so the per-lane outcome is an arbitrary *blend* of the new
and the old lane value that may depend on the mask register and the lane — with
the one law that blending a value with itself gives that value. -/

structure Blend where
  sel : (Nat → Nat) → Nat → Nat → Nat → Nat     -- mask register lanes, lane, new value, old value
  same : ∀ m l x, sel m l x x = x

/-- EVEX moves that accept an opmask operand. -/
def maskableMoves : List String :=
  ["VMOVAPD", "VMOVAPS", "VMOVUPD", "VMOVUPS",
   "VMOVDQA32", "VMOVDQA64", "VMOVDQU8", "VMOVDQU16", "VMOVDQU32", "VMOVDQU64"]

/-- `(lanes of the operand, zeroing?)` of a masked move; the request encodes suffixes into the opcode (`VMOVDQU32.Z`). -/
def maskedKind (opcode : String) (src k dst : R) : Option (Nat × Bool) :=
  if idKind dst.id = kindVector ∧ idKind src.id = kindVector ∧ idKind k.id = kindOpmask ∧
      dst.mask = src.mask ∧ vecLanes dst.mask ≠ 0 then
    (if maskableMoves.contains opcode then some (vecLanes dst.mask, false)
     else if (maskableMoves.map (· ++ ".Z")).contains opcode then some (vecLanes dst.mask, true)
     else none)
  else none

def execMovMasked (B : Blend) (opcode : String) (src k dst : R) (σ : RegFile) : Option RegFile :=
  match maskedKind opcode src k dst with
  | none => none
  | some (n, z) => some (fun i l =>
      if i = dst.id then
        (if l < n then B.sel (σ k.id) l (σ src.id l) (if z then 0 else σ dst.id l)
         else if l < 7 then 0 else σ i l)
      else σ i l)

/-- A merge-masked move of a whole ZMM register. -/
def isNoopMasked (opcode : String) (src k dst : R) : Bool :=
  maskedKind opcode src k dst == some (7, false)

end Avo.Cleanup
