/-
Executable acceptors of property C13: they judge the IMPLEMENTATION'S OWN
output (its accept/reject decisions, final data list and size, its printed
lines, the bytes read from the assembled symbol).  Core Lean only; the
soundness theorems relating them to the declarative statements are in
Props/C13Accept.lean.
-/
import AvoVerif.Model.Data
import AvoVerif.Model.Float
namespace Avo.Data
open Avo.NumText

/-- The two data share a byte (executable form of `ShareByte`). -/
def shareB (d o : Datum) : Bool :=
  decide (0 < d.val.size) && decide (0 < o.val.size) && decide (d.lo < o.hi) && decide (o.lo < d.hi)

/-- A call with what the implementation did: an append carries the offset the
implementation chose for it. -/
inductive AOp where
  | place (off : Int) (v : Const)
  | append (off : Int) (v : Const)
  | grow (n : Int)
  deriving Repr, DecidableEq

/-- Add the message when the condition holds. -/
def addIf (c : Bool) (ps : List String) (m : String) : List String := if c then ps ++ [m] else ps

/-- The model's view of the call (the offset an append got is the implementation's business). -/
def AOp.untag : AOp → Op
  | .place off v => .place off v
  | .append _ v => .append v
  | .grow n => .grow n

/-- Replay the call sequence with the implementation's own decisions
(`flags`): state = the data accepted so far and the furthest extent so far
(`cur` = max of 0, every accepted end, every grow).  Collects the problems:
* an accepted placement at a negative offset (no byte of the symbol is there);
* an accepted placement / append sharing a byte with an earlier accepted datum;
* a rejected placement that neither is negative nor meets Go's interval test
  against an earlier accepted datum;
* an append that is rejected or not at the furthest extent; a rejected grow. -/
def replay : List AOp → List Bool → List Datum → Int → List String → List String × List Datum × Int
  | [], [], acc, cur, ps => (ps, acc, cur)
  | .place off v :: ops, f :: fs, acc, cur, ps =>
    if f then
      replay ops fs (acc ++ [⟨off, v⟩]) (max cur (Datum.hi ⟨off, v⟩))
        (addIf (acc.any (shareB ⟨off, v⟩))
          (addIf (decide (off < 0)) ps "bad-negative-offset-accepted") "bad-overlap-accepted")
    else
      replay ops fs acc cur
        (addIf (!(decide (off < 0) || acc.any (overlaps ⟨off, v⟩))) ps "bad-spurious-reject")
  | .append off v :: ops, f :: fs, acc, cur, ps =>
    replay ops fs (acc ++ [⟨off, v⟩]) (max cur (Datum.hi ⟨off, v⟩))
      (addIf (acc.any (shareB ⟨off, v⟩))
        (addIf (decide (off ≠ cur)) (addIf (!f) ps "bad-append-rejected") "bad-append-offset") "bad-append-overlaps")
  | .grow n :: ops, f :: fs, acc, cur, ps => replay ops fs acc (max cur n) (addIf (!f) ps "bad-grow-rejected")
  | _, _, acc, cur, ps => (ps ++ ["bad-flag-count"], acc, cur)

def removeFirst (p : Datum → Bool) : List Datum → Option (List Datum)
  | [] => none
  | d :: ds => if p d then some ds else (removeFirst p ds).map (d :: ·)

/-- `have_` holds exactly the data `want` (as multisets). -/
def matchAll : List Datum → List Datum → Bool
  | [], have_ => have_.isEmpty
  | w :: ws, have_ =>
    match removeFirst (fun d => d == w) have_ with
    | none => false
    | some rest => matchAll ws rest

def pairwiseB : List Datum → Bool
  | [] => true
  | d :: ds => !ds.any (shareB d) && pairwiseB ds

def growsOf : List AOp → List Int
  | [] => []
  | .grow n :: ops => n :: growsOf ops
  | _ :: ops => growsOf ops

/-- The layout clauses of the property, checked directly on the final state the
implementation reports: data pairwise byte-disjoint, each inside `[0, size)`,
every grow honoured, and the size attained (0, a datum end or a grow). -/
def layoutB (data : List Datum) (size : Int) (grows : List Int) : Bool :=
  decide (0 ≤ size) && pairwiseB data &&
  data.all (fun d => decide (0 ≤ d.lo) && decide (d.hi ≤ size)) &&
  grows.all (fun n => decide (n ≤ size)) &&
  (size == 0 || data.any (fun d => d.hi == size) || grows.contains size)

/-- Problems of the final state the implementation reports, given the data the
replay accepted (`placed`) and the furthest extent it computed (`cur`). -/
def finalProblems (placed data : List Datum) (size cur : Int) : List String :=
  addIf (size != cur)
    (addIf (data.any (fun d => decide (size < d.hi)))
      (addIf (data.any (fun d => decide (d.lo < 0)))
        (addIf (!pairwiseB data)
          (addIf (!matchAll placed data) [] "bad-data-list")
          "bad-overlap-in-section")
        "bad-negative-offset-accepted")
      "bad-outside-section")
    "bad-size-not-furthest-extent"

def rawProblems (ops : List AOp) (flags : List Bool) (data : List Datum) (size : Int) : List String :=
  let r := replay ops flags [] 0 []
  r.1 ++ finalProblems r.2.1 data size r.2.2

/-- The problems of one section, for the verdict (classification). -/
def dataProblems (ops : List AOp) (flags : List Bool) (data : List Datum) (size : Int) : List String :=
  (rawProblems ops flags data size).eraseDups

/-- The acceptor: the layout clauses hold of the reported final state AND the
replay of the decisions finds no problem. -/
def acceptData (ops : List AOp) (flags : List Bool) (data : List Datum) (size : Int) : Bool :=
  layoutB data size (growsOf ops) && (rawProblems ops flags data size).isEmpty

/-- Verdict text: `ok`, or the problems joined by `+`. -/
def dataVerdict (ops : List AOp) (flags : List Bool) (data : List Datum) (size : Int) : String :=
  if acceptData ops flags data size then "ok"
  else
    let ps := dataProblems ops flags data size
    if ps.isEmpty then "bad-layout" else "+".intercalate ps

def verdictOf (ps : List String) : String := if ps.isEmpty then "ok" else "+".intercalate ps

/-! ### Lines -/

/-- The printed lines assemble (Lean's model of cmd/asm) to the image of the
section the implementation reports. -/
def acceptLines (texts : List DataText × List Char) (g : Global) : Bool :=
  assemble Avo.Float.asmFloat texts == some (image g)

def lineOffLen (t : DataText) : Option (Int × Nat) :=
  match parseIntLit t.off, parseNat 10 t.len with
  | some o, some l => some (o, l)
  | _, _ => none

def increasingFrom : List DataText → Int → Bool
  | [], _ => true
  | t :: ts, last =>
    match lineOffLen t with
    | some (o, l) => decide (last ≤ o) && increasingFrom ts (o + l)
    | none => true

/-- Insert by (offset, length) — zero-length entries first at equal offsets. -/
def insertLine (t : DataText) : List DataText → List DataText
  | [] => [t]
  | u :: us =>
    match lineOffLen t, lineOffLen u with
    | some (o, l), some (p, m) => if o < p ∨ (o = p ∧ l < m) then t :: u :: us else u :: insertLine t us
    | _, _ => u :: insertLine t us

def sortLines (ts : List DataText) : List DataText := ts.foldl (fun acc t => insertLine t acc) []

/-- Why the lines are not accepted (classification only; `acceptLines` decides). -/
def linesVerdict (texts : List DataText × List Char) (g : Global) : String :=
  match assemble Avo.Float.asmFloat texts with
  | some img => if img == image g then "ok" else "bad-lines-image"
  | none =>
    if texts.1.any (fun t => match lineOffLen t with | some (o, _) => decide (o < 0) | none => false) then
      "bad-lines-negative-offset"
    else if !increasingFrom texts.1 0 then
      -- out of order (finding F14): in offset order they must still give the image
      if assemble Avo.Float.asmFloat (sortLines texts.1, texts.2) == some (image g) then
        "bad-lines-not-in-increasing-order"
      else "bad-lines-not-in-increasing-order+bad-lines-image"
    else "bad-lines-do-not-assemble"

/-! ### Measured bytes -/

/-- The bytes read from the assembled, linked and running symbol are the image. -/
def acceptBytes (bytes : List Nat) (g : Global) : Bool := bytes == image g

end Avo.Data
