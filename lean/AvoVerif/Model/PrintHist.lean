/-
C11 over call histories in one process.  Model of what `printer.NewGoAsm(cfg).Print(f)`
returns when the same `*ir.File` / `*ir.Function` / `*ir.Instruction` objects are
looked at through their accessors (`OpcodeWithSuffixes`, `Instructions`, `Labels`,
`Stub`, `Signature.String`, `Attributes.Asm`, the stub printer, …), printed,
MUTATED IN PLACE (opcode, suffix list of the same or another length, operands,
flags, labels renamed, nodes inserted / removed / replaced, name, attributes,
signature, frame, ISA list, doc, pragmas, includes, constraints, sections added /
removed / replaced, data) and printed again — any number of times, by any number of
printer objects, several files alternating, files dropped and allocated again.

The point of the model: the text of a print is `render (printFile …)` of the
file's content AT THAT MOMENT (`printOut`), a function of nothing else: not of
what was printed or asked before, not of another file, not of a former file in
the same slot.  Inspections are steps that change nothing.  Core Lean only; the
definitions of Model/Print are used as they are.
-/
import AvoVerif.Model.Print
namespace Avo.Print.Hist
open Avo.Print

/-! ### positional list edits (total: an index out of range changes nothing / appends) -/

def modAt {α} (g : α → α) : List α → Nat → List α
  | [], _ => []
  | x :: xs, 0 => g x :: xs
  | x :: xs, n + 1 => x :: modAt g xs n

def insAt {α} (xs : List α) (n : Nat) (y : α) : List α := xs.take n ++ y :: xs.drop n

def delAt {α} (xs : List α) (n : Nat) : List α := xs.take n ++ xs.drop (n + 1)

/-! ### edits -/

/-- Assignments to the fields of one `*ir.Instruction` that the printer reads. -/
inductive IEdit where
  | opcode (o : Txt)
  | suffixes (s : List Txt)
  | operands (ops : List Txt)
  /-- `IsTerminal`, and `IsBranch && !IsConditional` -/
  | flags (term ubr : Bool)
  deriving Repr, DecidableEq

def applyIEdit (i : Instr) : IEdit → Instr
  | .opcode o => { i with opcode := o }
  | .suffixes s => { i with suffixes := s }
  | .operands ops => { i with operands := ops }
  | .flags t u => { i with isTerminal := t, isUncondBranch := u }

/-- Changes of one `*ir.Function`. -/
inductive FnEdit where
  | name (n : Txt)
  | attrs (a : BitVec 16)
  | frame (v : Int)
  | args (v : Int)
  | isa (l : List Txt)
  | stub (s : Txt)
  | doc (l : List Txt)
  | pragmas (l : List Pragma)
  /-- node `n`, when it is an instruction (the same object stays in the list) -/
  | instr (n : Nat) (e : IEdit)
  /-- `Nodes[n] = x`: a label renamed, other comment lines, another node -/
  | setNode (n : Nat) (x : Node)
  | insNode (n : Nat) (x : Node)
  | delNode (n : Nat)
  | nodes (ns : List Node)
  deriving Repr, DecidableEq

def editInstrNode (e : IEdit) : Node → Node
  | .instr i => .instr (applyIEdit i e)
  | x => x

def applyFnEdit (f : Function) : FnEdit → Function
  | .name n => { f with name := n }
  | .attrs a => { f with attrs := a }
  | .frame v => { f with frame := v }
  | .args v => { f with args := v }
  | .isa l => { f with isa := l }
  | .stub s => { f with stub := s }
  | .doc l => { f with doc := l }
  | .pragmas l => { f with pragmas := l }
  | .instr n e => { f with nodes := modAt (editInstrNode e) f.nodes n }
  | .setNode n x => { f with nodes := modAt (fun _ => x) f.nodes n }
  | .insNode n x => { f with nodes := insAt f.nodes n x }
  | .delNode n => { f with nodes := delAt f.nodes n }
  | .nodes ns => { f with nodes := ns }

/-- Changes of one `*ir.File`. -/
inductive Edit where
  | constraints (has : Bool) (lines : List Txt)
  | includes (l : List Txt)
  /-- section `k`, when it is a function -/
  | fn (k : Nat) (e : FnEdit)
  /-- `Sections[k] = s` (also: a data section after any change of its fields) -/
  | setSec (k : Nat) (s : Sec)
  | insSec (k : Nat) (s : Sec)
  | delSec (k : Nat)
  deriving Repr, DecidableEq

def editFnSec (e : FnEdit) : Sec → Sec
  | .fn g => .fn (applyFnEdit g e)
  | s => s

def applyEdit (f : File) : Edit → File
  | .constraints h ls => { f with hasConstraints := h, constraints := ls }
  | .includes l => { f with includes := l }
  | .fn k e => { f with sections := modAt (editFnSec e) f.sections k }
  | .setSec k s => { f with sections := modAt (fun _ => s) f.sections k }
  | .insSec k s => { f with sections := insAt f.sections k s }
  | .delSec k => { f with sections := delAt f.sections k }

/-! ### the state machine -/

inductive Op where
  /-- slot `i` := a newly built file (whatever was there is forgotten) -/
  | new (i : Nat) (f : File)
  /-- the file in slot `i` becomes garbage -/
  | drop (i : Nat)
  | edit (i : Nat) (e : Edit)
  /-- any look at the file through its accessors, the stub printer, a read-only
  pass (`what` says which; the model does not care) -/
  | inspect (i : Nat) (what : Nat)
  | print (i : Nat) (cfg : Config)
  deriving Repr, DecidableEq

def Op.slot : Op → Nat
  | .new i _ | .drop i | .edit i _ | .inspect i _ | .print i _ => i

def Op.isPrint : Op → Bool
  | .print _ _ => true
  | _ => false

def Op.isInspect : Op → Bool
  | .inspect _ _ => true
  | _ => false

/-- An operation that cannot change any file: a print or an inspection. -/
def Op.readOnly : Op → Bool
  | .print _ _ | .inspect _ _ => true
  | _ => false

/-- Slots of live files. -/
abbrev Heap := Nat → Option File

def Heap.empty : Heap := fun _ => none

def Heap.put (h : Heap) (i : Nat) (x : Option File) : Heap := fun j => if j = i then x else h j

def step (h : Heap) : Op → Heap
  | .new i f => h.put i (some f)
  | .drop i => h.put i none
  | .edit i e =>
    match h i with
    | none => h
    | some f => h.put i (some (applyEdit f e))
  | .inspect _ _ => h
  | .print _ _ => h

def heapAfter (h : Heap) (ops : List Op) : Heap := ops.foldl step h

/-- **The text of a print is the rendering of the file's current content** —
whatever was printed or inspected before (`none`: no file in the slot). -/
def printOut (names : List (Nat × String)) (h : Heap) (i : Nat) (cfg : Config) : Option Txt :=
  (h i).map (fun f => render (printFile names cfg f))

/-- Outputs of all prints of a history, in order. -/
def run (names : List (Nat × String)) : Heap → List Op → List (Option Txt)
  | _, [] => []
  | h, .print i cfg :: ops => printOut names h i cfg :: run names h ops
  | h, op :: ops => run names (step h op) ops

/-- The file a print looks at, per print of the history (for the driver). -/
def printStates : Heap → List Op → List (Option (Config × File))
  | _, [] => []
  | h, .print i cfg :: ops => (h i).map (fun f => (cfg, f)) :: printStates h ops
  | h, op :: ops => printStates (step h op) ops

end Avo.Print.Hist
