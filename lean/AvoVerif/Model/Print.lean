/-
Model of printer/goasm.go (assembly printer), printer/stubs.go (stub printer,
before its final go/format pass), printer/printer.go (GeneratedWarning) and the
parts of internal/prnt they use (Comment = TrimSpace("// " + line), NL, Printf).
Text is `List Char`; operand texts, the stub/signature text and the constraint
lines are opaque tokens produced by the real code and passed in.  Core Lean only.

  printFile / printStubs : File → List SLine        structured lines
  render                 : List SLine → Txt          bytes of the output
  splitNL / lexLine      : Txt → lines → LLine       what a reader of the text sees
  parseFile              : List LLine → summary      TEXT blocks, instructions, label bindings
-/
import AvoVerif.Model.Attr
namespace Avo.Print
open Avo.Attr

abbrev Txt := List Char

/-! ### small text helpers (own definitions, so that they can be reasoned about) -/

def joinWith (sep : Txt) : List Txt → Txt
  | [] => []
  | [x] => x
  | x :: y :: r => x ++ sep ++ joinWith sep (y :: r)

/-- `unicode.IsSpace`, the predicate of `strings.TrimSpace`. -/
def isGoSpace (c : Char) : Bool :=
  let n := c.toNat
  (9 ≤ n && n ≤ 13) || n == 32 || n == 0x85 || n == 0xA0 || n == 0x1680 ||
  (0x2000 ≤ n && n ≤ 0x200A) || n == 0x2028 || n == 0x2029 || n == 0x202F || n == 0x205F || n == 0x3000

def trimRight (t : Txt) : Txt := (t.reverse.dropWhile isGoSpace).reverse

/-- `prnt.Generator.Comment` on one line: `strings.TrimSpace("// " + line)`.
The text starts with `/`, so only the right side is ever trimmed. -/
def commentText (t : Txt) : Txt := trimRight ('/' :: '/' :: ' ' :: t)

/-- `strconv.Itoa` / `%d`. -/
def dec (i : Int) : Txt := (toString i).toList

/-- `%+d`. -/
def decPlus (i : Int) : Txt := if i < 0 then dec i else '+' :: dec i

/-- `len(s)` of a Go string: UTF-8 bytes. -/
def byteLen (t : Txt) : Nat := (t.map Char.utf8Size).sum

/-- `%-*s`: pad on the right with spaces up to `w` runes. -/
def padRight (t : Txt) (w : Nat) : Txt := t ++ List.replicate (w - t.length) ' '

/-! ### input: the structured file -/

structure Instr where
  opcode : Txt
  suffixes : List Txt
  operands : List Txt          -- `op.Asm()` of each operand
  isTerminal : Bool
  isUncondBranch : Bool        -- IsBranch && !IsConditional
  deriving Repr, DecidableEq

inductive Node where
  | instr (i : Instr)
  | label (l : Txt)
  | comment (lines : List Txt)
  deriving Repr, DecidableEq

structure Pragma where
  directive : Txt
  args : List Txt
  deriving Repr, DecidableEq

structure Function where
  name : Txt
  attrs : BitVec 16
  frame : Int                  -- FrameBytes()
  args : Int                   -- ArgumentBytes()
  isa : List Txt
  stub : Txt                   -- Stub(): "func " + name + signature text
  doc : List Txt
  pragmas : List Pragma
  nodes : List Node
  deriving Repr, DecidableEq

structure Datum where
  off : Int
  bytes : Int
  value : Txt
  deriving Repr, DecidableEq

structure Global where
  sym : Txt
  static : Bool
  attrs : BitVec 16
  size : Int
  data : List Datum
  deriving Repr, DecidableEq

inductive Sec where
  | fn (f : Function)
  | gl (g : Global)
  deriving Repr, DecidableEq

structure Config where
  name : Txt
  argv : Option (List Txt)     -- nil vs. non-nil slice
  pkg : Txt
  deriving Repr, DecidableEq

structure File where
  hasConstraints : Bool        -- len(f.Constraints) > 0
  constraints : List Txt       -- lines of buildtags.Format(f.Constraints)
  includes : List Txt
  sections : List Sec
  deriving Repr, DecidableEq

def File.functions (f : File) : List Function :=
  f.sections.filterMap (fun s => match s with | .fn g => some g | .gl _ => none)

/-! ### structured lines -/

inductive SLine where
  | blank
  | comment (t : Txt)                                        -- Generator.Comment
  | raw (t : Txt)                                            -- a constraint line, verbatim
  | incl (path : Txt)
  | text (name : Txt) (clause : Option (List Tok)) (frame args : Int)
  | instr (opc : Txt) (sufs : List Txt) (ops : List Txt) (width : Nat)
  | label (name : Txt)
  | icomment (t : Txt)
  | data (sym : Txt) (static : Bool) (off bytes : Int) (val : Txt)
  | globl (sym : Txt) (static : Bool) (attrs : List Tok) (size : Int)
  | pkg (name : Txt)
  | pragma (dir : Txt) (args : List Txt)
  | decl (stub : Txt)
  deriving Repr, DecidableEq

/-- `Instruction.OpcodeWithSuffixes`. -/
def opcodeWithSuffixes (opc : Txt) (sufs : List Txt) : Txt :=
  opc ++ sufs.flatMap (fun s => '.' :: s)

def Instr.ows (i : Instr) : Txt := opcodeWithSuffixes i.opcode i.suffixes

def tokTxt : Tok → Txt
  | .name n => n.toList
  | .num v => (toString v).toList

/-- `strings.Join(parts, "|")` of `Attribute.Asm` (the text of `Attr.asm`). -/
def toksText (ts : List Tok) : Txt := joinWith ['|'] (ts.map tokTxt)

def symText (sym : Txt) (static : Bool) : Txt := if static then sym ++ ['<', '>'] else sym

/-- `operand.NewDataAddr(sym, off).Asm()`. -/
def dataAddr (sym : Txt) (static : Bool) (off : Int) : Txt :=
  let a := symText sym static
  (if a ≠ [] then a ++ decPlus off else if off ≠ 0 then dec off else []) ++ ['(', 'S', 'B', ')']

/-- `textsize`: `$frame` and `-args` when the argument size is positive. -/
def textSize (frame args : Int) : Txt :=
  '$' :: dec frame ++ (if args > 0 then '-' :: dec args else [])

/-- Everything of the TEXT line after `(SB)`. -/
def textRest (clause : Option (List Tok)) (frame args : Int) : Txt :=
  (match clause with
   | none => []
   | some ts => [',', ' '] ++ toksText ts) ++ [',', ' '] ++ textSize frame args

def pragmaText (dir : Txt) (args : List Txt) : Txt :=
  ['/', '/', 'g', 'o', ':'] ++ dir ++ args.flatMap (fun a => ' ' :: a)

/-- One line of output, without its terminating newline. -/
def renderLine : SLine → Txt
  | .blank => []
  | .comment t => commentText t
  | .raw t => t
  | .incl p => ['#', 'i', 'n', 'c', 'l', 'u', 'd', 'e', ' ', '"'] ++ p ++ ['"']
  | .text n c f a => ['T', 'E', 'X', 'T', ' ', '·'] ++ n ++ ['(', 'S', 'B', ')'] ++ textRest c f a
  | .instr o s ops w =>
    if ops.isEmpty then '\t' :: opcodeWithSuffixes o s
    else '\t' :: padRight (opcodeWithSuffixes o s) (w + 1) ++ joinWith [',', ' '] ops
  | .label l => l ++ [':']
  | .icomment t => ['\t', '/', '/', ' '] ++ t
  | .data sym st off b v => ['D', 'A', 'T', 'A', ' '] ++ dataAddr sym st off ++ ['/'] ++ dec b ++ [',', ' '] ++ v
  | .globl sym st ats sz => ['G', 'L', 'O', 'B', 'L', ' '] ++ symText sym st ++ ['(', 'S', 'B', ')', ',', ' '] ++ toksText ats ++ [',', ' ', '$'] ++ dec sz
  | .pkg n => ['p', 'a', 'c', 'k', 'a', 'g', 'e', ' '] ++ n
  | .pragma d as => pragmaText d as
  | .decl s => s

def render (ls : List SLine) : Txt := ls.flatMap (fun l => renderLine l ++ ['\n'])

/-! ### the assembly printer -/

/-- Column width of a flushed block: the longest opcode (in bytes) among the
buffered instructions that have operands. -/
def blockWidth : List Instr → Nat
  | [] => 0
  | i :: is => if i.operands.isEmpty then blockWidth is else max (byteLen i.ows) (blockWidth is)

/-- `flush`: the buffered instructions, all with the block's width. -/
def flushBlock (buf : List Instr) : List SLine :=
  buf.map (fun i => SLine.instr i.opcode i.suffixes i.operands (blockWidth buf))

/-- `ensureclear`. -/
def ensureClear (clear : Bool) : List SLine := if clear then [] else [.blank]

/-- The node loop of `goasm.function` followed by the final `flush`, with the
printer state (buffer, clear flag) explicit. -/
def printNodes : List Node → List Instr → Bool → List SLine
  | [], buf, _ => flushBlock buf
  | .instr i :: ns, buf, _ =>
    if i.isTerminal || i.isUncondBranch then flushBlock (buf ++ [i]) ++ printNodes ns [] false
    else printNodes ns (buf ++ [i]) false
  | .label l :: ns, buf, clear =>
    flushBlock buf ++ ensureClear clear ++ [.label l] ++ printNodes ns [] true
  | .comment ls :: ns, buf, clear =>
    flushBlock buf ++ ensureClear clear ++ ls.map .icomment ++ printNodes ns [] true

def requiresLine (isa : List Txt) : List SLine :=
  if isa.isEmpty then [] else [.comment (['R', 'e', 'q', 'u', 'i', 'r', 'e', 's', ':', ' '] ++ joinWith [',', ' '] isa)]

def printFunction (names : List (Nat × String)) (f : Function) : List SLine :=
  [.blank, .comment f.stub] ++ requiresLine f.isa ++
  [.text f.name (textClause names f.attrs) f.frame f.args] ++ printNodes f.nodes [] true

def printGlobal (names : List (Nat × String)) (g : Global) : List SLine :=
  [.blank] ++ g.data.map (fun d => SLine.data g.sym g.static d.off d.bytes d.value) ++
  [.globl g.sym g.static (asmToks names g.attrs) g.size]

def printSection (names : List (Nat × String)) : Sec → List SLine
  | .fn f => printFunction names f
  | .gl g => printGlobal names g

/-- `Config.GeneratedWarning`. -/
def generatedWarning (cfg : Config) : Txt :=
  ['C', 'o', 'd', 'e', ' ', 'g', 'e', 'n', 'e', 'r', 'a', 't', 'e', 'd', ' ', 'b', 'y', ' '] ++
  (match cfg.argv with
   | none => cfg.name
   | some a => ['c', 'o', 'm', 'm', 'a', 'n', 'd', ':', ' '] ++ joinWith [' '] a) ++ ['.', ' ', 'D', 'O', ' ', 'N', 'O', 'T', ' ', 'E', 'D', 'I', 'T', '.']

/-- The constraint block: the SAME function of the file for both printers. -/
def constraintLines (f : File) : List SLine :=
  if f.hasConstraints then .blank :: f.constraints.map .raw else []

def asmConstraints (f : File) : List SLine := constraintLines f

def includeLines (f : File) : List SLine :=
  if f.includes.isEmpty then [] else .blank :: f.includes.map .incl

def asmHeader (cfg : Config) (f : File) : List SLine :=
  [.comment (generatedWarning cfg)] ++ asmConstraints f ++ includeLines f

def printFile (names : List (Nat × String)) (cfg : Config) (f : File) : List SLine :=
  asmHeader cfg f ++ f.sections.flatMap (printSection names)

/-! ### the stub printer (text handed to go/format) -/

def stubConstraints (f : File) : List SLine := constraintLines f

def stubFunction (fn : Function) : List SLine :=
  [.blank] ++ fn.doc.map .comment ++ fn.pragmas.map (fun p => SLine.pragma p.directive p.args) ++ [.decl fn.stub]

def printStubs (cfg : Config) (f : File) : List SLine :=
  [.comment (generatedWarning cfg)] ++ stubConstraints f ++ [.blank, .pkg cfg.pkg] ++
  f.functions.flatMap stubFunction

/-! ### reading the text back -/

/-- Split at every newline: `"a\nb\n"` gives `["a", "b", ""]`. -/
def splitNL : Txt → List Txt
  | [] => [[]]
  | c :: cs =>
    if c = '\n' then [] :: splitNL cs
    else match splitNL cs with
      | [] => [[c]]
      | h :: t => (c :: h) :: t

def stripPrefix : Txt → Txt → Option Txt
  | [], t => some t
  | _ :: _, [] => none
  | a :: p, b :: t => if a = b then stripPrefix p t else none

/-- What a reader sees in one line of the text. -/
inductive LLine where
  | blank
  | top (t : Txt)                 -- a line starting with `//` (whole line)
  | incl (t : Txt)                -- after `#include `
  | text (name rest : Txt)        -- `TEXT ·name(SB)rest`
  | instr (opc ops : Txt)         -- tab, opcode, spaces, operand text
  | label (name : Txt)
  | icomment (t : Txt)            -- `\t// t`
  | data (t : Txt)
  | globl (t : Txt)
  | other (t : Txt)
  deriving Repr, DecidableEq

def notSpace (c : Char) : Bool := c != ' '
def isSpaceCh (c : Char) : Bool := c == ' '
def notParen (c : Char) : Bool := c != '('

def lexTop (t : Txt) : LLine :=
  match stripPrefix ['/', '/'] t with
  | some _ => .top t
  | none =>
  match stripPrefix ['T', 'E', 'X', 'T', ' ', '·'] t with
  | some r =>
    (match stripPrefix ['(', 'S', 'B', ')'] (r.dropWhile notParen) with
     | some rest => .text (r.takeWhile notParen) rest
     | none => .other t)
  | none =>
  match stripPrefix ['#', 'i', 'n', 'c', 'l', 'u', 'd', 'e', ' '] t with
  | some r => .incl r
  | none =>
  match stripPrefix ['D', 'A', 'T', 'A', ' '] t with
  | some r => .data r
  | none =>
  match stripPrefix ['G', 'L', 'O', 'B', 'L', ' '] t with
  | some r => .globl r
  | none => if t.getLast? = some ':' then .label t.dropLast else .other t

def lexLine (t : Txt) : LLine :=
  match t with
  | [] => .blank
  | c :: r =>
    if c = '\t' then
      match stripPrefix ['/', '/', ' '] r with
      | some k => .icomment k
      | none => .instr (r.takeWhile notSpace) ((r.dropWhile notSpace).dropWhile isSpaceCh)
    else lexTop t

/-- The lines of a text that ends with a newline. -/
def lexText (t : Txt) : List LLine := ((splitNL t).dropLast).map lexLine

/-- The reader's view of a structured line (no column width, no structure
inside opaque tokens). -/
def abstract : SLine → LLine
  | .blank => .blank
  | .comment t => .top (commentText t)
  | .raw t => .top t
  | .incl p => .incl ('"' :: p ++ ['"'])
  | .text n c f a => .text n (textRest c f a)
  | .instr o s ops _ => .instr (opcodeWithSuffixes o s) (joinWith [',', ' '] ops)
  | .label l => .label l
  | .icomment t => .icomment t
  | .data sym st off b v => .data (dataAddr sym st off ++ ['/'] ++ dec b ++ [',', ' '] ++ v)
  | .globl sym st ats sz => .globl (symText sym st ++ ['(', 'S', 'B', ')', ',', ' '] ++ toksText ats ++ [',', ' ', '$'] ++ dec sz)
  | .pkg n => .other (['p', 'a', 'c', 'k', 'a', 'g', 'e', ' '] ++ n)
  | .pragma d as => .top (pragmaText d as)
  | .decl s => .other s

/-! ### parsing lexed lines into sections -/

structure FnSum where
  name : Txt
  rest : Txt                       -- `, attrs, $frame-args`
  instrs : List (Txt × Txt)        -- opcode with suffixes, operand text
  labels : List (Txt × Nat)        -- label, index of the instruction it is bound to
  deriving Repr, DecidableEq

structure GlSum where
  data : List Txt
  globl : Txt
  deriving Repr, DecidableEq

inductive SecSum where
  | fn (f : FnSum)
  | gl (g : GlSum)
  deriving Repr, DecidableEq

structure PState where
  done : List SecSum
  cur : Option FnSum
  data : List Txt
  includes : List Txt
  ok : Bool
  deriving Repr, DecidableEq

def curList : Option FnSum → List SecSum
  | none => []
  | some f => [.fn f]

def FnSum.addInstr (f : FnSum) (o a : Txt) : FnSum := { f with instrs := f.instrs ++ [(o, a)] }
def FnSum.addLabel (f : FnSum) (l : Txt) : FnSum := { f with labels := f.labels ++ [(l, f.instrs.length)] }

def step (st : PState) : LLine → PState
  | .blank => st
  | .top _ => st
  | .icomment _ => st
  | .incl p => { st with includes := st.includes ++ [p] }
  | .text n r => { st with done := st.done ++ curList st.cur, cur := some ⟨n, r, [], []⟩,
                           ok := st.ok && st.data.isEmpty }
  | .instr o a =>
    match st.cur with
    | some f => { st with cur := some (f.addInstr o a) }
    | none => { st with ok := false }
  | .label l =>
    match st.cur with
    | some f => { st with cur := some (f.addLabel l) }
    | none => { st with ok := false }
  | .data d => { st with done := st.done ++ curList st.cur, cur := none, data := st.data ++ [d] }
  | .globl g => { st with done := st.done ++ curList st.cur ++ [.gl ⟨st.data, g⟩], cur := none, data := [] }
  | .other _ => { st with ok := false }

def PState.init : PState := ⟨[], none, [], [], true⟩

def PState.finish (st : PState) : Option (List Txt × List SecSum) :=
  if st.ok && st.data.isEmpty then some (st.includes, st.done ++ curList st.cur) else none

/-- Includes and sections of an assembly text, or `none` when a line is not
where the grammar allows it. -/
def parseFile (ls : List LLine) : Option (List Txt × List SecSum) :=
  (ls.foldl step PState.init).finish

/-! ### what the file says (the right-hand side of faithfulness) -/

def Instr.key (i : Instr) : Txt × Txt := (i.ows, joinWith [',', ' '] i.operands)

def instrsOf : List Node → List Instr
  | [] => []
  | .instr i :: ns => i :: instrsOf ns
  | _ :: ns => instrsOf ns

/-- Label → index (in the function's instruction list, starting at `k`) of the
next instruction; the IR's `LabelTarget` in index form. -/
def labelsFrom : List Node → Nat → List (Txt × Nat)
  | [], _ => []
  | .instr _ :: ns, k => labelsFrom ns (k + 1)
  | .label l :: ns, k => (l, k) :: labelsFrom ns k
  | .comment _ :: ns, k => labelsFrom ns k

def fnSum (names : List (Nat × String)) (f : Function) : FnSum :=
  ⟨f.name, textRest (textClause names f.attrs) f.frame f.args,
   (instrsOf f.nodes).map Instr.key, labelsFrom f.nodes 0⟩

def glSum (names : List (Nat × String)) (g : Global) : GlSum :=
  ⟨g.data.map (fun d => dataAddr g.sym g.static d.off ++ ['/'] ++ dec d.bytes ++ [',', ' '] ++ d.value),
   symText g.sym g.static ++ ['(', 'S', 'B', ')', ',', ' '] ++ toksText (asmToks names g.attrs) ++ [',', ' ', '$'] ++ dec g.size⟩

def secSum (names : List (Nat × String)) : Sec → SecSum
  | .fn f => .fn (fnSum names f)
  | .gl g => .gl (glSum names g)

def fileSum (names : List (Nat × String)) (f : File) : List Txt × List SecSum :=
  (f.includes.map (fun p => '"' :: p ++ ['"']), f.sections.map (secSum names))

/-! ### the TEXT line's attribute clause and sizes, read back -/

def notComma (c : Char) : Bool := c != ','
def notDash (c : Char) : Bool := c != '-'

/-- `$frame` or `$frame-args` (frame non-negative). -/
def parseSize (t : Txt) : Option (Int × Int) :=
  match t with
  | '$' :: r =>
    let fr := r.takeWhile notDash
    match (String.ofList fr).toInt? with
    | none => none
    | some f =>
      match r.dropWhile notDash with
      | [] => some (f, 0)
      | _ :: a => (String.ofList a).toInt?.map (fun x => (f, x))
  | _ => none

/-- `, $size` or `, attrs, $size` → (attribute text, frame, args). -/
def parseTextRest (t : Txt) : Option (Option Txt × Int × Int) :=
  match stripPrefix [',', ' '] t with
  | none => none
  | some r =>
    match r with
    | '$' :: _ => (parseSize r).map (fun p => (none, p.1, p.2))
    | _ =>
      match stripPrefix [',', ' '] (r.dropWhile notComma) with
      | none => none
      | some s => (parseSize s).map (fun p => (some (r.takeWhile notComma), p.1, p.2))

/-! ### stubs read back (structured lines, before go/format) -/

/-- One declaration with the comment lines directly above it. -/
structure DeclSum where
  doc : List Txt
  pragmas : List Pragma
  decl : Txt
  deriving Repr, DecidableEq

structure SState where
  pkg : Option Txt
  doc : List Txt
  prag : List Pragma
  decls : List DeclSum
  ok : Bool
  deriving Repr, DecidableEq

/-- Doc lines must come before the directives of a declaration, directives
directly before the `func` line, one package clause before any declaration. -/
def sstep (st : SState) : SLine → SState
  | .blank => { st with ok := st.ok && st.doc.isEmpty && st.prag.isEmpty }
  | .comment t =>
    if st.pkg.isNone then st
    else { st with doc := st.doc ++ [t], ok := st.ok && st.prag.isEmpty }
  | .raw _ => { st with ok := st.ok && st.pkg.isNone }
  | .pkg n => { st with pkg := some n, ok := st.ok && st.pkg.isNone }
  | .pragma d a => { st with prag := st.prag ++ [⟨d, a⟩], ok := st.ok && st.pkg.isSome }
  | .decl s => { st with decls := st.decls ++ [⟨st.doc, st.prag, s⟩], doc := [], prag := [],
                         ok := st.ok && st.pkg.isSome }
  | _ => { st with ok := false }

def SState.init : SState := ⟨none, [], [], [], true⟩

def parseStubs (ls : List SLine) : Option (Txt × List DeclSum) :=
  let st := ls.foldl sstep SState.init
  match st.pkg with
  | some p => if st.ok && st.doc.isEmpty && st.prag.isEmpty then some (p, st.decls) else none
  | none => none

def declSum (fn : Function) : DeclSum := ⟨fn.doc, fn.pragmas, fn.stub⟩

/-! ### token hypotheses under which the text can be read back (used by Props/C11Text) -/

def NoNL (t : Txt) : Prop := '\n' ∉ t

/-- No reserved line prefix: what makes a line a label line. -/
def LabelOK (l : Txt) : Prop :=
  let t := l ++ [':']
  t.head? ≠ some '\t' ∧
  stripPrefix ['/', '/'] t = none ∧ stripPrefix ['T', 'E', 'X', 'T', ' ', '·'] t = none ∧
  stripPrefix ['#', 'i', 'n', 'c', 'l', 'u', 'd', 'e', ' '] t = none ∧ stripPrefix ['D', 'A', 'T', 'A', ' '] t = none ∧
  stripPrefix ['G', 'L', 'O', 'B', 'L', ' '] t = none

/-- Token hypotheses of one structured line of an assembly file. -/
def WFLine : SLine → Prop
  | .blank => True
  | .comment _ => True
  | .raw t => (stripPrefix ['/', '/'] t).isSome = true
  | .incl _ => True
  | .text n _ _ _ => '(' ∉ n
  | .instr o s ops w =>
    let ows := opcodeWithSuffixes o s
    ' ' ∉ ows ∧ ows.head? ≠ some '/' ∧ (joinWith [',', ' '] ops).head? ≠ some ' ' ∧
      (ops ≠ [] → ows.length ≤ w)
  | .label l => LabelOK l
  | .icomment _ => True
  | .data .. => True
  | .globl .. => True
  | .pkg _ => False
  | .pragma .. => False
  | .decl _ => False

/-- Flag names of the attribute table contain no newline. -/
def NamesOK (names : List (Nat × String)) : Prop := ∀ p ∈ names, NoNL p.2.toList

/-- Token hypotheses of an instruction. -/
structure WFInstr (i : Instr) : Prop where
  nonl : NoNL i.ows
  nosp : ' ' ∉ i.ows
  noslash : i.ows.head? ≠ some '/'
  ops_nonl : ∀ o ∈ i.operands, NoNL o
  ops_head : (joinWith [',', ' '] i.operands).head? ≠ some ' '

def WFNode : Node → Prop
  | .instr i => WFInstr i
  | .label l => NoNL l ∧ LabelOK l
  | .comment ls => ∀ l ∈ ls, NoNL l

structure WFFn (f : Function) : Prop where
  name_nonl : NoNL f.name
  name_paren : '(' ∉ f.name
  stub : NoNL f.stub
  isa : ∀ x ∈ f.isa, NoNL x
  nodes : ∀ n ∈ f.nodes, WFNode n

structure WFGl (g : Global) : Prop where
  sym : NoNL g.sym
  vals : ∀ d ∈ g.data, NoNL d.value

def WFSec : Sec → Prop
  | .fn f => WFFn f
  | .gl g => WFGl g

/-- The explicit token hypotheses of `print_faithful`: no newline in any
token; names without `(`; opcodes without space, not starting with `/`;
operand text not starting with a space; labels not starting with a reserved
line prefix; constraint lines are `//` comments. -/
structure WFFile (names : List (Nat × String)) (cfg : Config) (f : File) : Prop where
  names : NamesOK names
  cfgname : NoNL cfg.name
  argv : ∀ a ∈ cfg.argv.getD [], NoNL a
  cons : ∀ c ∈ f.constraints, NoNL c ∧ (stripPrefix ['/', '/'] c).isSome = true
  incl : ∀ p ∈ f.includes, NoNL p
  secs : ∀ s ∈ f.sections, WFSec s


/-! Decidability of the hypotheses (so that they can be evaluated on concrete files). -/

instance (t : Txt) : Decidable (NoNL t) := by unfold NoNL; exact inferInstance
instance (l : Txt) : Decidable (LabelOK l) := by unfold LabelOK; exact inferInstance
instance (names) : Decidable (NamesOK names) := by unfold NamesOK; exact inferInstance

instance (i : Instr) : Decidable (WFInstr i) :=
  decidable_of_iff (NoNL i.ows ∧ ' ' ∉ i.ows ∧ i.ows.head? ≠ some '/' ∧ (∀ o ∈ i.operands, NoNL o) ∧
      (joinWith [',', ' '] i.operands).head? ≠ some ' ')
    ⟨fun ⟨a, b, c, d, e⟩ => ⟨a, b, c, d, e⟩, fun h => ⟨h.1, h.2, h.3, h.4, h.5⟩⟩

instance : (n : Node) → Decidable (WFNode n)
  | .instr i => inferInstanceAs (Decidable (WFInstr i))
  | .label l => inferInstanceAs (Decidable (NoNL l ∧ LabelOK l))
  | .comment ls => inferInstanceAs (Decidable (∀ l ∈ ls, NoNL l))

instance (f : Function) : Decidable (WFFn f) :=
  decidable_of_iff (NoNL f.name ∧ '(' ∉ f.name ∧ NoNL f.stub ∧ (∀ x ∈ f.isa, NoNL x) ∧ ∀ n ∈ f.nodes, WFNode n)
    ⟨fun ⟨a, b, c, d, e⟩ => ⟨a, b, c, d, e⟩, fun h => ⟨h.1, h.2, h.3, h.4, h.5⟩⟩

instance (g : Global) : Decidable (WFGl g) :=
  decidable_of_iff (NoNL g.sym ∧ ∀ d ∈ g.data, NoNL d.value) ⟨fun ⟨a, b⟩ => ⟨a, b⟩, fun h => ⟨h.1, h.2⟩⟩

instance : (s : Sec) → Decidable (WFSec s)
  | .fn f => inferInstanceAs (Decidable (WFFn f))
  | .gl g => inferInstanceAs (Decidable (WFGl g))

instance (names cfg f) : Decidable (WFFile names cfg f) :=
  decidable_of_iff (NamesOK names ∧ NoNL cfg.name ∧ (∀ a ∈ cfg.argv.getD [], NoNL a) ∧
      (∀ c ∈ f.constraints, NoNL c ∧ (stripPrefix ['/', '/'] c).isSome = true) ∧ (∀ p ∈ f.includes, NoNL p) ∧
      ∀ s ∈ f.sections, WFSec s)
    ⟨fun ⟨a, b, c, d, e, g⟩ => ⟨a, b, c, d, e, g⟩, fun h => ⟨h.1, h.2, h.3, h.4, h.5, h.6⟩⟩

end Avo.Print
