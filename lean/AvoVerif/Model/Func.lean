/-
Model of pass/cfg.go: LabelTarget and CFG over a function's node list.
Core Lean only.
-/
namespace Avo.Func

/-- What the CFG passes look at in an instruction. `labelOp` is the label name
when the first operand is a `LabelRef` (what `TargetLabel` inspects). -/
structure Instr where
  isBranch : Bool
  isCond : Bool
  isTerminal : Bool
  labelOp : Option String
  deriving Repr, DecidableEq, Inhabited

inductive Node where
  | label (l : String)
  | comment
  | instr (i : Instr)
  deriving Repr, DecidableEq, Inhabited

inductive Err where
  | dupLabel | trailingLabel | noLabel | unknownLabel
  deriving Repr, DecidableEq, Inhabited

/-- `Instruction.TargetLabel`. -/
def Instr.target (i : Instr) : Option String :=
  if i.isBranch then i.labelOp else none

def Instr.isUncond (i : Instr) : Bool := i.isBranch && !i.isCond

def instrs : List Node → List Instr
  | [] => []
  | .instr i :: ns => i :: instrs ns
  | _ :: ns => instrs ns

/-! ### LabelTarget (the algorithm) -/

/-- State of the `LabelTarget` loop: resolved labels (name ↦ instruction index),
pending labels, number of instructions seen. -/
structure LTState where
  target : List (String × Nat)
  pending : List String
  count : Nat
  deriving Repr

def ltStep (s : LTState) : Node → Except Err LTState
  | .label l =>
    if (s.target.any (·.1 == l)) || s.pending.contains l then .error .dupLabel
    else .ok { s with pending := s.pending ++ [l] }
  | .instr _ =>
    .ok { target := s.target ++ s.pending.map (·, s.count), pending := [], count := s.count + 1 }
  | .comment => .ok s

def ltLoop (s : LTState) : List Node → Except Err LTState
  | [] => .ok s
  | n :: ns => match ltStep s n with
    | .error e => .error e
    | .ok s' => ltLoop s' ns

/-- `pass.LabelTarget`: label name ↦ index (among instructions) of the
following instruction. -/
def labelTarget (nodes : List Node) : Except Err (List (String × Nat)) :=
  match ltLoop ⟨[], [], 0⟩ nodes with
  | .error e => .error e
  | .ok s => if s.pending.isEmpty then .ok s.target else .error .trailingLabel

def lookupLabel (m : List (String × Nat)) (l : String) : Option Nat :=
  (m.find? (·.1 == l)).map (·.2)

/-! ### LabelTarget (the specification) -/

def labels : List Node → List String
  | [] => []
  | .label l :: ns => l :: labels ns
  | _ :: ns => labels ns

def hasInstr : List Node → Bool
  | [] => false
  | .instr _ :: _ => true
  | _ :: ns => hasInstr ns

/-- Index of the first instruction after the first occurrence of label `l`,
counting instructions from `k` (number of instructions before the list). -/
def firstInstrAfter (l : String) : Nat → List Node → Option Nat
  | _, [] => none
  | k, .label l' :: ns => if l' == l then (if hasInstr ns then some k else none) else firstInstrAfter l k ns
  | k, .instr _ :: ns => firstInstrAfter l (k + 1) ns
  | k, .comment :: ns => firstInstrAfter l k ns

/-- Some label has no instruction after it. -/
def trailingLabel : List Node → Bool
  | [] => false
  | .label _ :: ns => !hasInstr ns || trailingLabel ns
  | _ :: ns => trailingLabel ns

/-! ### CFG -/

/-- Successor entry: `none` is the Go `nil` successor (fall off the end). -/
abbrev Succ := List (Option Nat)

def succOf (m : List (String × Nat)) (n : Nat) (idx : Nat) (i : Instr) : Except Err Succ :=
  let fall : Succ := if i.isTerminal || i.isUncond then [] else [if idx + 1 < n then some (idx + 1) else none]
  if i.isBranch then
    match i.target with
    | none => .error .noLabel
    | some l => match lookupLabel m l with
      | none => .error .unknownLabel
      | some t => .ok (some t :: fall)
  else .ok fall

def succLoop (m : List (String × Nat)) (n : Nat) : Nat → List Instr → Except Err (List Succ)
  | _, [] => .ok []
  | idx, i :: is => match succOf m n idx i with
    | .error e => .error e
    | .ok s => match succLoop m n (idx + 1) is with
      | .error e => .error e
      | .ok ss => .ok (s :: ss)

/-- Predecessors of instruction `i`: every `j` that lists `i` as a successor,
once per occurrence, in order of `j`. -/
def predOf (succs : List Succ) (i : Nat) : List Nat :=
  (List.range succs.length).flatMap (fun j => ((succs.getD j []).filter (· == some i)).map (fun _ => j))

structure Graph where
  succ : List Succ
  pred : List (List Nat)
  deriving Repr

/-- `LabelTarget` followed by `CFG`. -/
def buildCFG (nodes : List Node) : Except Err Graph :=
  match labelTarget nodes with
  | .error e => .error e
  | .ok m =>
    let is := instrs nodes
    match succLoop m is.length 0 is with
    | .error e => .error e
    | .ok ss => .ok ⟨ss, (List.range is.length).map (predOf ss)⟩

end Avo.Func
