/-
C12: what a reader sees in the TEXT of a stub file (the bytes, after go/format),
and the executable acceptors the driver runs on the real printer output.
Core Lean only.  The declarative statements and the soundness theorems are in
Props/C12.lean.
-/
import AvoVerif.Model.Print
namespace Avo.Print

def hasPrefix (p : Txt) (t : Txt) : Bool := (stripPrefix p t).isSome

def kwSlashes : Txt := ['/', '/']
def kwDirective : Txt := ['/', '/', 'g', 'o', ':']
def kwGoBuild : Txt := ['/', '/', 'g', 'o', ':', 'b', 'u', 'i', 'l', 'd']
def kwPlusBuild : Txt := ['/', '/', ' ', '+', 'b', 'u', 'i', 'l', 'd']
def kwInclude : Txt := ['#', 'i', 'n', 'c', 'l', 'u', 'd', 'e']
def kwPackage : Txt := ['p', 'a', 'c', 'k', 'a', 'g', 'e', ' ']
def kwFunc : Txt := ['f', 'u', 'n', 'c', ' ']

def isConstraintLine (t : Txt) : Bool := hasPrefix kwGoBuild t || hasPrefix kwPlusBuild t

/-- Constraint lines of the header: everything before the first line that is
neither blank nor a `//` comment nor an `#include`. -/
def headerConstraints : List Txt → List Txt
  | [] => []
  | l :: ls =>
    if l.isEmpty || hasPrefix kwSlashes l || hasPrefix kwInclude l then
      (if isConstraintLine l then [l] else []) ++ headerConstraints ls
    else []

/-- The comment block directly above a line (nearest line first); `rev` is the
reversed list of the lines before it. -/
def commentsAbove (rev : List Txt) : List Txt := rev.takeWhile (hasPrefix kwSlashes)

/-- The directive lines of the comment block directly above, in file order. -/
def directivesAbove (rev : List Txt) : List Txt :=
  ((commentsAbove rev).filter (hasPrefix kwDirective)).reverse

/-- Every line `func NAME(…`: the declared identifier and the directive lines
of the comment block directly above the line. -/
def funcDecls : List Txt → List Txt → List (Txt × List Txt)
  | [], _ => []
  | l :: ls, rev =>
    match stripPrefix kwFunc l with
    | some r => (r.takeWhile notParen, directivesAbove rev) :: funcDecls ls (l :: rev)
    | none => funcDecls ls (l :: rev)

/-- The names after every `package ` at the start of a line. -/
def pkgClauses (ls : List Txt) : List Txt := ls.filterMap (stripPrefix kwPackage)

/-- The lines of a text, if it ends with a newline. -/
def textLines? (out : Txt) : Option (List Txt) :=
  let ls := splitNL out
  if ls.getLast? = some [] then some ls.dropLast else none

def pragmaLines (fn : Function) : List Txt := fn.pragmas.map (fun p => pragmaText p.directive p.args)

/-- Acceptor for the real (formatted) stub file: one package clause as
configured, the constraint lines of the header, one `func` line per function
of the file in file order declaring the function's name, the function's
directives directly above it. -/
def acceptStubs (cfg : Config) (f : File) (out : Txt) : String :=
  match textLines? out with
  | none => "bad-no-final-newline"
  | some ls =>
    if pkgClauses ls != [cfg.pkg] then "bad-package" else
    if headerConstraints ls != f.constraints then "bad-constraints" else
    let ds := funcDecls ls []
    if ds.map (·.1) != f.functions.map (·.name) then "bad-declarations" else
    if ds.map (·.2) != f.functions.map pragmaLines then "bad-pragmas"
    else "ok"

/-- Acceptor for the pair of real outputs: both carry the same constraint
lines, and they are the file's. -/
def acceptCons (f : File) (asm stub : Txt) : String :=
  let a := headerConstraints (splitNL asm)
  let s := headerConstraints (splitNL stub)
  if a != s then "bad-constraints-differ"
  else if a != f.constraints then "bad-constraints-lost"
  else "ok"

/-! Executable form of the token hypotheses of the text-level theorems
(`WFStubs` in Props/C12.lean), evaluated by the driver on every generated case. -/

def noNLb (t : Txt) : Bool := !t.contains '\n'

def wfStubFnB (fn : Function) : Bool :=
  fn.doc.all noNLb && fn.pragmas.all (fun p => noNLb p.directive && p.args.all noNLb) &&
  !fn.name.contains '(' && (stripPrefix (kwFunc ++ fn.name ++ ['(']) fn.stub).isSome && noNLb fn.stub

def wfStubsB (cfg : Config) (f : File) : Bool :=
  noNLb cfg.name && (cfg.argv.getD []).all noNLb && noNLb cfg.pkg &&
  f.constraints.all (fun c => noNLb c && isConstraintLine c) &&
  (f.hasConstraints || f.constraints.isEmpty) && f.functions.all wfStubFnB

/-! ### Verbatim transport of user text (judged on the real, formatted file)

Every text the caller hands to avo — the signature (with its struct tags), the
tool name / command line — must reach the stub file as it is: no layer may
interpret it (as a format string, an escape sequence, …).  go/format re-lays
out a declaration (line breaks instead of `;`, alignment), so the declaration
is compared modulo layout characters only; every other character — `%`,
quotes, backslashes, comment markers, non-ASCII text — must be there, in order. -/

/-- Layout characters: what go/format inserts, removes or exchanges between the
tokens of a declaration (blank, tab, line end, and the `;` a line end stands for). -/
def isLayout (c : Char) : Bool := c == ' ' || c == '\t' || c == '\n' || c == ';'

def squash (t : Txt) : Txt := t.filter (fun c => !isLayout c)

/-- Paragraphs: the runs of lines between empty lines. -/
def splitBlank : List Txt → List (List Txt)
  | [] => [[]]
  | l :: ls =>
    if l.isEmpty then [] :: splitBlank ls
    else match splitBlank ls with
      | [] => [[l]]
      | h :: t => (l :: h) :: t

/-- The declaration of a paragraph: what follows its leading `//` lines, when
that starts with `func `; all its lines, layout characters removed. -/
def declText? (p : List Txt) : Option Txt :=
  match p.dropWhile (hasPrefix kwSlashes) with
  | [] => none
  | l :: r => if hasPrefix kwFunc l then some (squash (l :: r).flatten) else none

def declTexts (ls : List Txt) : List Txt := (splitBlank ls).filterMap declText?

/-- Acceptor for the real (formatted) stub file: the first line is the
generated-code comment naming the tool / command line verbatim; the function
declarations are, in file order, the `Stub()` texts of the file's functions
character for character up to layout. -/
def acceptVerbatim (cfg : Config) (f : File) (out : Txt) : String :=
  match textLines? out with
  | none => "bad-no-final-newline"
  | some ls =>
    if ls.head? != some (commentText (generatedWarning cfg)) then "bad-generated-comment" else
    if declTexts ls != f.functions.map (fun fn => squash fn.stub) then "bad-declaration-text"
    else "ok"

end Avo.Print
