/-
C12: what a reader sees in the TEXT of a stub file (the bytes, after go/format),
and the executable acceptors the driver runs on the real printer output.
Core Lean only.  The declarative statements and the soundness theorems are in
Props/C12.lean.
-/
import AvoVerif.Model.Print
namespace Avo.Print

def hasPrefix (p : Txt) (t : Txt) : Bool := (stripPrefix p t).isSome

def kwSlashes : Txt := ['/', '/']
def kwDirective : Txt := ['/', '/', 'g', 'o', ':']
def kwGoBuild : Txt := ['/', '/', 'g', 'o', ':', 'b', 'u', 'i', 'l', 'd']
def kwPlusBuild : Txt := ['/', '/', ' ', '+', 'b', 'u', 'i', 'l', 'd']
def kwInclude : Txt := ['#', 'i', 'n', 'c', 'l', 'u', 'd', 'e']
def kwPackage : Txt := ['p', 'a', 'c', 'k', 'a', 'g', 'e', ' ']
def kwFunc : Txt := ['f', 'u', 'n', 'c', ' ']

def isConstraintLine (t : Txt) : Bool := hasPrefix kwGoBuild t || hasPrefix kwPlusBuild t

/-- Constraint lines of the header: everything before the first line that is
neither blank nor a `//` comment nor an `#include`. -/
def headerConstraints : List Txt → List Txt
  | [] => []
  | l :: ls =>
    if l.isEmpty || hasPrefix kwSlashes l || hasPrefix kwInclude l then
      (if isConstraintLine l then [l] else []) ++ headerConstraints ls
    else []

/-- The comment block directly above a line (nearest line first); `rev` is the
reversed list of the lines before it. -/
def commentsAbove (rev : List Txt) : List Txt := rev.takeWhile (hasPrefix kwSlashes)

/-- The directive lines of the comment block directly above, in file order. -/
def directivesAbove (rev : List Txt) : List Txt :=
  ((commentsAbove rev).filter (hasPrefix kwDirective)).reverse

/-- Every line `func NAME(…`: the declared identifier and the directive lines
of the comment block directly above the line. -/
def funcDecls : List Txt → List Txt → List (Txt × List Txt)
  | [], _ => []
  | l :: ls, rev =>
    match stripPrefix kwFunc l with
    | some r => (r.takeWhile notParen, directivesAbove rev) :: funcDecls ls (l :: rev)
    | none => funcDecls ls (l :: rev)

/-- The names after every `package ` at the start of a line. -/
def pkgClauses (ls : List Txt) : List Txt := ls.filterMap (stripPrefix kwPackage)

/-- The lines of a text, if it ends with a newline. -/
def textLines? (out : Txt) : Option (List Txt) :=
  let ls := splitNL out
  if ls.getLast? = some [] then some ls.dropLast else none

def pragmaLines (fn : Function) : List Txt := fn.pragmas.map (fun p => pragmaText p.directive p.args)

/-- Acceptor for the real (formatted) stub file: one package clause as
configured, the constraint lines of the header, one `func` line per function
of the file in file order declaring the function's name, the function's
directives directly above it. -/
def acceptStubs (cfg : Config) (f : File) (out : Txt) : String :=
  match textLines? out with
  | none => "bad-no-final-newline"
  | some ls =>
    if pkgClauses ls != [cfg.pkg] then "bad-package" else
    if headerConstraints ls != f.constraints then "bad-constraints" else
    let ds := funcDecls ls []
    if ds.map (·.1) != f.functions.map (·.name) then "bad-declarations" else
    if ds.map (·.2) != f.functions.map pragmaLines then "bad-pragmas"
    else "ok"

/-- Acceptor for the pair of real outputs: both carry the same constraint
lines, and they are the file's. -/
def acceptCons (f : File) (asm stub : Txt) : String :=
  let a := headerConstraints (splitNL asm)
  let s := headerConstraints (splitNL stub)
  if a != s then "bad-constraints-differ"
  else if a != f.constraints then "bad-constraints-lost"
  else "ok"

/-! Executable form of the token hypotheses of the text-level theorems
(`WFStubs` in Props/C12.lean), evaluated by the driver on every generated case. -/

def noNLb (t : Txt) : Bool := !t.contains '\n'

def wfStubFnB (fn : Function) : Bool :=
  fn.doc.all noNLb && fn.pragmas.all (fun p => noNLb p.directive && p.args.all noNLb) &&
  !fn.name.contains '(' && (stripPrefix (kwFunc ++ fn.name ++ ['(']) fn.stub).isSome && noNLb fn.stub

def wfStubsB (cfg : Config) (f : File) : Bool :=
  noNLb cfg.name && (cfg.argv.getD []).all noNLb && noNLb cfg.pkg &&
  f.constraints.all (fun c => noNLb c && isConstraintLine c) &&
  (f.hasConstraints || f.constraints.isEmpty) && f.functions.all wfStubFnB

/-! ### Verbatim transport of user text (judged on the real, formatted file)

Every text the caller hands to avo — the signature (with its struct tags), the
tool name / command line — must reach the stub file as it is: no layer may
interpret it (as a format string, an escape sequence, …).  go/format re-lays
out a declaration (line breaks instead of `;`, alignment), so the declaration
is compared modulo layout characters only; every other character — `%`,
quotes, backslashes, comment markers, non-ASCII text — must be there, in order. -/

/-- Layout characters: what go/format inserts, removes or exchanges between the
tokens of a declaration (blank, tab, line end, and the `;` a line end stands for). -/
def isLayout (c : Char) : Bool := c == ' ' || c == '\t' || c == '\n' || c == ';'

def squash (t : Txt) : Txt := t.filter (fun c => !isLayout c)

/-- Paragraphs: the runs of lines between empty lines. -/
def splitBlank : List Txt → List (List Txt)
  | [] => [[]]
  | l :: ls =>
    if l.isEmpty then [] :: splitBlank ls
    else match splitBlank ls with
      | [] => [[l]]
      | h :: t => (l :: h) :: t

/-- The declaration of a paragraph: what follows its leading `//` lines, when
that starts with `func `; all its lines, layout characters removed. -/
def declText? (p : List Txt) : Option Txt :=
  match p.dropWhile (hasPrefix kwSlashes) with
  | [] => none
  | l :: r => if hasPrefix kwFunc l then some (squash (l :: r).flatten) else none

def declTexts (ls : List Txt) : List Txt := (splitBlank ls).filterMap declText?

/-- Acceptor for the real (formatted) stub file: the first line is the
generated-code comment naming the tool / command line verbatim; the function
declarations are, in file order, the `Stub()` texts of the file's functions
character for character up to layout. -/
def acceptVerbatim (cfg : Config) (f : File) (out : Txt) : String :=
  match textLines? out with
  | none => "bad-no-final-newline"
  | some ls =>
    if ls.head? != some (commentText (generatedWarning cfg)) then "bad-generated-comment" else
    if declTexts ls != f.functions.map (fun fn => squash fn.stub) then "bad-declaration-text"
    else "ok"

/-! ### The configuration layer: `build.NewFlags(fs)`, `fs.Parse(args)`, `Flags.Config()`

The stub file a user gets is written by `build.Generate` / `build.Main` under
the configuration the command line yields.  Modelled: the flag syntax of the
standard `flag` package for the flags avo registers (`-pkg`, `-out`, `-stubs`,
`-log`, `-cpuprofile`, boolean `-e`), last occurrence wins; the package name
(`-pkg` when given and non-empty, otherwise the base name of the working
directory — the documented default); where each output goes. -/

inductive Dest where
  | none
  | stdout
  | file (name : Txt)
  deriving Repr, DecidableEq

structure CliFlags where
  pkg : Txt
  out : Dest
  stubs : Dest
  deriving Repr, DecidableEq

/-- `NewFlags`: assembly to standard output, no stub file, no package name. -/
def CliFlags.init : CliFlags := ⟨[], .stdout, .none⟩

/-- `outputValue.Set`: `-` is standard output. -/
def destOf (v : Txt) : Dest := if v = ['-'] then .stdout else .file v

def fPkg : Txt := ['p', 'k', 'g']
def fOut : Txt := ['o', 'u', 't']
def fStubs : Txt := ['s', 't', 'u', 'b', 's']
def fLog : Txt := ['l', 'o', 'g']
def fCpuprofile : Txt := ['c', 'p', 'u', 'p', 'r', 'o', 'f', 'i', 'l', 'e']

/-- `Flag.Value.Set` of the non-boolean flags; `none`: flag provided but not defined. -/
def setFlag (fl : CliFlags) (name value : Txt) : Option CliFlags :=
  if name = fPkg then some { fl with pkg := value }
  else if name = fOut then some { fl with out := destOf value }
  else if name = fStubs then some { fl with stubs := destOf value }
  else if name = fLog || name = fCpuprofile then some fl
  else none

/-- `strconv.ParseBool`. -/
def isBoolLit (v : Txt) : Bool :=
  ["1", "t", "T", "TRUE", "true", "True", "0", "f", "F", "FALSE", "false", "False"].any (fun s => s.toList == v)

inductive ArgKind where
  | stop                -- not a flag, or the terminator `--`: parsing ends
  | bad                 -- bad flag syntax
  | flag (name : Txt)   -- what follows the one or two minus signs
  deriving Repr, DecidableEq

def argKind : Txt → ArgKind
  | '-' :: '-' :: [] => .stop
  | '-' :: '-' :: c :: r => if c = '-' || c = '=' then .bad else .flag (c :: r)
  | '-' :: c :: r => if c = '=' then .bad else .flag (c :: r)
  | _ => .stop

/-- `name=value`: split at the first `=` (never the first character). -/
def splitEq : Txt → Txt × Option Txt
  | [] => ([], none)
  | c :: r =>
    match r.span (· != '=') with
    | (a, []) => (c :: a, none)
    | (a, _ :: v) => (c :: a, some v)

/-- `flag.FlagSet.Parse` on the flags of `build.NewFlags`; `none` = error. -/
def parseArgs : List Txt → CliFlags → Option CliFlags
  | [], fl => some fl
  | s :: rest, fl =>
    match argKind s with
    | .stop => some fl
    | .bad => none
    | .flag nv =>
      match splitEq nv with
      | (n, some v) =>
        if n = ['e'] then (if isBoolLit v then parseArgs rest fl else none)
        else match setFlag fl n v with
          | some fl' => parseArgs rest fl'
          | none => none
      | (n, none) =>
        if n = ['e'] then parseArgs rest fl
        else match rest with
          | [] => none
          | v :: rest' =>
            match setFlag fl n v with
            | some fl' => parseArgs rest' fl'
            | none => none

/-- The package the generated files belong to: the explicit `-pkg`, otherwise
the base name of the working directory. -/
def cliPkg (cwdBase : Txt) (fl : CliFlags) : Txt := if fl.pkg.isEmpty then cwdBase else fl.pkg

/-- `printer.NewGoRunConfig` (argv = `go run <main file> <args>`) with `Flags.Config`'s package. -/
def cliConfig (cwdBase : Txt) (argv : List Txt) (fl : CliFlags) : Config := ⟨[], some argv, cliPkg cwdBase fl⟩

/-- The stub file of a command line: none when `-stubs` was not given. -/
def cliStubs (cwdBase : Txt) (argv : List Txt) (fl : CliFlags) (f : File) : Option (List SLine) :=
  match fl.stubs with
  | .none => none
  | _ => some (printStubs (cliConfig cwdBase argv fl) f)

def cliAsm (names : List (Nat × String)) (cwdBase : Txt) (argv : List Txt) (fl : CliFlags) (f : File) : Option (List SLine) :=
  match fl.out with
  | .none => none
  | _ => some (printFile names (cliConfig cwdBase argv fl) f)

end Avo.Print
