/-
File-level part of C19: the macro environment the assembler's preprocessor has
after the `#include` lines of a printed file, and what the attribute clauses of
the file's TEXT / GLOBL lines evaluate to IN THAT ENVIRONMENT.

`Model/Attr` evaluates an attribute expression against one header.  A printed
file has a list of `#include "p"` lines (the user's own headers plus whatever
`pass.IncludeTextFlagHeader` added); a macro name of the expression is defined
only if one of the files these lines resolve to defines it.  A path resolves by
its EXACT spelling: "mytextflag.h", "x/textflag.h", "TEXTFLAG.H" are other
files than the toolchain's "textflag.h".  Core Lean only.
-/
import AvoVerif.Model.Attr
namespace Avo.Attr

/-- `env p` = the object-like integer macros defined by the file that
`#include "p"` resolves to.  The macro table after the include lines is the
concatenation in include order (`hdrValue` takes the first definition). -/
def macroEnv (env : String → List (String × Nat)) (incl : List String) : List (String × Nat) :=
  incl.flatMap env

/-- Value of a directive's attribute clause: TEXT omits the clause for the
assembler's default 0 (`none`); otherwise the printed tokens are evaluated. -/
def clauseValue (hdr : List (String × Nat)) : Option (List Tok) → Option (BitVec 16)
  | none => some 0#16
  | some ts => evalToks hdr ts

/-- Executable form of the file statement (`Props/C19File.FileOK`): every
section's clause, evaluated in the macro environment of the file's own include
lines, is the section's attribute value.  A macro name that no included file
defines makes `evalToks` return `none`, so a missing header is a rejection. -/
def acceptFile (env : String → List (String × Nat)) (incl : List String)
    (secs : List (BitVec 16 × Option (List Tok))) : Bool :=
  secs.all (fun s => clauseValue (macroEnv env incl) s.2 == some s.1)

/-- Index of the first section the file statement fails for (diagnostics only). -/
def firstBad (env : String → List (String × Nat)) (incl : List String) :
    List (BitVec 16 × Option (List Tok)) → Nat → Option (Nat × Option (BitVec 16))
  | [], _ => none
  | s :: ss, k =>
    let r := clauseValue (macroEnv env incl) s.2
    if r == some s.1 then firstBad env incl ss (k + 1) else some (k, r)

/-- The environment of the generated files: "textflag.h" (exactly that
spelling) is the given header; every other path is a user header that defines
none of the flag macros (the harness writes such headers for the measured
route: they define `C19_USER_<k>` only). -/
def stdEnv (hdr : List (String × Nat)) (p : String) : List (String × Nat) :=
  if p == textflagHeader then hdr else []

end Avo.Attr
