/-
C20 model addition (core Lean only): the routes by which a `build.Context`
hands out virtual registers.

`build.Context` embeds a `reg.Collection` (build/context.go), so the register
constructors GP8 … K, GP(s), Vec(s), VirtualRegister(k, s) are methods of the
Context; the package-level functions `build.GP8()` … `build.K()` call them on
the global context; `Context.Dereference` calls `c.GP64()` internally and puts
the register into the component it returns.  Every OTHER call on the Context
(Function, TEXT, Implement, Signature…, Attributes, Doc, AllocLocal, Load,
Store, instructions, labels, data sections, constraints, Result, and compiling
the file that Result returns) leaves the collection alone: the only effect a
Context history has on its collection is `Coll.alloc`.

`ctxStep` is that state machine; `ctxRun` lists the registers handed out along
a history.  The statement about it (`CtxFreshOK`: the ids handed out for one
kind are pairwise distinct, virtual and of that kind) is proved for all
histories in Props/C20Ctx.lean and evaluated by the driver on the
implementation's own ids (`accept-ctxfresh`).
-/
import AvoVerif.Model.RegHW
namespace Avo.Reg

/-- One call on a `build.Context` (a method, or a package-level function of
`build` on the global context), as far as the embedded collection can tell
calls apart. -/
inductive CtxOp where
  /-- a register constructor: GP8 … K, GP(s), Vec(s), VirtualRegister(k, s) -/
  | alloc (kind spec : Nat)
  /-- `Dereference(ptr)`: `r := c.GP64()` internally; `seen` = the caller can
  reach `r` (it is the base register of the component returned; when `ptr` is
  not a usable pointer the register is consumed but nobody sees it) -/
  | deref (seen : Bool)
  /-- any other call; `tag` names it -/
  | other (tag : String)
  deriving Repr, DecidableEq

/-- The Context as far as registers are concerned: its collection, and a count
of the other calls made (whatever those do — start sections, record errors,
compile — it is not to the collection). -/
structure CtxS where
  coll : Coll := []
  others : Nat := 0
  deriving Repr

/-- A register handed out, and whether the caller sees it. -/
structure Handed where
  reg : Virt
  seen : Bool
  deriving Repr, DecidableEq

def ctxStep (c : CtxS) : CtxOp → CtxS × List Handed
  | .alloc k s => ({ c with coll := (c.coll.alloc k s).2 }, [⟨(c.coll.alloc k s).1, true⟩])
  | .deref seen => ({ c with coll := (c.coll.alloc kindGP S64).2 }, [⟨(c.coll.alloc kindGP S64).1, seen⟩])
  | .other _ => ({ c with others := c.others + 1 }, [])

/-- The registers handed out along a history, in order. -/
def ctxRun (c : CtxS) : List CtxOp → List Handed
  | [] => []
  | op :: rest => (ctxStep c op).2 ++ ctxRun (ctxStep c op).1 rest

/-- The state after a history. -/
def ctxAfter (c : CtxS) : List CtxOp → CtxS
  | [] => c
  | op :: rest => ctxAfter (ctxStep c op).1 rest

/-- The allocation requests a history makes of the collection. -/
def ctxReqs : List CtxOp → List (Nat × Nat)
  | [] => []
  | .alloc k s :: rest => (k, s) :: ctxReqs rest
  | .deref _ :: rest => (kindGP, S64) :: ctxReqs rest
  | .other _ :: rest => ctxReqs rest

def CtxOp.isRequest : CtxOp → Bool
  | .other _ => false
  | _ => true

/-- The statement, for the ids `ids` handed out (in any order of requests, by
whatever route) for kind `k` along one Context history in which `nreq`
registers of that kind were requested: as long as the 2¹⁶ indexes of the kind
are not used up (F13), every id is virtual and of kind `k`, and no two of them
are equal — different registers never share an identity. -/
def CtxFreshOK (k nreq : Nat) (ids : List Nat) : Prop :=
  nreq ≤ 65536 → (∀ id ∈ ids, idIsVirtual id = true ∧ idKind id = k) ∧ ids.Pairwise (· ≠ ·)
instance (k nreq : Nat) (ids : List Nat) : Decidable (CtxFreshOK k nreq ids) := by
  unfold CtxFreshOK; infer_instance

end Avo.Reg
