/-
Model of /repo/buildtags (buildtags.go, syntax.go, syntax_go118.go) and of the
part of the Go toolchain that reads build constraints
(go/build/constraint: splitPlusBuild, parsePlusBuildExpr, Expr.String, Expr.Eval,
the size limits; go/printer.fixGoBuildLines as used through go/format).
Text is `List Char`; splitting / joining are own small functions so that they
can be reasoned about.  Core Lean only.

The character predicate of tags (`unicode.IsLetter || unicode.IsDigit || '_' || '.'`)
is the parameter `tc` everywhere: avo and the toolchain share it; the driver
instantiates it with the table measured from the installed toolchain
(`Oracle/TagChars.lean`).
-/
namespace Avo.Tags

abbrev Str := List Char
/-- `buildtags.Term`: a tag name, optionally preceded by `!`. -/
abbrev Term := Str
/-- `buildtags.Option`: AND of terms. -/
abbrev Opt := List Term
/-- `buildtags.Constraint`: OR of options; one `// +build` line. -/
abbrev Constraint := List Opt
/-- `buildtags.Constraints`: AND of constraint lines. -/
abbrev Constraints := List Constraint

/-! ## text helpers -/

/-- Code points of `unicode.IsSpace` (used by `strings.Fields`, `strings.TrimSpace`). -/
def spaceCodes : List Nat :=
  [0x09, 0x0A, 0x0B, 0x0C, 0x0D, 0x20, 0x85, 0xA0, 0x1680,
   0x2000, 0x2001, 0x2002, 0x2003, 0x2004, 0x2005, 0x2006, 0x2007, 0x2008, 0x2009, 0x200A,
   0x2028, 0x2029, 0x202F, 0x205F, 0x3000]

def isSpace (c : Char) : Bool := spaceCodes.contains c.toNat

/-- `strings.Join(xs, string(sep))`. -/
def join (sep : Char) : List Str → Str
  | [] => []
  | [x] => x
  | x :: y :: r => x ++ sep :: join sep (y :: r)

/-- `strings.Split(s, string(sep))` with the current piece as accumulator. -/
def splitGo (sep : Char) : Str → Str → List Str
  | cur, [] => [cur]
  | cur, c :: cs => if c == sep then cur :: splitGo sep [] cs else splitGo sep (cur ++ [c]) cs

def split (sep : Char) (s : Str) : List Str := splitGo sep [] s

/-- `strings.Fields(s)` with the current word as accumulator. -/
def fieldsGo : Str → Str → List Str
  | cur, [] => if cur.isEmpty then [] else [cur]
  | cur, c :: cs =>
    if isSpace c then (if cur.isEmpty then fieldsGo [] cs else cur :: fieldsGo [] cs)
    else fieldsGo (cur ++ [c]) cs

def fields (s : Str) : List Str := fieldsGo [] s

/-! Linear-time implementations for the compiled driver (the definitions above
copy the accumulator on every character: quadratic on the 70 000-character
tags the harness generates).  `csimp` replaces them in compiled code only; all
theorems are about `split` / `fields`. -/

def splitGoR (sep : Char) : Str → Str → List Str
  | cur, [] => [cur.reverse]
  | cur, c :: cs => if c == sep then cur.reverse :: splitGoR sep [] cs else splitGoR sep (c :: cur) cs

theorem splitGoR_eq (sep : Char) (cur s : Str) : splitGoR sep cur s = splitGo sep cur.reverse s := by
  induction s generalizing cur with
  | nil => rfl
  | cons c cs ih =>
    simp only [splitGoR, splitGo]
    split
    · rw [ih]; rfl
    · rw [ih]; simp

def splitFast (sep : Char) (s : Str) : List Str := splitGoR sep [] s

@[csimp] theorem split_eq_splitFast : @split = @splitFast := by
  funext sep s; simp [split, splitFast, splitGoR_eq]

def fieldsGoR : Str → Str → List Str
  | cur, [] => if cur.isEmpty then [] else [cur.reverse]
  | cur, c :: cs =>
    if isSpace c then (if cur.isEmpty then fieldsGoR [] cs else cur.reverse :: fieldsGoR [] cs)
    else fieldsGoR (c :: cur) cs

theorem fieldsGoR_eq (cur s : Str) : fieldsGoR cur s = fieldsGo cur.reverse s := by
  induction s generalizing cur with
  | nil => simp [fieldsGoR, fieldsGo]
  | cons c cs ih =>
    simp only [fieldsGoR, fieldsGo, List.isEmpty_reverse]
    split
    · split
      · rw [ih]; rfl
      · rw [ih]; rfl
    · rw [ih]; simp

def fieldsFast (s : Str) : List Str := fieldsGoR [] s

@[csimp] theorem fields_eq_fieldsFast : @fields = @fieldsFast := by
  funext s; simp [fields, fieldsFast, fieldsGoR_eq]

/-- Length of the UTF-8 encoding (Go's `len` of a string). -/
def utf8Len (s : Str) : Nat := s.foldl (fun n c => n + c.utf8Size) 0

def trimLeft (s : Str) : Str := s.dropWhile isSpace
def trimRight (s : Str) : Str := (s.reverse.dropWhile isSpace).reverse
/-- `strings.TrimSpace`. -/
def trimSpace (s : Str) : Str := trimRight (trimLeft s)

/-- `strings.HasPrefix` + slicing the prefix off. -/
def dropPrefix? : Str → Str → Option Str
  | [], s => some s
  | _ :: _, [] => none
  | p :: ps, c :: cs => if p == c then dropPrefix? ps cs else none

/-! ## avo: buildtags.go -/

/-- `Term.IsNegated`. -/
def isNegated : Term → Bool
  | '!' :: _ => true
  | _ => false

/-- `Term.Name`: the term without one leading `!`. -/
def name : Term → Str
  | '!' :: r => r
  | t => t

/-- `Term.Validate() == nil`. -/
def validTerm (tc : Char → Bool) (t : Term) : Bool :=
  match t with
  | '!' :: '!' :: _ => false
  | _ => !(name t).isEmpty && (name t).all tc

/-- `Option.Validate() == nil`: at least one term, every term valid. -/
def validOpt (tc : Char → Bool) (o : Opt) : Bool := !o.isEmpty && o.all (validTerm tc)
/-- `Constraint.Validate() == nil`: at least one option, every option valid. -/
def validConstraint (tc : Char → Bool) (c : Constraint) : Bool := !c.isEmpty && c.all (validOpt tc)
/-- `Constraints.Validate() == nil`. -/
def validate (tc : Char → Bool) (cs : Constraints) : Bool := cs.all (validConstraint tc)

/-- `Term.Evaluate`; `v` is the Go map lookup (absent = false). -/
def evalTerm (tc : Char → Bool) (v : Str → Bool) (t : Term) : Bool :=
  validTerm tc t && (v (name t) == !isNegated t)

def evalOpt (tc : Char → Bool) (v : Str → Bool) (o : Opt) : Bool := o.all (evalTerm tc v)
def evalConstraint (tc : Char → Bool) (v : Str → Bool) (c : Constraint) : Bool := c.any (evalOpt tc v)
/-- `Constraints.Evaluate`. -/
def evaluate (tc : Char → Bool) (v : Str → Bool) (cs : Constraints) : Bool := cs.all (evalConstraint tc v)

/-- `Option.GoString`. -/
def optText (o : Opt) : Str := join ',' o

/-- What `Constraint.GoString` prints after `// +build`: every option preceded by a space. -/
def body : Constraint → Str
  | [] => []
  | o :: os => ' ' :: optText o ++ body os

def plusPrefix : Str := ['/', '/', ' ', '+', 'b', 'u', 'i', 'l', 'd']

/-- One printed `// +build` line without its newline. -/
def lineText (c : Constraint) : Str := plusPrefix ++ body c

/-- `Constraint.GoString`. -/
def goStringC (c : Constraint) : Str := lineText c ++ ['\n']

/-- `Constraints.GoString`. -/
def goString : Constraints → Str
  | [] => []
  | c :: cs => goStringC c ++ goString cs

/-- `ParseOption`: `none` models a non-nil error. -/
def parseOption (tc : Char → Bool) (expr : Str) : Option Opt :=
  let o := split ',' expr
  if validOpt tc o then some o else none

def parseOptions (tc : Char → Bool) : List Str → Option Constraint
  | [] => some []
  | f :: fs =>
    match parseOption tc f with
    | none => none
    | some o =>
      match parseOptions tc fs with
      | none => none
      | some os => some (o :: os)

/-- `ParseConstraint`: `none` models a non-nil error. -/
def parseConstraint (tc : Char → Bool) (expr : Str) : Option Constraint :=
  parseOptions tc (fields expr)

/-! ## toolchain: go/build/constraint -/

inductive Expr where
  | tag (t : Str)
  | not (x : Expr)
  | and (x y : Expr)
  | or (x y : Expr)
  deriving Repr, DecidableEq, Inhabited

/-- `Expr.Eval`. -/
def Expr.eval (v : Str → Bool) : Expr → Bool
  | .tag t => v t
  | .not x => !x.eval v
  | .and x y => x.eval v && y.eval v
  | .or x y => x.eval v || y.eval v

def ignoreTag : Str := ['i', 'g', 'n', 'o', 'r', 'e']

/-- `isValidTag`. -/
def isValidTag (tc : Char → Bool) (w : Str) : Bool := !w.isEmpty && w.all tc

/-- Does the toolchain take the literal as a (possibly negated) tag, rather than
replacing it by `ignore`?  (`parsePlusBuildExpr`, inner loop.) -/
def toolchainTag (tc : Char → Bool) (lit : Str) : Bool :=
  match lit with
  | '!' :: '!' :: _ => false
  | ['!'] => false
  | '!' :: r => isValidTag tc r
  | _ => isValidTag tc lit

/-- The expression of one literal of a `// +build` clause. -/
def litExpr (tc : Char → Bool) (lit : Str) : Expr :=
  match lit with
  | '!' :: '!' :: _ => .tag ignoreTag
  | ['!'] => .tag ignoreTag
  | '!' :: r => .not (if isValidTag tc r then .tag r else .tag ignoreTag)
  | _ => if isValidTag tc lit then .tag lit else .tag ignoreTag

def andAll : Expr → List Expr → Expr
  | x, [] => x
  | x, y :: ys => andAll (.and x y) ys

def orAll : Expr → List Expr → Expr
  | x, [] => x
  | x, y :: ys => orAll (.or x y) ys

/-- Expression of one comma-separated clause (`split` never returns `[]`). -/
def clauseExpr (tc : Char → Bool) (clause : Str) : Expr :=
  match (split ',' clause).map (litExpr tc) with
  | [] => .tag ignoreTag
  | z :: zs => andAll z zs

/-- Number of AND/OR operators `parsePlusBuildExpr` creates for the text. -/
def plusOps (clauses : List Str) : Nat :=
  (clauses.map (fun cl => (split ',' cl).length - 1)).sum + (clauses.length - 1)

def maxOldSize : Nat := 100

/-- `parsePlusBuildExpr`; `none` is `errComplex` (more than 100 operators). -/
def plusBuildExpr (tc : Char → Bool) (text : Str) : Option Expr :=
  let clauses := fields text
  if plusOps clauses > maxOldSize then none else
  match clauses.map (clauseExpr tc) with
  | [] => some (.tag ignoreTag)
  | y :: ys => some (orAll y ys)

def plusBuildWord : Str := ['+', 'b', 'u', 'i', 'l', 'd']

def stripOneNewline (s : Str) : Str :=
  match s.reverse with
  | '\n' :: r => r.reverse
  | _ => s

/-- `splitPlusBuild`: the expression text of a `// +build` comment, `none` if the
comment is not such a line. -/
def splitPlusBuild (line : Str) : Option Str :=
  let line := stripOneNewline line
  if line.contains '\n' then none else
  match dropPrefix? ['/', '/'] line with
  | none => none
  | some l =>
    match dropPrefix? plusBuildWord (trimSpace l) with
    | none => none
    | some l =>
      let t := trimSpace l
      if l.length == t.length && !l.isEmpty then none else some t

/-- `constraint.Parse` restricted to `// +build` lines:
`none` = not a constraint line, `some none` = error, `some (some e)` = expression. -/
def parsePlusLine (tc : Char → Bool) (line : Str) : Option (Option Expr) :=
  match splitPlusBuild line with
  | none => none
  | some text => some (plusBuildExpr tc text)

/-- `Expr.String`. -/
def Expr.print : Expr → Str
  | .tag t => t
  | .not x =>
    match x with
    | .and _ _ => '!' :: '(' :: x.print ++ [')']
    | .or _ _ => '!' :: '(' :: x.print ++ [')']
    | _ => '!' :: x.print
  | .and x y =>
    let a (z : Expr) (s : Str) : Str := match z with | .or _ _ => '(' :: s ++ [')'] | _ => s
    a x x.print ++ [' ', '&', '&', ' '] ++ a y y.print
  | .or x y =>
    let o (z : Expr) (s : Str) : Str := match z with | .and _ _ => '(' :: s ++ [')'] | _ => s
    o x x.print ++ [' ', '|', '|', ' '] ++ o y y.print

/-- Number of `exprParser.not` calls when the toolchain parses `e.print`
(one per tag or `!tag`, one per parenthesised group). -/
def Expr.psize : Expr → Nat
  | .tag _ => 1
  | .not x =>
    match x with
    | .and _ _ => 1 + x.psize
    | .or _ _ => 1 + x.psize
    | .not _ => x.psize   -- `!!` is rejected by the parser whatever the size; never produced from `// +build` lines
    | .tag _ => 1
  | .and x y =>
    let a (z : Expr) (n : Nat) : Nat := match z with | .or _ _ => 1 + n | _ => n
    a x x.psize + a y y.psize
  | .or x y =>
    let o (z : Expr) (n : Nat) : Nat := match z with | .and _ _ => 1 + n | _ => n
    o x x.psize + o y y.psize

def maxSize : Nat := 1000

/-! ## go/format + avo's `Format` (go ≥ 1.18: only `//go:build` lines are kept) -/

/-- The header avo prints for a file. -/
inductive Header where
  /-- no constraint line at all -/
  | none
  /-- one `//go:build <e>` line -/
  | goBuild (e : Expr)
  deriving Repr, DecidableEq

def parseAll (tc : Char → Bool) : List Str → Option (List Expr)
  | [] => some []
  | t :: ts =>
    match plusBuildExpr tc t with
    | Option.none => Option.none
    | some e =>
      match parseAll tc ts with
      | Option.none => Option.none
      | some es => some (e :: es)

/-- `printer.fixGoBuildLines` on a source without `//go:build` lines, followed by
avo's filter: the `// +build` comments are parsed and ANDed; if there is none, or
one of them is too complex, no `//go:build` line is synthesised (and avo drops
the `// +build` lines). -/
def formatHeader (tc : Char → Bool) (src : Str) : Header :=
  match parseAll tc ((split '\n' src).filterMap splitPlusBuild) with
  | Option.none => .none
  | some [] => .none
  | some (e :: es) => .goBuild (andAll e es)

def goBuildPrefix : Str := ['/', '/', 'g', 'o', ':', 'b', 'u', 'i', 'l', 'd', ' ']

/-- Text of the header: the output of `buildtags.Format`. -/
def Header.text : Header → Str
  | .none => []
  | .goBuild e => goBuildPrefix ++ e.print ++ ['\n']

def stubSuffix : Str := ['\n', 'p', 'a', 'c', 'k', 'a', 'g', 'e', ' ', 's', 't', 'u', 'b']

/-- `buildtags.Format(cs)` as a header. -/
def format (tc : Char → Bool) (cs : Constraints) : Header :=
  formatHeader tc (goString cs ++ stubSuffix)

/-- The toolchain's decision for a file with that header under tag assignment
`v`: `none` = the toolchain rejects the file (`build expression too large`),
`some b` = the file is selected iff `b`.  A file without constraint line is
always selected. -/
def toolchainSelects (v : Str → Bool) : Header → Option Bool
  | .none => some true
  | .goBuild e => if e.psize > maxSize then Option.none else some (e.eval v)

/-- Number of terms on one constraint line. -/
def termCount (c : Constraint) : Nat := (c.map List.length).sum

/-- The expression the toolchain derives from one line, in terms of the
constraint (used in statements; `plusBuildExpr` computes it from the text). -/
def lineExpr (tc : Char → Bool) (c : Constraint) : Expr :=
  match c.map (fun o => clauseExpr tc (optText o)) with
  | [] => .tag ignoreTag
  | y :: ys => orAll y ys

/-! ### `Format`'s error outcome (finding F8e)

`buildtags.Format` reads go/format's output back with a default `bufio.Scanner`,
whose token (line) limit is 64 KiB: a line of `scanLimit` bytes or more makes
`Format` return an error (both printers then return that error and print no
file).  When go/format synthesised a `//go:build` line it is the longest line of
its output (the `// +build` lines go/format regenerates from it repeat a part of
its literals with shorter separators: not modelled, trusted); otherwise the
source lines are unchanged. -/

def scanLimit : Nat := 65536

/-- The lines of go/format's output that can reach the scanner limit. -/
def scannedLines (tc : Char → Bool) (src : Str) : List Str :=
  match formatHeader tc src with
  | .goBuild e => [goBuildPrefix ++ e.print]
  | .none => split '\n' src

def tooLong (l : Str) : Bool := decide (scanLimit ≤ utf8Len l)

/-- `buildtags.Format(cs)`: `none` = a non-nil error (`bufio.Scanner: token too long`). -/
def formatChecked (tc : Char → Bool) (cs : Constraints) : Option Header :=
  let src := goString cs ++ stubSuffix
  if (scannedLines tc src).any tooLong then Option.none else some (formatHeader tc src)

/-- What happens to a file whose constraints are `cs` under tag assignment `v`. -/
inductive Outcome where
  /-- `Format` fails: both printers return an error, no file is printed -/
  | formatError
  /-- a file is printed, the toolchain rejects its constraint line -/
  | rejected
  /-- a file is printed and the toolchain selects it iff `b` -/
  | selected (b : Bool)
  deriving Repr, DecidableEq

def outcome (tc : Char → Bool) (v : Str → Bool) (cs : Constraints) : Outcome :=
  match formatChecked tc cs with
  | Option.none => .formatError
  | some h =>
    match toolchainSelects v h with
    | Option.none => .rejected
    | some b => .selected b

/-- The `//go:build` expression of a set whose lines all convert. -/
def headerExpr (tc : Char → Bool) : Constraints → Option Expr
  | [] => Option.none
  | c :: cs => some (andAll (lineExpr tc c) (cs.map (lineExpr tc)))

/-! ### Acceptor: the property on what the implementation did with one formula -/

/-- Observations of the real code on one constraint set, over the enumerated
assignments `0 … n-1`. -/
structure Obs where
  /-- `Format` returned an error -/
  fmtErr : Bool
  /-- the toolchain (`go/build/constraint.Parse`) rejected a printed constraint line -/
  rejected : Bool
  /-- avo's `Evaluate` per assignment -/
  ev : List Bool
  /-- `go/build/constraint` evaluation of the printed lines per assignment (`none` = no answer) -/
  tcb : List (Option Bool)
  /-- `go/build.Context.MatchFile` on the printed stub file / assembly file -/
  mg : List (Option Bool)
  ma : List (Option Bool)
  /-- per constraint: did `ParseConstraint` of its printed form give it back (`none` = error) -/
  rt : List (Option Bool)

/-- `avo[i]` = avo's `Evaluate` under assignment `i`; `tool[i]` = the toolchain's
decision on the same text (`none` = rejected). -/
def acceptEvals (avo : List Bool) (tool : List (Option Bool)) : Bool := tool == avo.map some

/-- The executable form of the property on one observation. -/
def Obs.ok (o : Obs) : Bool :=
  !o.fmtErr && !o.rejected &&
  o.tcb == o.ev.map some && o.mg == o.ev.map some && o.ma == o.ev.map some &&
  o.rt.all (· == some true)

/-- Number of tags in an expression. -/
def Expr.leaves : Expr → Nat
  | .tag _ => 1
  | .not x => x.leaves
  | .and x y => x.leaves + y.leaves
  | .or x y => x.leaves + y.leaves

/-- Input-level bound on the number of tags of the synthesised expression. -/
def sizeBound (cs : Constraints) : Nat := (cs.map (fun c => max 1 (termCount c))).sum

/-- The separators of the `// +build` syntax are not tag characters (holds for
the toolchain's predicate: checked on the measured table in `Props/C14Tables.lean`). -/
structure SepFree (tc : Char → Bool) : Prop where
  bang : tc '!' = false
  comma : tc ',' = false
  space : ∀ c, isSpace c = true → tc c = false

/-- Tag character predicate from a table of inclusive code point ranges. -/
def tagCharOf (ranges : List (Nat × Nat)) (c : Char) : Bool :=
  ranges.any (fun r => r.1 ≤ c.toNat && c.toNat ≤ r.2)

/-- Executable check that a range table keeps `!`, `,` and white space out. -/
def sepFreeTable (ranges : List (Nat × Nat)) : Bool :=
  let inR (n : Nat) : Bool := ranges.any (fun r => r.1 ≤ n && n ≤ r.2)
  !inR '!'.toNat && !inR ','.toNat && spaceCodes.all (fun n => !inR n)

/-- A concrete ASCII-only tag character predicate, for examples:
digits, letters, `_`, `.`. -/
def asciiRanges : List (Nat × Nat) := [(46, 46), (48, 57), (65, 90), (95, 95), (97, 122)]
def asciiTag : Char → Bool := tagCharOf asciiRanges

end Avo.Tags
