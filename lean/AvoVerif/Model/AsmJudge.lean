/-
C05 — the judgement of the measured oracle: given what the constructor was
given (opcode, suffixes, the matched form's signature, operands with their
hardware identity from the register table) and what the decoders report for
the assembled bytes (mnemonic, registers, memory reference with access width,
immediate extended to the operation's width), decide whether the machine
instruction is "the named operation on the same operands".  The immediate is
judged with `asmImm`/`immWanted` of Model/AsmText.lean.  Core Lean only.
-/
import AvoVerif.Model.AsmText
namespace Avo.AsmJudge
open Avo.AsmText

/-! ## Hardware registers as the decoders name them -/

/-- class (1 = general purpose, 2 = vector, 3 = opmask, 9 = instruction pointer), number, size in bytes, high-byte -/
structure HW where
  cls : Nat
  num : Nat
  size : Nat
  high : Bool
  deriving DecidableEq, Repr, Inhabited

def gp64Names : List String := ["rax", "rcx", "rdx", "rbx", "rsp", "rbp", "rsi", "rdi"]
def gp32Names : List String := ["eax", "ecx", "edx", "ebx", "esp", "ebp", "esi", "edi"]
def gp16Names : List String := ["ax", "cx", "dx", "bx", "sp", "bp", "si", "di"]
def gp8Names : List String := ["al", "cl", "dl", "bl", "spl", "bpl", "sil", "dil"]
def gp8HighNames : List String := ["ah", "ch", "dh", "bh"]

def idxOf (xs : List String) (s : String) : Option Nat :=
  let rec go : List String → Nat → Option Nat
    | [], _ => none
    | x :: rest, i => if x == s then some i else go rest (i + 1)
  go xs 0

def numSuffix (pre : String) (s : String) : Option Nat :=
  if s.startsWith pre then ((s.drop pre.length).toString).toNat? else none

/-- Intel-syntax register name → hardware register -/
def hwReg (s : String) : Option HW :=
  match idxOf gp64Names s with
  | some i => some ⟨1, i, 8, false⟩
  | none =>
  match idxOf gp32Names s with
  | some i => some ⟨1, i, 4, false⟩
  | none =>
  match idxOf gp16Names s with
  | some i => some ⟨1, i, 2, false⟩
  | none =>
  match idxOf gp8Names s with
  | some i => some ⟨1, i, 1, false⟩
  | none =>
  match idxOf gp8HighNames s with
  | some i => some ⟨1, i, 1, true⟩
  | none =>
  if s == "rip" then some ⟨9, 0, 8, false⟩ else
  match numSuffix "xmm" s with
  | some n => if n < 32 then some ⟨2, n, 16, false⟩ else none
  | none =>
  match numSuffix "ymm" s with
  | some n => if n < 32 then some ⟨2, n, 32, false⟩ else none
  | none =>
  match numSuffix "zmm" s with
  | some n => if n < 32 then some ⟨2, n, 64, false⟩ else none
  | none =>
  match numSuffix "k" s with
  | some n => if n < 8 then some ⟨3, n, 8, false⟩ else none
  | none =>
  -- r8..r15 with optional b/w/d suffix
  if s.startsWith "r" then
    let body := (s.drop 1).toString
    let (digits, size) :=
      if body.endsWith "b" then ((body.dropEnd 1).toString, 1)
      else if body.endsWith "w" then ((body.dropEnd 1).toString, 2)
      else if body.endsWith "d" then ((body.dropEnd 1).toString, 4)
      else (body, 8)
    match digits.toNat? with
    | some n => if 8 ≤ n ∧ n < 16 then some ⟨1, n, size, false⟩ else none
    | none => none
  else none

/-! ## What the constructor was given -/

/-- a physical register of the table: kind, physical index, mask (spec), size; pseudo registers by name -/
structure HReg where
  kind : Nat
  idx : Nat
  mask : Nat
  size : Nat
  name : String
  deriving DecidableEq, Repr, Inhabited

def HReg.hw (r : HReg) : HW := ⟨r.kind, r.idx, r.size, r.kind == 1 && r.mask == 2⟩

inductive XOp where
  | reg (r : HReg)
  | mem (sym : String) (static : Bool) (disp : Int) (base index : Option HReg) (scale : Nat)
  | imm (ty : ImmTy) (v : Int)
  | rel (v : Int)
  | label (name : String)
  deriving Repr, Inhabited

inductive DArg where
  | reg (name : String)
  | mem (w : Nat) (seg base index : String) (scale : Nat) (disp : Int) (bcst : Bool)
  | imm (v : Nat)
  | jmp (rel : Int)
  | kmask (name : String)
  | zero
  | er (s : String)
  | bc (s : String)
  deriving Repr, Inhabited, DecidableEq

structure Reloc where
  lo : Nat
  hi : Nat
  kind : String
  sym : String
  add : Int
  deriving Repr, Inhabited

structure Given where
  opcode : String
  sfx : List String
  sig : List String
  ops : List XOp
  deriving Repr, Inhabited

structure Decoded where
  codeLen : Nat
  /-- memory access width reported by the second decoder (x86asm), 0 = none -/
  xw : Nat
  relocs : List Reloc
  mnem : String
  args : List DArg
  deriving Repr, Inhabited

/-! ## Immediate context of a form (which `ImmCtx` the immediate stands in) -/

def stripSuffix (s : String) (sufs : List String) : String :=
  match sufs.find? (fun x => s.endsWith x && s.length > x.length) with
  | some x => (s.dropEnd x.length).toString
  | none => s

/-- opcode families whose 8-bit immediate is a count / bit index / selector (not an ALU operand) -/
def rawImmBases : List String :=
  ["RCL", "RCR", "ROL", "ROR", "SAL", "SAR", "SHL", "SHR", "BT", "BTC", "BTR", "BTS", "RORX", "INT", "XABORT", "RET", "RETF"]

def gpWidthOfType (t : String) : Option Nat :=
  if t == "r8" || t == "m8" || t == "al" then some 8
  else if t == "r16" || t == "m16" || t == "ax" then some 16
  else if t == "r32" || t == "m32" || t == "eax" then some 32
  else if t == "r64" || t == "m64" || t == "rax" then some 64
  else none

def isVecType (t : String) : Bool :=
  t == "xmm" || t == "ymm" || t == "zmm" || t == "k" || t == "xmm0" || t.startsWith "vm"

def immTypeBits (t : String) : Nat :=
  if t == "imm16" then 16 else if t == "imm32" then 32 else if t == "imm64" then 64 else 8

/-- The context of the immediate operand of type `immT` in a form with signature `sig` of `opcode`. -/
def immCtxOf (opcode : String) (sig : List String) (immT : String) : ImmCtx :=
  if immT == "imm64" then .mov64
  -- MOVQ $imm32, r64 (aliases MOVD, MOVDQ2Q): the assembler picks mov r32 (zero-extending), mov r64 (sign-extending)
  -- or movabs by value: all 64 bits are kept
  else if (opcode == "MOVQ" || opcode == "MOVD" || opcode == "MOVDQ2Q") && sig == ["imm32", "r64"] then .mov64
  else if sig.any isVecType then .raw 8
  else
    let base := stripSuffix opcode ["B", "W", "L", "Q"]
    if rawImmBases.contains base || rawImmBases.contains opcode then .raw (immTypeBits immT)
    else
      match sig.filterMap gpWidthOfType with
      | w :: _ => if w == 64 then .sx64 else .op w
      | [] =>
        if opcode == "PUSHQ" then .sx64
        else if opcode == "PUSHW" then .op 16
        else if opcode == "PUSHL" then .op 32
        else .raw (immTypeBits immT)

/-! ## Mnemonics -/

/-- condition-code suffixes of Go opcodes → Intel condition number -/
def goCC : List (String × Nat) :=
  [("OS", 0), ("OC", 1), ("CS", 2), ("LO", 2), ("CC", 3), ("HS", 3), ("EQ", 4), ("NE", 5), ("LS", 6), ("HI", 7),
   ("MI", 8), ("PL", 9), ("PS", 10), ("PC", 11), ("LT", 12), ("GE", 13), ("LE", 14), ("GT", 15)]

/-- Intel condition-code suffixes (all aliases) → condition number -/
def intelCC : List (String × Nat) :=
  [("o", 0), ("no", 1), ("b", 2), ("c", 2), ("nae", 2), ("ae", 3), ("nb", 3), ("nc", 3), ("e", 4), ("z", 4), ("ne", 5), ("nz", 5),
   ("be", 6), ("na", 6), ("a", 7), ("nbe", 7), ("s", 8), ("ns", 9), ("p", 10), ("pe", 10), ("np", 11), ("po", 11),
   ("l", 12), ("nge", 12), ("ge", 13), ("nl", 13), ("le", 14), ("ng", 14), ("g", 15), ("nle", 15)]

def lookupStr {α} (tbl : List (String × α)) (k : String) : Option α := (tbl.find? (·.1 == k)).map (·.2)

/-- `(family, condition)` of a conditional Go opcode: Jcc, SETcc, CMOV{W,L,Q}cc — Go's own names and the Intel aliases avo also offers -/
def goCond (op : String) : Option (String × Nat) :=
  let try_ (pre fam : String) : Option (String × Nat) :=
    if op.startsWith pre then
      let rest := (op.drop pre.length).toString
      match lookupStr goCC rest with
      | some c => some (fam, c)
      | none => (lookupStr intelCC rest.toLower).map (fam, ·)
    else none
  (try_ "CMOVW" "cmov").orElse fun _ => (try_ "CMOVL" "cmov").orElse fun _ => (try_ "CMOVQ" "cmov").orElse fun _ =>
  (try_ "SET" "set").orElse fun _ => (try_ "J" "j")

def intelCond (m : String) : Option (String × Nat) :=
  let try_ (pre : String) : Option (String × Nat) :=
    if m.startsWith pre then (lookupStr intelCC (m.drop pre.length).toString).map (pre, ·) else none
  (try_ "cmov").orElse fun _ => (try_ "set").orElse fun _ => try_ "j"

/-- Go opcode → the decoder mnemonics that are this operation, for opcodes whose
name is not simply the Intel name (possibly with a B/W/L/Q or X/Y/Z suffix). -/
def mnemTable : List (String × List String) := [
  -- conversions: Go's L/Q is Intel's dq/si
  ("CVTPD2PL", ["cvtpd2dq"]), ("CVTPL2PD", ["cvtdq2pd"]), ("CVTPL2PS", ["cvtdq2ps"]), ("CVTPS2PL", ["cvtps2dq"]),
  ("CVTSD2SL", ["cvtsd2si"]), ("CVTSD2SQ", ["cvtsd2si"]), ("CVTSL2SD", ["cvtsi2sd"]), ("CVTSL2SS", ["cvtsi2ss"]),
  ("CVTSQ2SD", ["cvtsi2sd"]), ("CVTSQ2SS", ["cvtsi2ss"]), ("CVTSS2SL", ["cvtss2si"]), ("CVTSS2SQ", ["cvtss2si"]),
  ("CVTTPD2PL", ["cvttpd2dq"]), ("CVTTPS2PL", ["cvttps2dq"]), ("CVTTSD2SL", ["cvttsd2si"]), ("CVTTSD2SQ", ["cvttsd2si"]),
  ("CVTTSS2SL", ["cvttss2si"]), ("CVTTSS2SQ", ["cvttss2si"]),
  ("IMUL3W", ["imul"]), ("IMUL3L", ["imul"]), ("IMUL3Q", ["imul"]),
  ("MASKMOVOU", ["maskmovdqu"]),
  ("MOVBEWW", ["movbe"]), ("MOVBELL", ["movbe"]), ("MOVBEQQ", ["movbe"]),
  ("MOVBWSX", ["movsx"]), ("MOVBLSX", ["movsx"]), ("MOVBQSX", ["movsx"]), ("MOVWLSX", ["movsx"]), ("MOVWQSX", ["movsx"]),
  ("MOVBWZX", ["movzx"]), ("MOVBLZX", ["movzx"]), ("MOVBQZX", ["movzx"]), ("MOVWLZX", ["movzx"]), ("MOVWQZX", ["movzx"]),
  ("MOVLQSX", ["movsxd"]), ("MOVLQZX", ["mov"]),
  -- MOVQ (and its aliases MOVD, MOVDQ2Q in avo's table): general-purpose mov, movabs (imm64), or the SSE2 movq
  ("MOVQ", ["mov", "movq", "movabs"]), ("MOVD", ["mov", "movq", "movabs", "movd"]), ("MOVDQ2Q", ["mov", "movq", "movabs"]),
  ("MOVNTO", ["movntdq"]), ("MOVO", ["movdqa"]), ("MOVOA", ["movdqa"]), ("MOVOU", ["movdqu"]),
  ("PACKSSLW", ["packssdw"]), ("PADDL", ["paddd"]), ("PCMPEQL", ["pcmpeqd"]), ("PCMPGTL", ["pcmpgtd"]), ("PMADDWL", ["pmaddwd"]),
  ("PMULULQ", ["pmuludq"]), ("PSHUFL", ["pshufd"]), ("PSLLL", ["pslld"]), ("PSLLO", ["pslldq"]), ("PSRAL", ["psrad"]),
  ("PSRLL", ["psrld"]), ("PSRLO", ["psrldq"]), ("PSUBL", ["psubd"]), ("PUNPCKHLQ", ["punpckhdq"]), ("PUNPCKHWL", ["punpckhwd"]),
  ("PUNPCKLLQ", ["punpckldq"]), ("PUNPCKLWL", ["punpcklwd"]),
  -- SAL is SHL
  ("SALB", ["shl"]), ("SALW", ["shl"]), ("SALL", ["shl"]), ("SALQ", ["shl"])
]

/-- opcodes whose mnemonic is not compared (`none` result of `mnemOK`) -/
def mnemUnchecked : List String := []

/-- `some true`: the decoded mnemonic is the named operation; `some false`: it is not; `none`: not compared.
`arity` is the number of explicit operands (SHLW/L/Q and SHRW/L/Q with three operands are the double shifts). -/
def mnemOK (opcode : String) (arity : Nat) (mnem : String) : Option Bool :=
  if mnemUnchecked.contains opcode then none else
  if ["SHLW", "SHLL", "SHLQ"].contains opcode then some (mnem == (if arity == 3 then "shld" else "shl")) else
  if ["SHRW", "SHRL", "SHRQ"].contains opcode then some (mnem == (if arity == 3 then "shrd" else "shr")) else
  match lookupStr mnemTable opcode with
  | some ms => some (ms.contains mnem)
  | none =>
    match goCond opcode, intelCond mnem with
    | some (f, c), some (f', c') => some (f == f' && c == c')
    | some _, none => some false
    | none, _ =>
      let lo := opcode.toLower
      some (mnem == lo
        || mnem == (stripSuffix opcode ["B", "W", "L", "Q"]).toLower
        || mnem == (stripSuffix opcode ["X", "Y", "Z"]).toLower)

/-! ## Operand comparison -/

def typeBytes (t : String) : Option Nat :=
  if t == "m8" then some 1 else if t == "m16" then some 2 else if t == "m32" then some 4 else if t == "m64" then some 8
  else if t == "m128" then some 16 else if t == "m256" then some 32 else if t == "m512" then some 64 else none

def showHW (h : HW) : String := s!"{h.cls}.{h.num}.{h.size}{if h.high then "h" else ""}"

/-- Destination registers for which a 32-bit write is the same operation as the 64-bit
one (the upper half is zeroed either way and the operation produces at most 32 significant bits):
`mov r32, imm32` for a constant below 2³², `mov r32, m32` for MOVLQZX (move with zero-extension), `crc32 r32, r/m8`. -/
def zeroExtEquiv (opcode mnem : String) (args : List DArg) : Bool :=
  (mnem == "mov" && args.any (fun a => match a with | .imm v => v < 2 ^ 32 | _ => false))
  || (opcode == "MOVLQZX" && mnem == "mov") || mnem == "crc32"

/-- register given vs register decoded -/
def regMatch (opcode mnem : String) (args : List DArg) (r : HReg) (d : String) : Option String :=
  match hwReg d with
  | none => some s!"bad-reg unknown-decoder-register {d}"
  | some h =>
    if h == r.hw then none
    else if r.kind == 1 && r.size == 8 && h == ⟨1, r.idx, 4, false⟩ && zeroExtEquiv opcode mnem args
      && args.head? == some (.reg d) then none
    else some s!"bad-reg want {showHW r.hw} got {d}"

/-- an address register (always used as a 64-bit register by the hardware unless an address-size prefix is present) -/
def addrRegMatch (what : String) (r : Option HReg) (d : String) : Option String :=
  match r with
  | none => if d == "-" then none else some s!"bad-{what} want none got {d}"
  | some r =>
    if d == "-" then some s!"bad-{what} want {showHW r.hw} got none" else
    match hwReg d with
    | none => some s!"bad-{what} unknown-decoder-register {d}"
    | some h => if h == r.hw then none else some s!"bad-{what} want {showHW r.hw} got {d}"

/-- Go symbol name as the object file spells it (`·x` is `p.x` in package p) -/
def objSym (sym : String) (static : Bool) : String :=
  let s := if sym.startsWith "·" then "p." ++ (sym.drop 1).toString else sym
  if static then s ++ "<1>" else s

/-- all the errors of a memory operand are reported together (`a; b`): a listed finding that explains one of them
(its verdict regex is anchored) then cannot hide another one on the same operand -/
def joinErrs (es : List (Option String)) : Option String :=
  match es.filterMap id with
  | [] => none
  | xs => some ("; ".intercalate xs)

/-- access width: the form's operand type names a width (m8 … m512): both decoders' widths must be that
(0 = the decoder reports none; the second decoder does not know broadcasts) -/
def widthErr (dec : Decoded) (ty : String) (w : Nat) (bcst : Bool) : Option String :=
  match typeBytes ty with
  | some n =>
    if w != 0 && w != n then some s!"bad-width want {n} got {w}"
    else if dec.xw != 0 && dec.xw != n && !bcst then some s!"bad-width want {n} got {dec.xw} (x86asm)"
    else none
  | none => none

def bcstErr (g : Given) (bcst : Bool) : Option String :=
  if bcst != g.sfx.contains "BCST" then some s!"bad-broadcast want {g.sfx.contains "BCST"} got {bcst}" else none

/-- the index register that is printed (hence used): only when scale != 0 -/
def usedIndex (index : Option HReg) (scale : Nat) : Option HReg := if scale == 0 then none else index

def idxErr (index : Option HReg) (scale : Nat) (dindex : String) (dscale : Nat) : Option String :=
  joinErrs [addrRegMatch "index" (usedIndex index scale) dindex,
    if (usedIndex index scale).isSome && dscale != scale then some s!"bad-scale want {scale} got {dscale}" else none]

def relocOf (dec : Decoded) (sym : String) (static : Bool) : Option Reloc :=
  dec.relocs.find? (fun r => r.sym == objSym sym static)

def baseDispErr (dec : Decoded) (sym : String) (static : Bool) (disp : Int) (base : Option HReg)
    (dbase : String) (ddisp : Int) : Option String :=
  match base with
  | none => if dbase == "-" && ddisp == disp then none else some s!"bad-base want none got {dbase}"
  | some b =>
    if b.kind != 0 then
      joinErrs [addrRegMatch "base" (some b) dbase,
        if ddisp == disp then none else some s!"bad-disp want {disp} got {ddisp}"]
    else if b.name == "FP" then
      -- frame size 0: the arguments start above the return address
      if dbase != "rsp" then some s!"bad-base want rsp(FP) got {dbase}"
      else if ddisp == disp + 8 then none else some s!"bad-disp want {disp + 8} got {ddisp}"
    else if b.name == "SP" then
      if dbase != "rsp" then some s!"bad-base want rsp(SP) got {dbase}"
      else if ddisp == disp then none else some s!"bad-disp want {disp} got {ddisp}"
    else if b.name == "SB" then
      match relocOf dec sym static with
      | none => some s!"bad-reloc want {objSym sym static} got none"
      | some r =>
        if r.kind == "R_PCREL" then
          if dbase != "rip" then some s!"bad-base want rip got {dbase}"
          else if r.add + ((dec.codeLen : Int) - r.hi) == disp then none
          else some s!"bad-disp want {disp} got reloc {r.add}+{(dec.codeLen : Int) - r.hi}"
        else if r.kind == "R_ADDR" then
          if r.add == disp then none else some s!"bad-disp want {disp} got reloc {r.add}"
        else some s!"bad-reloc kind {r.kind}"
    else some s!"bad-base pseudo {b.name}"

def memMatch (g : Given) (dec : Decoded) (ty : String) (sym : String) (static : Bool) (disp : Int) (base index : Option HReg) (scale : Nat)
    (w : Nat) (dbase dindex : String) (dscale : Nat) (ddisp : Int) (bcst : Bool) : Option String :=
  joinErrs [baseDispErr dec sym static disp base dbase ddisp, idxErr index scale dindex dscale, widthErr dec ty w bcst, bcstErr g bcst]

def immMatch (g : Given) (ty : String) (t : ImmTy) (v : Int) (d : Nat) : Option String :=
  let ctx := immCtxOf g.opcode g.sig ty
  let text := immAsm t v
  match asmImm ctx text with
  | none => some "bad-imm-text"
  | some modelled =>
    if !decide (ImmRepresentable ctx v) then s!"bad-imm-truncated {v} is not a {ctx.width}-bit constant (assembled as {d})"
    else if d != immWanted ctx v then some s!"bad-imm want {immWanted ctx v} got {d} fits={decide (ImmFits ctx v)}"
    else if modelled != d then some s!"bad-asm-model modelled {modelled} got {d}"
    else none

/-- one operand against one decoded argument; `none` = equal -/
def opMatch (g : Given) (dec : Decoded) (ty : String) (e : XOp) (d : DArg) : Option String :=
  match e, d with
  | .reg r, .reg n => regMatch g.opcode dec.mnem dec.args r n
  | .reg r, .kmask n => regMatch g.opcode dec.mnem dec.args r n
  | .mem sym st disp b i sc, .mem w _ db di dsc dd bc => memMatch g dec ty sym st disp b i sc w db di dsc dd bc
  | .imm t v, .imm dv => immMatch g ty t v dv
  | .label _, .jmp rel => if rel == 0 then none else some s!"bad-target want 0 got {rel}"
  -- a label reference that the assembler read as a register or a memory operand (an indirect branch)
  | .label _, .reg n => some s!"bad-label-as-register {n}"
  | .label _, .mem _ _ b _ _ _ _ => some s!"bad-label-as-memory {b}"
  -- a memory operand (indirect branch through memory) that was assembled as a direct branch
  | .mem _ _ _ _ _ _, .jmp _ => some "bad-mem-as-direct-branch"
  | .rel v, .jmp rel => if rel == v then none else some s!"bad-target want {v} got {rel}"
  | _, _ => some "bad-kind"

/-! ## Operand order -/

/-- Intel operand order of the explicit Go operands. Default: reversed. -/
def intelOrder (opcode : String) (xs : List α) : List α :=
  let base := stripSuffix opcode ["B", "W", "L", "Q"]
  if base == "CMP" && !(opcode == "CMPSB" || opcode == "CMPSW" || opcode == "CMPSL" || opcode == "CMPSQ") || opcode == "CMPW" || opcode == "CMPL" || opcode == "CMPQ" || opcode == "CMPB" then xs
  else if opcode == "CMPPS" || opcode == "CMPPD" || opcode == "CMPSS" || opcode == "CMPSD" then
    match xs with
    | [a, b, c] => [b, a, c]
    | _ => xs.reverse
  else xs.reverse

/-- decorations folded away: the opmask becomes an ordinary register argument at its position -/
def plainArgs : List DArg → List DArg
  | [] => []
  | .zero :: rest => plainArgs rest
  | .er _ :: rest => plainArgs rest
  | .bc _ :: rest => plainArgs rest
  | a :: rest => a :: plainArgs rest

/-- implicit operands that a decoder may show although the Go syntax has none -/
def looksImplicit : DArg → Bool
  | .reg n => ["al", "ax", "eax", "rax", "cl", "dx", "ecx", "edx", "rcx", "rdx", "xmm0", "st"].contains n
  | .mem _ seg b i _ _ _ => (seg == "es" || seg == "ds") && i == "-" && (b == "rsi" || b == "rdi" || b == "rbx")
  | .imm v => v == 1
  | _ => false

/-- position-aware comparison; when the decoder shows more arguments than the Go
syntax has operands, implicit-looking extra arguments may be skipped -/
def matchSeq (g : Given) (dec : Decoded) : List (String × XOp) → List DArg → Option String
  | [], [] => none
  | [], d :: ds => if looksImplicit d then matchSeq g dec [] ds else some "bad-extra-operand"
  | _ :: _, [] => some "bad-missing-operand"
  | (ty, e) :: es, d :: ds =>
    match opMatch g dec ty e d with
    | none => matchSeq g dec es ds
    | some why =>
      if ds.length ≥ (es.length + 1) && looksImplicit d then matchSeq g dec ((ty, e) :: es) ds else some why

/-- suffixes against decorations -/
def sfxMatch (g : Given) (args : List DArg) : Option String :=
  let z := args.contains .zero
  if z != g.sfx.contains "Z" then some s!"bad-zeroing want {g.sfx.contains "Z"} got {z}" else
  let ers := args.filterMap (fun a => match a with | .er s => some s | _ => none)
  let want := g.sfx.filterMap (fun s =>
    if s == "SAE" then some "sae" else if s == "RN_SAE" then some "rn-sae" else if s == "RD_SAE" then some "rd-sae"
    else if s == "RU_SAE" then some "ru-sae" else if s == "RZ_SAE" then some "rz-sae" else none)
  if ers != want then some s!"bad-rounding want {want} got {ers}" else none

/-- operations whose two operands are interchangeable (the assembler is free to encode either order) -/
def symmetric (mnem : String) : Bool := mnem == "xchg" || mnem == "test"

/-- `XCHGQ AX, AX` is encoded as REX.W 0x90: exchanging the 64-bit accumulator with itself
has no effect, like the nop the decoder names (not so for `XCHGL AX, AX`, whose 0x90 does not
clear the upper half of RAX as a 32-bit exchange would). -/
def selfXchgIsNop (g : Given) (dec : Decoded) : Bool :=
  g.opcode == "XCHGQ" && dec.mnem == "rex.W+nop" && dec.args.isEmpty &&
  (match g.ops with
   | [.reg a, .reg b] => a.kind == 1 && a.idx == 0 && a.size == 8 && b.kind == 1 && b.idx == 0 && b.size == 8
   | _ => false)

/-- operands (with the operand type of the matched form) in the order the decoder shows them -/
def wanted (g : Given) : List (String × XOp) := intelOrder g.opcode (g.sig.zip g.ops)

/-- operands against decoded arguments, either order for the symmetric operations; the error reported for a
symmetric operation is the more specific of the two -/
def seqErr (g : Given) (dec : Decoded) : Option String :=
  let got := plainArgs dec.args
  match matchSeq g dec (wanted g) got with
  | none => none
  | some why =>
    if symmetric dec.mnem then
      match matchSeq g dec (wanted g).reverse got with
      | none => none
      | some why2 => if why == "bad-kind" then some why2 else some why
    else some why

/-- The verdict on an assembled instruction: `none` = it is the named operation on the operands given. -/
def judgeO (g : Given) (dec : Decoded) : Option String :=
  if selfXchgIsNop g dec then none else
  if dec.mnem == "undecoded" || dec.mnem == "unparsed" || dec.mnem == "multiple" then some s!"bad-decode {dec.mnem}" else
  if (g.sig.zip g.ops).length != g.ops.length then some "bad-request signature" else
  if mnemOK g.opcode g.ops.length dec.mnem == some false then some s!"bad-mnemonic {dec.mnem}" else
  (seqErr g dec).orElse fun _ => sfxMatch g dec.args

/-- the response string: `ok` exactly when `judgeO` accepts -/
def judge (g : Given) (dec : Decoded) : String :=
  match judgeO g dec with
  | none => "ok"
  | some why => if why == "ok" then "bad-verdict" else why

end Avo.AsmJudge
