/-
Model of build/zmov.go (`Context.mov`: first-match deduction of a move
instruction), of `Context.Load` / `Context.Store` (build/pseudo.go) and of what
the selected instructions do to memory and registers (`movSem`, hand-written
from the architecture manuals and validated on the CPU on every run).
Core Lean only.
-/
import AvoVerif.Model.Instr
namespace Avo.Mov
open Avo Avo.Instr

/-- One case of the switch in `Context.mov`, as written:
`an == <an> && operand.<pa>(a) && bn == <bn> && operand.<pb>(b) && (t.Info() & <tmask>) <top> <tval>: c.<opcode>(a, b)` -/
structure MovRow where
  an : Nat
  pa : Nat        -- checker function name (encoded)
  bn : Nat
  pb : Nat
  tmask : Nat
  top : Nat       -- 0: `!=`, 1: `==`
  tval : Nat
  opcode : Nat    -- Context method called (encoded name)
  inOrder : Bool  -- the call passes (a, b) in that order
  deriving DecidableEq, Repr, Inhabited

/-- a row with the checker names resolved to the predicates of the model -/
structure RRow where
  an : Nat
  bn : Nat
  ca : Option OpClass
  cb : Option OpClass
  tmask : Nat
  top : Nat
  tval : Nat
  opcode : Nat
  inOrder : Bool
  deriving DecidableEq, Repr, Inhabited

def resolve (r : MovRow) : RRow :=
  ⟨r.an, r.bn, OpClass.ofChecker r.pa, OpClass.ofChecker r.pb, r.tmask, r.top, r.tval, r.opcode, r.inOrder⟩

def holdsOpt : Option OpClass → Operand → Bool
  | some c, o => c.holds o
  | none, _ => false

def tcond (r : RRow) (tinfo : Nat) : Bool :=
  if r.top == 1 then (tinfo &&& r.tmask) == r.tval else (tinfo &&& r.tmask) != r.tval

/-- the case condition (all conjuncts are pure, so the order is immaterial) -/
def RRow.matches (r : RRow) (a b : Operand) (an bn tinfo : Nat) : Bool :=
  an == r.an && (bn == r.bn && (holdsOpt r.ca a && (holdsOpt r.cb b && tcond r tinfo)))

/-- `Context.mov`: the opcode of the first matching case; `none` = the default
branch (`adderrormessage("could not deduce mov instruction")`) -/
def deduce (rows : List RRow) (a b : Operand) (an bn tinfo : Nat) : Option Nat :=
  (rows.find? (fun r => r.matches a b an bn tinfo)).map (·.opcode)

inductive Dir where
  | load | store
  deriving DecidableEq, Repr, Inhabited

/-- a basic Go type as `Context.mov` sees it: go/types Info flags and size -/
structure TypeInfo where
  name : Nat
  info : Nat
  size : Nat
  deriving DecidableEq, Repr, Inhabited

/-- `Context.Load(src, dst)`: `c.mov(b.Addr, dst, Sizeof(b.Type), dst.Size(), b.Type)`;
`Context.Store(src, dst)`: `c.mov(src, b.Addr, src.Size(), Sizeof(b.Type), b.Type)` -/
def loadStore (rows : List RRow) (d : Dir) (mem : Operand) (r : RegV) (t : TypeInfo) : Option Nat :=
  match d with
  | .load => deduce rows mem (.reg r) t.size r.size t.info
  | .store => deduce rows (.reg r) mem r.size t.size t.info

/-! ## What the selected instructions do -/

inductive Ext where
  | none | zero | sign
  deriving DecidableEq, Repr, Inhabited

/-- memory access width in bytes; for loads into a general-purpose register the
extension applied and the number of low register bytes that then hold the value -/
structure Sem where
  memWidth : Nat
  ext : Ext
  regBytes : Nat
  deriving DecidableEq, Repr, Inhabited

def oKMOVB := 0x4b4d4f5642058f8a0e36  -- KMOVB
def oKMOVW := 0x4b4d4f565705e257eadd  -- KMOVW
def oKMOVD := 0x4b4d4f56440566e9ab03  -- KMOVD
def oKMOVQ := 0x4b4d4f5651050b344fe8  -- KMOVQ
def oMOVB := 0x4d4f56420447cf4f6f  -- MOVB
def oMOVBLSX := 0x4d4f56424c5358074d567a56  -- MOVBLSX
def oMOVBLZX := 0x4d4f56424c5a58079c94c11f  -- MOVBLZX
def oMOVBQSX := 0x4d4f56425153580759a84a75  -- MOVBQSX
def oMOVBQZX := 0x4d4f5642515a5807886af13c  -- MOVBQZX
def oMOVBWSX := 0x4d4f5642575358075d2536c7  -- MOVBWSX
def oMOVBWZX := 0x4d4f5642575a58078ce78d8e  -- MOVBWZX
def oMOVL := 0x4d4f564c04a0776268  -- MOVL
def oMOVLQSX := 0x4d4f564c51535807b9773d46  -- MOVLQSX
def oMOVLQZX := 0x4d4f564c515a580768b5860f  -- MOVLQZX
def oMOVOU := 0x4d4f564f5505a1e7873d  -- MOVOU
def oMOVQ := 0x4d4f565104c3710eb1  -- MOVQ
def oMOVSD := 0x4d4f565344052d20fa92  -- MOVSD
def oMOVSS := 0x4d4f56535305aef37f55  -- MOVSS
def oMOVW := 0x4d4f5657042a12ab84  -- MOVW
def oMOVWLSX := 0x4d4f56574c5358072a91ddfb  -- MOVWLSX
def oMOVWLZX := 0x4d4f56574c5a5807fb5366b2  -- MOVWLZX
def oMOVWQSX := 0x4d4f5657515358073e6fedd8  -- MOVWQSX
def oMOVWQZX := 0x4d4f5657515a5807efad5691  -- MOVWQZX
def oVMOVD := 0x564d4f564405fe99f830  -- VMOVD
def oVMOVDQU := 0x564d4f5644515507955869d5  -- VMOVDQU
def oVMOVDQU8 := 0x564d4f5644515538080c2c2921  -- VMOVDQU8
def oVMOVDQU16 := 0x564d4f56445155313609801ffd2a  -- VMOVDQU16
def oVMOVDQU32 := 0x564d4f56445155333209b5445bb1  -- VMOVDQU32
def oVMOVDQU64 := 0x564d4f5644515536340921500ac1  -- VMOVDQU64
def oVMOVQ := 0x564d4f56510593441cdb  -- VMOVQ
def oVMOVSD := 0x564d4f56534406801747c6  -- VMOVSD
def oVMOVSS := 0x564d4f5653530603c4c201  -- VMOVSS

/-- (opcode, memory width, extension, register bytes holding the value after a
load into a GP register).  Width 0 stands for "the width of the vector register". -/
def semTable : List (Nat × Nat × Ext × Nat) := [
  (oKMOVB, 1, .zero, 8), (oKMOVW, 2, .zero, 8), (oKMOVD, 4, .zero, 8), (oKMOVQ, 8, .none, 8),
  (oMOVB, 1, .none, 1), (oMOVW, 2, .none, 2), (oMOVL, 4, .none, 4),
  (oMOVBWSX, 1, .sign, 2), (oMOVBWZX, 1, .zero, 2), (oMOVBLSX, 1, .sign, 4), (oMOVBLZX, 1, .zero, 4),
  (oMOVBQSX, 1, .sign, 8), (oMOVBQZX, 1, .zero, 8), (oMOVWLSX, 2, .sign, 4), (oMOVWLZX, 2, .zero, 4),
  (oMOVWQSX, 2, .sign, 8), (oMOVWQZX, 2, .zero, 8), (oMOVLQSX, 4, .sign, 8), (oMOVLQZX, 4, .zero, 8),
  -- MOVQ moves 8 bytes whatever the other operand is (r64 or xmm; the forms
  -- `MOVQ m32, xmm` / `MOVQ xmm, m32` of the database are 8-byte accesses too)
  (oMOVQ, 8, .none, 8),
  (oMOVSS, 4, .none, 0), (oMOVSD, 8, .none, 0), (oMOVOU, 16, .none, 0),
  (oVMOVD, 4, .none, 0), (oVMOVQ, 8, .none, 0), (oVMOVSS, 4, .none, 0), (oVMOVSD, 8, .none, 0),
  (oVMOVDQU, 0, .none, 0), (oVMOVDQU8, 0, .none, 0), (oVMOVDQU16, 0, .none, 0), (oVMOVDQU32, 0, .none, 0),
  (oVMOVDQU64, 0, .none, 0)]

/-- semantics of opcode `opc` moving between memory and register `r` -/
def movSem (opc : Nat) (r : RegV) : Option Sem :=
  match semTable.find? (fun e => e.1 == opc) with
  | none => none
  | some (_, w, e, rb) => some ⟨if w == 0 then r.size else w, e, rb⟩

/-! ## Go's rule -/

structure Flags where
  isBoolean : Nat
  isInteger : Nat
  isUnsigned : Nat
  isFloat : Nat
  deriving Repr, Inhabited

def has (x f : Nat) : Bool := (x &&& f) != 0

def isSigned (F : Flags) (t : TypeInfo) : Bool := has t.info F.isInteger && !has t.info F.isUnsigned
def isZeroExt (F : Flags) (t : TypeInfo) : Bool := (has t.info F.isInteger && has t.info F.isUnsigned) || has t.info F.isBoolean

/-- **The property for one (direction, type, register, opcode)**: the memory
access has exactly the component's width; a load into a wider general-purpose
register extends as Go converts (sign for signed integers, zero for unsigned
integers and booleans) to exactly the register's width; a load into a
general-purpose register of the same width is a plain move; vector and mask
destinations receive the component in their low bytes through an access of
exactly the component's width. -/
def semOK (F : Flags) (d : Dir) (t : TypeInfo) (r : RegV) (s : Sem) : Bool :=
  s.memWidth == t.size &&
  match d with
  | .store => true
  | .load =>
    if r.kind == kindGP then
      s.regBytes == r.size &&
      (if t.size == r.size then true
       else if isSigned F t then s.ext == .sign
       else if isZeroExt F t then s.ext == .zero
       else false)
    else true

/-- **Where a move must exist** (so that an error is not an acceptable answer):
integers and booleans load into every general-purpose register at least as
wide as the component and store from a general-purpose register of exactly the
component's width; floats move to and from XMM registers. -/
def mustMove (F : Flags) (d : Dir) (t : TypeInfo) (r : RegV) : Bool :=
  ((has t.info F.isInteger || has t.info F.isBoolean) && r.kind == kindGP &&
    (match d with
     | .load => decide (t.size ≤ r.size)
     | .store => t.size == r.size)) ||
  (has t.info F.isFloat && r.kind == kindVector && r.size == 16)

/-- verdict on a selected opcode -/
def opcodeOK (F : Flags) (d : Dir) (t : TypeInfo) (r : RegV) (opc : Nat) : Bool :=
  match movSem opc r with
  | none => false
  | some s => semOK F d t r s

/-! ## Representatives of the reachable inputs -/

def nV := 0x76016b643b84  -- "v": a virtual register of the class

/-- register classes `Load`/`Store` can be given: (kind, size, mask); the
predicates used by the table depend on kind and size only -/
def regClasses : List RegV := [
  ⟨kindGP, 1, 257, 1, nV⟩, ⟨kindGP, 1, 257, 2, nV⟩, ⟨kindGP, 2, 257, 3, nV⟩, ⟨kindGP, 4, 257, 7, nV⟩, ⟨kindGP, 8, 257, 15, nV⟩,
  ⟨kindVector, 16, 513, 31, nV⟩, ⟨kindVector, 32, 513, 63, nV⟩, ⟨kindVector, 64, 513, 127, nV⟩,
  ⟨kindOpmask, 8, 769, 15, nV⟩]

/-- component addresses: `name+off(FP)` (parameters / results) and `(reg)`
after `Dereference` -/
def memReps : List Operand := [
  .mem (some ⟨kindPseudo, 0, 0, 0, 0⟩) none 0 0 0,
  .mem (some ⟨kindGP, 8, 257, 15, nV⟩) none 0 0 0]

end Avo.Mov
