/-
Model of build/zmov.go (`Context.mov`: first-match deduction of a move
instruction), of `Context.Load` / `Context.Store` (build/pseudo.go) and of what
the selected instructions do to memory and registers (`movSem`, hand-written
from the architecture manuals and validated on the CPU on every run).
Core Lean only.
-/
import AvoVerif.Model.Instr
namespace Avo.Mov
open Avo Avo.Instr

/-- One case of the switch in `Context.mov`, as written:
`an == <an> && operand.<pa>(a) && bn == <bn> && operand.<pb>(b) && (t.Info() & <tmask>) <top> <tval>: c.<opcode>(a, b)` -/
structure MovRow where
  an : Nat
  pa : Nat        -- checker function name (encoded)
  bn : Nat
  pb : Nat
  tmask : Nat
  top : Nat       -- 0: `!=`, 1: `==`
  tval : Nat
  opcode : Nat    -- Context method called (encoded name)
  inOrder : Bool  -- the call passes (a, b) in that order
  deriving DecidableEq, Repr, Inhabited

/-- a row with the checker names resolved to the predicates of the model -/
structure RRow where
  an : Nat
  bn : Nat
  ca : Option OpClass
  cb : Option OpClass
  tmask : Nat
  top : Nat
  tval : Nat
  opcode : Nat
  inOrder : Bool
  deriving DecidableEq, Repr, Inhabited

def resolve (r : MovRow) : RRow :=
  ⟨r.an, r.bn, OpClass.ofChecker r.pa, OpClass.ofChecker r.pb, r.tmask, r.top, r.tval, r.opcode, r.inOrder⟩

def holdsOpt : Option OpClass → Operand → Bool
  | some c, o => c.holds o
  | none, _ => false

def tcond (r : RRow) (tinfo : Nat) : Bool :=
  if r.top == 1 then (tinfo &&& r.tmask) == r.tval else (tinfo &&& r.tmask) != r.tval

/-- the case condition (all conjuncts are pure, so the order is immaterial) -/
def RRow.matches (r : RRow) (a b : Operand) (an bn tinfo : Nat) : Bool :=
  an == r.an && (bn == r.bn && (holdsOpt r.ca a && (holdsOpt r.cb b && tcond r tinfo)))

/-- `Context.mov`: the opcode of the first matching case; `none` = the default
branch (`adderrormessage("could not deduce mov instruction")`) -/
def deduce (rows : List RRow) (a b : Operand) (an bn tinfo : Nat) : Option Nat :=
  (rows.find? (fun r => r.matches a b an bn tinfo)).map (·.opcode)

inductive Dir where
  | load | store
  deriving DecidableEq, Repr, Inhabited

/-- a basic Go type as `Context.mov` sees it: go/types Info flags and size -/
structure TypeInfo where
  name : Nat
  info : Nat
  size : Nat
  deriving DecidableEq, Repr, Inhabited

/-- `Context.Load(src, dst)`: `c.mov(b.Addr, dst, Sizeof(b.Type), dst.Size(), b.Type)`;
`Context.Store(src, dst)`: `c.mov(src, b.Addr, src.Size(), Sizeof(b.Type), b.Type)` -/
def loadStore (rows : List RRow) (d : Dir) (mem : Operand) (r : RegV) (t : TypeInfo) : Option Nat :=
  match d with
  | .load => deduce rows mem (.reg r) t.size r.size t.info
  | .store => deduce rows (.reg r) mem r.size t.size t.info

/-! ## Behaviour table -/

/-- one measured outcome of the real `Context.Load` (dir 0) / `Context.Store`
(dir 1): go/types flags and gc/amd64 size of the component's basic type, kind,
size and byte-lane mask of the register, kind of the address's base register
(0: the FP pseudo register, 1: general purpose), and what happened (`none`: an
error was recorded and no instruction added; `some opcode`) -/
structure TabRow where
  rkind : Nat
  rsize : Nat
  rmask : Nat
  mbase : Nat
  outcome : Option Nat
  deriving DecidableEq, Repr, Inhabited

/-- the outcomes for one (direction, type): grouping keeps look-ups short -/
structure TabGroup where
  dir : Nat
  tinfo : Nat
  tsize : Nat
  rows : List TabRow
  deriving DecidableEq, Repr, Inhabited

def dirIdx : Dir → Nat
  | .load => 0
  | .store => 1

/-- high-byte registers (AH, BH, CH, DH and their virtual counterparts) -/
def isHigh (kind mask : Nat) : Bool := kind == kindGP && mask == 2

/-- 0: based on the FP pseudo register; 1: on a general-purpose register; 2: anything else -/
def memBase : Operand → Nat
  | .mem (some b) none _ _ _ => if b.kind == kindPseudo then 0 else if b.kind == kindGP then 1 else 2
  | _ => 2

def TabGroup.keyOf (g : TabGroup) (d : Dir) (t : TypeInfo) : Bool :=
  g.dir == dirIdx d && (g.tinfo == t.info && g.tsize == t.size)

def TabRow.keyOf (e : TabRow) (r : RegV) (m : Operand) : Bool :=
  e.rkind == r.kind && (e.rsize == r.size && (isHigh e.rkind e.rmask == isHigh r.kind r.mask && e.mbase == memBase m))

/-- what the implementation did at the class of this input (`none`: not tabulated) -/
def behave (tab : List TabGroup) (d : Dir) (t : TypeInfo) (r : RegV) (m : Operand) : Option (Option Nat) :=
  match tab.find? (fun g => g.keyOf d t) with
  | none => none
  | some g => (g.rows.find? (fun e => e.keyOf r m)).map (·.outcome)

/-! ## What the selected instructions do -/

inductive Ext where
  | none | zero | sign
  deriving DecidableEq, Repr, Inhabited

/-- memory access width in bytes; for loads into a general-purpose register the
extension applied and the number of low register bytes that then hold the value -/
structure Sem where
  memWidth : Nat
  ext : Ext
  regBytes : Nat
  deriving DecidableEq, Repr, Inhabited

def oKMOVB := 0x4b4d4f5642058f8a0e36  -- KMOVB
def oKMOVW := 0x4b4d4f565705e257eadd  -- KMOVW
def oKMOVD := 0x4b4d4f56440566e9ab03  -- KMOVD
def oKMOVQ := 0x4b4d4f5651050b344fe8  -- KMOVQ
def oMOVB := 0x4d4f56420447cf4f6f  -- MOVB
def oMOVBLSX := 0x4d4f56424c5358074d567a56  -- MOVBLSX
def oMOVBLZX := 0x4d4f56424c5a58079c94c11f  -- MOVBLZX
def oMOVBQSX := 0x4d4f56425153580759a84a75  -- MOVBQSX
def oMOVBQZX := 0x4d4f5642515a5807886af13c  -- MOVBQZX
def oMOVBWSX := 0x4d4f5642575358075d2536c7  -- MOVBWSX
def oMOVBWZX := 0x4d4f5642575a58078ce78d8e  -- MOVBWZX
def oMOVL := 0x4d4f564c04a0776268  -- MOVL
def oMOVLQSX := 0x4d4f564c51535807b9773d46  -- MOVLQSX
def oMOVLQZX := 0x4d4f564c515a580768b5860f  -- MOVLQZX
def oMOVOU := 0x4d4f564f5505a1e7873d  -- MOVOU
def oMOVQ := 0x4d4f565104c3710eb1  -- MOVQ
def oMOVSD := 0x4d4f565344052d20fa92  -- MOVSD
def oMOVSS := 0x4d4f56535305aef37f55  -- MOVSS
def oMOVW := 0x4d4f5657042a12ab84  -- MOVW
def oMOVWLSX := 0x4d4f56574c5358072a91ddfb  -- MOVWLSX
def oMOVWLZX := 0x4d4f56574c5a5807fb5366b2  -- MOVWLZX
def oMOVWQSX := 0x4d4f5657515358073e6fedd8  -- MOVWQSX
def oMOVWQZX := 0x4d4f5657515a5807efad5691  -- MOVWQZX
def oVMOVD := 0x564d4f564405fe99f830  -- VMOVD
def oVMOVDQU := 0x564d4f5644515507955869d5  -- VMOVDQU
def oVMOVDQU8 := 0x564d4f5644515538080c2c2921  -- VMOVDQU8
def oVMOVDQU16 := 0x564d4f56445155313609801ffd2a  -- VMOVDQU16
def oVMOVDQU32 := 0x564d4f56445155333209b5445bb1  -- VMOVDQU32
def oVMOVDQU64 := 0x564d4f5644515536340921500ac1  -- VMOVDQU64
def oVMOVQ := 0x564d4f56510593441cdb  -- VMOVQ
def oVMOVSD := 0x564d4f56534406801747c6  -- VMOVSD
def oVMOVSS := 0x564d4f5653530603c4c201  -- VMOVSS

/-- (opcode, memory width, extension, register bytes holding the value after a
load into a GP register).  Width 0 stands for "the width of the vector register". -/
def semTable : List (Nat × Nat × Ext × Nat) := [
  (oKMOVB, 1, .zero, 8), (oKMOVW, 2, .zero, 8), (oKMOVD, 4, .zero, 8), (oKMOVQ, 8, .none, 8),
  (oMOVB, 1, .none, 1), (oMOVW, 2, .none, 2), (oMOVL, 4, .none, 4),
  (oMOVBWSX, 1, .sign, 2), (oMOVBWZX, 1, .zero, 2), (oMOVBLSX, 1, .sign, 4), (oMOVBLZX, 1, .zero, 4),
  (oMOVBQSX, 1, .sign, 8), (oMOVBQZX, 1, .zero, 8), (oMOVWLSX, 2, .sign, 4), (oMOVWLZX, 2, .zero, 4),
  (oMOVWQSX, 2, .sign, 8), (oMOVWQZX, 2, .zero, 8), (oMOVLQSX, 4, .sign, 8), (oMOVLQZX, 4, .zero, 8),
  -- MOVQ moves 8 bytes whatever the other operand is (r64 or xmm; the forms
  -- `MOVQ m32, xmm` / `MOVQ xmm, m32` of the database are 8-byte accesses too)
  (oMOVQ, 8, .none, 8),
  (oMOVSS, 4, .none, 0), (oMOVSD, 8, .none, 0), (oMOVOU, 16, .none, 0),
  (oVMOVD, 4, .none, 0), (oVMOVQ, 8, .none, 0), (oVMOVSS, 4, .none, 0), (oVMOVSD, 8, .none, 0),
  (oVMOVDQU, 0, .none, 0), (oVMOVDQU8, 0, .none, 0), (oVMOVDQU16, 0, .none, 0), (oVMOVDQU32, 0, .none, 0),
  (oVMOVDQU64, 0, .none, 0)]

/-- semantics of opcode `opc` moving between memory and register `r` -/
def movSem (opc : Nat) (r : RegV) : Option Sem :=
  match semTable.find? (fun e => e.1 == opc) with
  | none => none
  | some (_, w, e, rb) => some ⟨if w == 0 then r.size else w, e, rb⟩

/-! ## Go's rule -/

structure Flags where
  isBoolean : Nat
  isInteger : Nat
  isUnsigned : Nat
  isFloat : Nat
  deriving Repr, Inhabited

def has (x f : Nat) : Bool := (x &&& f) != 0

def isSigned (F : Flags) (t : TypeInfo) : Bool := has t.info F.isInteger && !has t.info F.isUnsigned
def isZeroExt (F : Flags) (t : TypeInfo) : Bool := (has t.info F.isInteger && has t.info F.isUnsigned) || has t.info F.isBoolean

/-- **The property for one (direction, type, register, opcode)**: the memory
access has exactly the component's width; a load into a wider general-purpose
register extends as Go converts (sign for signed integers, zero for unsigned
integers and booleans) to exactly the register's width; a load into a
general-purpose register of the same width is a plain move; vector and mask
destinations receive the component in their low bytes through an access of
exactly the component's width. -/
def semOK (F : Flags) (d : Dir) (t : TypeInfo) (r : RegV) (s : Sem) : Bool :=
  s.memWidth == t.size &&
  match d with
  | .store => true
  | .load =>
    if r.kind == kindGP then
      s.regBytes == r.size &&
      (if t.size == r.size then true
       else if isSigned F t then s.ext == .sign
       else if isZeroExt F t then s.ext == .zero
       else false)
    else true

/-- integers, booleans and pointers: the values Go keeps in integer registers.
`unsafe.Pointer` is the only basic type a component resolves to whose go/types
`Info()` has no flag at all (`Invalid` never resolves). -/
def isPointer (t : TypeInfo) : Bool := t.info == 0
def isWordLike (F : Flags) (t : TypeInfo) : Bool :=
  has t.info F.isInteger || has t.info F.isBoolean || isPointer t

/-- **Class table.** The component widths for which the x86 instruction set has
a two-operand move between memory and a register of the given class that puts
the value into the register's low bytes (loads) / writes exactly that many
bytes (stores):
* general purpose, `n` bytes: loads of 1, 2, 4, 8 bytes up to `n` (`MOV`,
  `MOVZX`, `MOVSX`, `MOVSXD`); stores of exactly `n` bytes (`MOV`);
* mask (64 bits): 1, 2, 4, 8 bytes (`KMOVB/W/D/Q`, zero-extending);
* XMM: 4 and 8 bytes (`MOVD`/`MOVQ`, `MOVSS`/`MOVSD` and their VEX forms; 16
  bytes too, but no scalar component is that wide);
* YMM, ZMM: none (scalar moves take XMM operands only; the full-width moves
  are 32 / 64 bytes wide). -/
def moveWidths (d : Dir) (r : RegV) : List Nat :=
  if r.kind == kindGP then
    (match d with
     | .load => [1, 2, 4, 8].filter (fun w => decide (w ≤ r.size))
     | .store => [r.size])
  else if r.kind == kindOpmask then [1, 2, 4, 8]
  else if r.kind == kindVector && r.size == 16 then [4, 8]
  else []

/-- which register files hold a Go value of the type: floats live in vector
registers only (Go has no bit-exact conversion of a float to an integer
register; `math.Float32bits` is a function), integers, booleans and pointers
may be put into general-purpose, mask and vector registers -/
def classFits (F : Flags) (t : TypeInfo) (r : RegV) : Bool :=
  if has t.info F.isFloat then r.kind == kindVector else isWordLike F t

/-- **Where a move must exist** (so that an error is NOT an acceptable answer):
the type's values fit the register class and the class table has a move of
exactly the component's width.  Everywhere else no x86 instruction moves
exactly the component's bytes, and an error is the right answer. -/
def mustMove (F : Flags) (d : Dir) (t : TypeInfo) (r : RegV) : Bool :=
  classFits F t r && (moveWidths d r).contains t.size

/-- verdict on a selected opcode -/
def opcodeOK (F : Flags) (d : Dir) (t : TypeInfo) (r : RegV) (opc : Nat) : Bool :=
  match movSem opc r with
  | none => false
  | some s => semOK F d t r s

/-- **Acceptor for one outcome of `Load`/`Store`** (`none` = an error was
recorded and no instruction added): an error only where no move exists; a
selected opcode must move exactly the component's bytes with Go's rule. -/
def acceptSel (F : Flags) (d : Dir) (t : TypeInfo) (r : RegV) (o : Option Nat) : Bool :=
  match o with
  | none => !mustMove F d t r
  | some opc => opcodeOK F d t r opc

/-- **The property for one outcome, declaratively.** -/
def SelOK (F : Flags) (d : Dir) (t : TypeInfo) (r : RegV) : Option Nat → Prop
  | none => ¬ (classFits F t r = true ∧ t.size ∈ moveWidths d r)
  | some opc => ∃ s, movSem opc r = some s ∧ s.memWidth = t.size ∧
      (d = .load → r.kind = kindGP → s.regBytes = r.size ∧
        (t.size ≠ r.size →
          (isSigned F t = true ∧ s.ext = .sign) ∨
          (isSigned F t = false ∧ isZeroExt F t = true ∧ s.ext = .zero)))

/-! ## Acceptors on what the CPU did (byte images) -/

def leNat (bs : List Nat) : Nat := bs.foldr (fun b acc => acc * 256 + b) 0

def leBytes (n k : Nat) : List Nat := (List.range k).map (fun i => (n >>> (8 * i)) % 256)

/-- sign- or zero-extension of the `w`-byte little-endian value `v` to `k` bytes -/
def extend (e : Ext) (v w k : Nat) : Nat :=
  match e with
  | .sign => if w > 0 && (v >>> (8 * w - 1)) % 2 == 1 then v + ((2 ^ (8 * k) - 1) - (2 ^ (8 * w) - 1)) else v
  | _ => v

/-- Go's conversion of a component of type `t` (raw value `v`, `t.size` bytes)
to the width `k` of a general-purpose register -/
def goConvert (F : Flags) (t : TypeInfo) (v k : Nat) : Nat :=
  if isSigned F t then extend .sign v t.size k else v

/-- a store of a `ts`-byte component at offset `off` of a memory image: the
component's bytes are the register's low bytes, every other byte is unchanged -/
def acceptStoreBytes (ts off : Nat) (src before after : List Nat) : Bool :=
  after.length == before.length && ((after.drop off).take ts == src.take ts &&
    (after.take off == before.take off && after.drop (off + ts) == before.drop (off + ts)))

/-- a load into a general-purpose register of `rsize` bytes whose value starts
at byte `roff` of the register image: the register holds Go's conversion and
depends on exactly the component's bytes `[off, off+ts)` of memory -/
def acceptLoadGP (F : Flags) (t : TypeInfo) (rsize roff off : Nat) (v reg : List Nat) (lo hi cnt : Nat) : Bool :=
  lo == off && (hi == off + t.size && (cnt == t.size &&
    (reg.drop roff).take rsize == leBytes (goConvert F t (leNat v) rsize) rsize))

/-- a load into a vector or mask register: the component in the low bytes,
dependence on exactly the component's bytes -/
def acceptLoadLow (ts off : Nat) (v reg : List Nat) (lo hi cnt : Nat) : Bool :=
  lo == off && (hi == off + ts && (cnt == ts && reg.take ts == v))

/-! ## Representatives of the reachable inputs -/

def nV := 0x76016b643b84  -- "v": a virtual register of the class

/-- register classes `Load`/`Store` can be given: (kind, size, mask); the
predicates used by the table depend on kind and size only -/
def regClasses : List RegV := [
  ⟨kindGP, 1, 257, 1, nV⟩, ⟨kindGP, 1, 257, 2, nV⟩, ⟨kindGP, 2, 257, 3, nV⟩, ⟨kindGP, 4, 257, 7, nV⟩, ⟨kindGP, 8, 257, 15, nV⟩,
  ⟨kindVector, 16, 513, 31, nV⟩, ⟨kindVector, 32, 513, 63, nV⟩, ⟨kindVector, 64, 513, 127, nV⟩,
  ⟨kindOpmask, 8, 769, 15, nV⟩]

/-- component addresses: `name+off(FP)` (parameters / results) and `(reg)`
after `Dereference` -/
def memReps : List Operand := [
  .mem (some ⟨kindPseudo, 0, 0, 0, 0⟩) none 0 0 0,
  .mem (some ⟨kindGP, 8, 257, 15, nV⟩) none 0 0 0]

end Avo.Mov
