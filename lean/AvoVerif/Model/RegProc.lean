/-
C20 model addition (core Lean only): the register table over the life of a
PROCESS.

`reg.Families` (and with it `Family.Registers/Lookup`, `reg.LookupID`,
`reg.LookupPhysical`, the conversions `As8 … AsZ` of every physical register,
`Allocation.LookupRegister`) is package-level state of the library, built once
when the package is initialised.  Everything a program does afterwards through
the public API — building functions through a `build.Context` and compiling
them (`pass.Compile`, `build.Main`), creating allocators directly
(`pass.NewAllocator(ForKind)`, `SetPriority`, `Add`, `AddInterference`,
`Allocate`), sorting / overwriting / truncating / appending to the slices the
accessors return, creating Collections and Contexts, querying the table in any
order — leaves that table what it was: the register model is a CONSTANT of the
process.

`procStep` is that (trivial) state machine: no operation has access to the
`regs` field.  The statement is `proc_table_const` (Props/C20Proc.lean); the
point is the tie: the harness re-evaluates the exhaustive table / API
correspondence after generated process histories (`tblh`, `after`,
`accept-after` requests) and the driver answers them with this constant table.
-/
import AvoVerif.Model.RegHW
namespace Avo.Reg

/-- One thing a program does with the library (token `<name>[:<arg>…]`). -/
inductive ProcOp where
  /-- a function built through a `build.Context` (registers of the kinds `shape`
  names) and compiled with `pass.Compile` -/
  | compile (shape : String)
  /-- the same through `build.Main` (compile, print assembly, print stubs) -/
  | main (shape : String)
  /-- an allocator created and run directly: `pass.NewAllocator(ForKind)`,
  `SetPriority`, `Add`, `AddInterference`, `Allocate` -/
  | allocator (kind : Nat) (variant : String)
  /-- the caller mutates the slice `Family.Registers()` returned (sort, reverse,
  overwrite, truncate and append, nil out) -/
  | mutate (kind : Nat) (how : String)
  /-- a `reg.Collection` created and used (registers, conversions) -/
  | collection
  /-- a `build.Context` created and used without compiling -/
  | context
  /-- the table queried (lookups, conversions) in a shuffled order -/
  | query
  /-- `n` operations generated from `seed` -/
  | rand (seed n : Nat)
  /-- the scripted sweep and `n` random histories of calls on a `build.Context`
  (Model/RegCtx.lean; they compile, too) generated from `seed` -/
  | ctxhist (seed n : Nat)
  deriving Repr, DecidableEq

/-- The process as far as the register model is concerned: the table, and
counters of what has happened (none of which the table depends on). -/
structure ProcS where
  regs : List RegRow
  compiled : Nat := 0
  allocators : Nat := 0
  others : Nat := 0
  deriving Repr

def procStep (s : ProcS) : ProcOp → ProcS
  | .compile _ => { s with compiled := s.compiled + 1 }
  | .main _ => { s with compiled := s.compiled + 1 }
  | .allocator _ _ => { s with allocators := s.allocators + 1 }
  | .rand _ n => { s with others := s.others + n }
  | _ => { s with others := s.others + 1 }

def procRun (s : ProcS) (ops : List ProcOp) : ProcS := ops.foldl procStep s

end Avo.Reg
