/-
How the Go assembler's lexer (text/scanner, configured by cmd/asm/internal/lex
with ScanInts | ScanFloats) cuts a DECIMAL number token out of the text, and what
that means for a floating-point DATA value `$(literal)`: the operand is read as a
float constant only if the text between the parentheses — after unary signs — is
ONE number token that is a float (has a fraction or an exponent) directly
followed by the closing parenthesis.  Core Lean only.

Only decimal literals are modelled (no `0x`, no `_` separators, no leading `.`):
`modelled` says whether a text is inside that fragment.
-/
namespace Avo.AsmLit

abbrev Txt := List Char

def isDig (c : Char) : Bool := c.isDigit

/-- The exponent part, if there is one: `e`/`E`, an optional sign, the digits that follow. -/
def scanExp (tok r : Txt) (fl : Bool) : Txt × Txt × Bool :=
  match r with
  | e :: r1 =>
    if e = 'e' ∨ e = 'E' then
      match r1 with
      | '+' :: x => (tok ++ e :: '+' :: x.takeWhile isDig, x.dropWhile isDig, true)
      | '-' :: x => (tok ++ e :: '-' :: x.takeWhile isDig, x.dropWhile isDig, true)
      | x => (tok ++ e :: x.takeWhile isDig, x.dropWhile isDig, true)
    else (tok, r, fl)
  | [] => (tok, r, fl)

/-- The number token at the start of `t` (which starts with a digit): token, rest, whether it is a float. -/
def scanNumber (t : Txt) : Txt × Txt × Bool :=
  let ip := t.takeWhile isDig
  match t.dropWhile isDig with
  | '.' :: r1 => scanExp (ip ++ '.' :: r1.takeWhile isDig) (r1.dropWhile isDig) true
  | r => scanExp ip r false

/-- Unary signs in front of the literal (cmd/asm's `floatExpr` recurses on them). -/
def stripSigns : Txt → Txt
  | '-' :: r => stripSigns r
  | '+' :: r => stripSigns r
  | r => r

def modelled (t : Txt) : Bool :=
  match t with
  | c :: _ => isDig c && t.all (fun x => isDig x || x == '.' || x == 'e' || x == 'E' || x == '+' || x == '-' || x == ')')
  | [] => false

/-- `body` = the text after `$(` up to and including the closing parenthesis: one float token, then `)`. -/
def floatBodyOK (body : Txt) : Bool :=
  let t := stripSigns body
  match t with
  | c :: _ =>
    if isDig c then
      let r := scanNumber t
      r.2.2 && r.2.1 == [')']
    else false
  | [] => false

/-- A float DATA value as the printer writes it: `$(` … `)`. -/
def floatOperandOK (t : Txt) : Bool :=
  match t with
  | '$' :: '(' :: body => floatBodyOK body
  | _ => false

/-- The shape of avo's `asmfloat`: the plain decimal text, with `.0` appended when it has no point. -/
def withPoint (s : Txt) : Txt := if s.contains '.' then s else s ++ ['.', '0']

end Avo.AsmLit
