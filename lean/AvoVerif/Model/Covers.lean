/-
The judgement of C04 on one measured instruction instance: every register
byte lane observed (on the CPU) to be written / read is among the lanes avo
declares as written / read.  Sets are MaskSets (register id ↦ lane mask).
Core Lean only.
-/
import AvoVerif.Model.MaskSet
namespace Avo.RW
open Avo.MaskSet

/-- Every lane of every entry of `obs` is in `decl`. -/
def covers (decl obs : MS) : Bool :=
  obs.all (fun p => get decl p.1 &&& p.2 == p.2)

/-- The lanes of `obs` that `decl` lacks, entry by entry (empty entries dropped). -/
def undeclared (decl obs : MS) : MS :=
  obs.filterMap (fun p =>
    let x := clear p.2 (get decl p.1)
    if x = 0 then none else some (p.1, x))

/-- C04 for one instance: observed writes ⊆ declared writes and observed reads ⊆ declared reads. -/
def judge (declR declW obsR obsW : MS) : Bool :=
  covers declR obsR && covers declW obsW

/-- Outcome of running an instance on the host: only `executed` is covered by a declared read/write set
(a fault transfers control and is no register effect avo can declare). -/
def executes (outcome : String) : Bool := outcome == "executed"

/-- Outcome of building an instance through the real constructor, compile pipeline and register extraction. -/
def builds (outcome : String) : Bool := outcome == "built"

end Avo.RW
