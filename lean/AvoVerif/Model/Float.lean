/-
Executable model of what cmd/asm does with a floating-point DATA value:
read the decimal text as the nearest binary64 (strconv.ParseFloat(text, 64),
IEEE round-to-nearest-even) and, for a 4-byte datum, convert that binary64 to
the nearest binary32 (Go's float32(x) conversion).  Exact rational arithmetic
on `Nat`; core Lean only.

This is a *specification-level* model (correct rounding as IEEE 754 defines
it), not a proof about Go's strconv; it is compared with strconv on every
float the harness generates.
-/
import AvoVerif.Model.NumText
namespace Avo.Float
open Avo.NumText

/-- A binary interchange format: `p` significand bits (with the hidden one),
`emax` the largest unbiased exponent (= the bias); the smallest normal exponent
is `1 - emax`. -/
structure Fmt where
  p    : Nat
  emax : Nat

def binary64 : Fmt := ⟨53, 1023⟩
def binary32 : Fmt := ⟨24, 127⟩

/-- `floor (log2 n)` for `n > 0`, by counting halvings. -/
def log2Fuel : Nat → Nat → Nat
  | 0, _ => 0
  | fuel + 1, n => if n < 2 then 0 else log2Fuel fuel (n / 2) + 1

def log2 (n : Nat) : Nat := log2Fuel n n

/-- Numerator and denominator of `(n/d) / 2^e`. -/
def scaled (n d : Nat) (e : Int) : Nat × Nat :=
  if e < 0 then (n * 2 ^ e.natAbs, d) else (n, d * 2 ^ e.toNat)

/-- Round-half-even of `num/den` to an integer. -/
def roundHalfEven (num den : Nat) : Nat :=
  let q := num / den
  let r := num % den
  if 2 * r > den ∨ (2 * r = den ∧ q % 2 = 1) then q + 1 else q

/-- The magnitude bits (sign excluded) of the float of format `f` nearest to
the positive rational `n/d` (`n, d > 0`), ties to even; overflow gives the
infinity pattern. -/
def roundMag (f : Fmt) (n d : Nat) : Nat :=
  if n = 0 then 0 else
  -- first guess of floor(log2(n/d)), corrected below
  let k : Int := (log2 n : Int) - (log2 d : Int)
  let s := scaled n d k
  let fl : Int := if s.1 < s.2 then k - 1 else k       -- floor(log2(n/d))
  let emin : Int := 1 - (f.emax : Int)
  let e0 : Int := fl - ((f.p : Int) - 1)                 -- exponent of the unit in the last place
  let e : Int := if e0 < emin - ((f.p : Int) - 1) then emin - ((f.p : Int) - 1) else e0
  let s := scaled n d e
  let m := roundHalfEven s.1 s.2
  -- carry into the next binade
  let (m, e) := if m = 2 ^ f.p then (2 ^ (f.p - 1), e + 1) else (m, e)
  if m < 2 ^ (f.p - 1) then m                              -- subnormal (or zero)
  else
    let biased : Int := e + ((f.p : Int) - 1) + (f.emax : Int)
    if biased ≥ 2 * (f.emax : Int) + 1 then (2 * f.emax + 1) * 2 ^ (f.p - 1)   -- overflow: infinity
    else biased.toNat * 2 ^ (f.p - 1) + (m - 2 ^ (f.p - 1))

/-- Value of magnitude bits of format `f` as a rational `(n, d)`. -/
def magValue (f : Fmt) (bits : Nat) : Nat × Nat :=
  let be := bits / 2 ^ (f.p - 1)
  let mant := bits % 2 ^ (f.p - 1)
  let m := if be = 0 then mant else mant + 2 ^ (f.p - 1)
  let e : Int := (if be = 0 then 1 else (be : Int)) - (f.emax : Int) - ((f.p : Int) - 1)
  if e < 0 then (m, 2 ^ e.natAbs) else (m * 2 ^ e.toNat, 1)

/-- Decimal text `[+-]ddd[.ddd]` → (negative, n, d) with value `n/d`. -/
def parseDecimal (cs : List Char) : Option (Bool × Nat × Nat) :=
  let (neg, body) := match cs with
    | '-' :: r => (true, r)
    | '+' :: r => (false, r)
    | r => (false, r)
  let ip := body.takeWhile (· != '.')
  let rest := body.dropWhile (· != '.')
  let fp := match rest with
    | _ :: r => r
    | [] => []
  if ip.isEmpty && fp.isEmpty then none else
  match readDigits 10 (ip ++ fp) 0 with
  | some n => some (neg, n, 10 ^ fp.length)
  | none => none

/-- Any run of unary `+` / `-` in front of the literal (cmd/asm's `floatExpr` and
`expr` both recurse on unary signs); the flag is the parity of the minus signs. -/
def stripSigns : List Char → Bool → Bool × List Char
  | '-' :: r, neg => stripSigns r (!neg)
  | '+' :: r, neg => stripSigns r neg
  | r, neg => (neg, r)

/-- An *integer* literal as cmd/asm reads it (`strconv.ParseUint(s, 0, 64)`):
`0x` hexadecimal, a leading `0` octal, decimal otherwise; 64 bits at most. -/
def parseAsmInt (cs : List Char) : Option Nat :=
  let v := match cs with
    | ['0'] => some 0
    | '0' :: 'x' :: r => parseNat 16 r
    | '0' :: 'X' :: r => parseNat 16 r
    | '0' :: r => parseNat 8 r
    | _ => parseNat 10 cs
  match v with
  | some n => if n < 2 ^ 64 then some n else none
  | none => none

/-- Bits the assembler stores for a parenthesised DATA value `$(text)` of `len`
bytes.  The operand is a floating-point constant only if the scanner finds a
float token, i.e. the literal has a decimal point (`FormatFloat(…, 'f', …)` never
prints an exponent): then nearest binary64, and for 4 bytes the nearest binary32
of that.  A literal WITHOUT a decimal point is an integer expression for cmd/asm
(issue 387): `$(2)` stores the integer 2, not the float 2.0 — the two's
complement of the signed integer in `len` bytes. -/
def asmFloat (cs : List Char) (len : Nat) : Option Nat :=
  let (neg, body) := stripSigns cs false
  if !(len = 4 ∨ len = 8) then none
  else if !body.contains '.' then
    match parseAsmInt body with
    | none => none
    | some v =>
      let i : Int := if neg then -(v : Int) else (v : Int)
      some (i % (2 ^ (8 * len) : Int)).toNat
  else
  match parseDecimal body with
  | none => none
  | some (_, n, d) =>
    let m64 := roundMag binary64 n d
    if len = 8 then some (m64 + (if neg then 2 ^ 63 else 0))
    else
      let m32 :=
        if m64 ≥ 2047 * 2 ^ 52 then 255 * 2 ^ 23   -- infinity stays infinity
        else
          let v := magValue binary64 m64
          roundMag binary32 v.1 v.2
      some (m32 + (if neg then 2 ^ 31 else 0))

/-- Direct correctly rounded conversion to binary32 (what a single rounding
would give), for comparison with the assembler's two-step conversion. -/
def directF32 (cs : List Char) : Option Nat :=
  match parseDecimal cs with
  | none => none
  | some (neg, n, d) => some (roundMag binary32 n d + (if neg then 2 ^ 31 else 0))

end Avo.Float
