/-
C04 — acceptor for ONE instance of a form row with its concrete operands (`accept-decl` of drv_c04): the register
sets the real code declares (InputRegisters / OutputRegisters after the compile pipeline) contain, lane by lane,
the registers of EVERY entry of the row — explicit and implicit — according to that entry's action, whatever
coincidences there are between the registers of different entries (an explicit operand that is the implicit
register of the same form or another view of it, two explicit operands naming one register, a memory operand
addressed through a register that is also an operand).  Core Lean only.  Soundness: `Props/C04Alias`.
-/
import AvoVerif.Model.BuildRW
import AvoVerif.Model.Covers
namespace Avo.BuildRW
open Avo.Reg Avo.UseDef Avo.MaskSet Avo.RW

/-- `declR`/`declW` (as reported by the implementation) cover the reads / writes the row's entries specify for the
operands they are paired with.  `false` when the row asks for more operands than there are. -/
def acceptDecl (c : Bool) (specs : List Spec) (impls ops : List Opnd) (declR declW : MS) : Bool :=
  match assign specs impls ops with
  | none => false
  | some a => covers declR (ofRegs (specReads c a)) && covers declW (ofRegs (specWrites a))

/-- the lanes the declared sets lack (for the report): (reads, writes) -/
def declMissing (c : Bool) (specs : List Spec) (impls ops : List Opnd) (declR declW : MS) : MS × MS :=
  match assign specs impls ops with
  | none => ([], [])
  | some a => (undeclared declR (ofRegs (specReads c a)), undeclared declW (ofRegs (specWrites a)))

end Avo.BuildRW
