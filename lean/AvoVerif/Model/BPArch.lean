/-
C15 — the ARCHITECTURAL notion of "the function can modify the base pointer".

`Model/BP` describes the pass on the lists of registers avo declares as outputs.
This file describes what the processor does to general-purpose register 5,
independently of any declaration: an instruction is a function from the register
file to a list of register writes, a write goes through a view (8, 16, 32 or 64
bits) and follows the x86-64 rules — in particular a 32-bit write CLEARS bits
32..63, so that "moving EBP onto itself" is not a no-op.  Core Lean only.
-/
import AvoVerif.Model.BP
namespace Avo.BP
open Avo.Reg

def W32 : Nat := 4294967296
def W64 : Nat := 18446744073709551616

/-- The value read through a view of a 64-bit general-purpose register. -/
def readView (mask x : Nat) : Nat :=
  if mask = S8L then x % 256
  else if mask = S8H then x / 256 % 256
  else if mask = S16 then x % 65536
  else if mask = S32 then x % W32
  else x % W64

/-- The 64-bit register after `v` is written through a view (x86-64): an 8- or
16-bit write replaces those bits and keeps the rest; a 32-bit write replaces
bits 0..31 and ZEROES bits 32..63; a 64-bit write replaces everything. -/
def writeView (mask old v : Nat) : Nat :=
  if mask = S8L then old / 256 * 256 + v % 256
  else if mask = S8H then old / 65536 * 65536 + (v % 256) * 256 + old % 256
  else if mask = S16 then old / 65536 * 65536 + v % 65536
  else if mask = S32 then v % W32
  else v % W64

/-- The physical general-purpose register file: hardware number → 64-bit value
(number 5 is the base pointer). -/
abbrev GPFile := Nat → Nat

/-- One architectural register write. -/
structure AWrite where
  dst : R
  val : Nat

def isPhysGP (r : R) : Bool := !idIsVirtual r.id && idKind r.id == kindGP

def applyWrite (σ : GPFile) (w : AWrite) : GPFile :=
  fun n => if isPhysGP w.dst && idIndex w.dst.id == n then writeView w.dst.mask (σ n) w.val else σ n

def applyWrites (σ : GPFile) (ws : List AWrite) : GPFile := ws.foldl applyWrite σ

/-- An instruction as both sides see it: `outs` = the registers avo declares as
its outputs (what `EnsureBasePointerCalleeSaved` scans); `sem` = what the
processor does: the register writes it performs from a given register file.
Nothing relates the two a priori. -/
structure AInstr where
  outs : List R
  sem : GPFile → List AWrite

def AInstr.exec (i : AInstr) (σ : GPFile) : GPFile := applyWrites σ (i.sem σ)

def execAll (is : List AInstr) (σ : GPFile) : GPFile := is.foldl (fun s i => i.exec s) σ

/-- The one thing C15 needs of C04, at the architectural level: whenever the
instruction writes ANY lane of general-purpose register 5 — whatever the width
(a 32-bit write counts like a 64-bit one), whatever the value, its own value
included — some declared output is a view of register 5. -/
def Covers (i : AInstr) : Prop :=
  ∀ σ w, w ∈ i.sem σ → isBPHW w.dst = true → i.outs.any isBPHW = true

/-- "The function can modify BP", as the form sweep judges it: the instruction
was MEASURED to change the caller-visible BP when executed alone, or a
destination operand of its table row (read off the row's operand actions by the
harness, by position) is a view of register 5, or a declared output is. -/
def clobArch (measured : Bool) (dests outs : List R) : Bool :=
  measured || dests.any isBPHW || outs.any isBPHW

/-- A scan that leaves out the instructions satisfying `ex` (the shape of an
"optimisation" of the pass: self-moves, instructions that "obviously" do not
change the register, …). -/
def clobbersExempt (ex : AInstr → Bool) (is : List AInstr) : Bool :=
  is.any (fun i => !ex i && i.outs.any isBPHW)

/-- id of the physical general-purpose register number 5. -/
def bpID : Nat := 327936

/-- `MOVx BP, BP` in the width of `mask`: reads the view, writes it back.  avo
declares the written view as output (the 64-bit one for a 32-bit write, after
`ZeroExtend32BitOutputs`). -/
def movSelf (mask : Nat) : AInstr :=
  { outs := [⟨bpID, if mask = S32 then S64 else mask⟩]
    sem := fun σ => [⟨⟨bpID, mask⟩, readView mask (σ 5)⟩] }

end Avo.BP
