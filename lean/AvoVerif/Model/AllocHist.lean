/-
Model of a PROCESS that uses the public allocator API of pass/alloc.go:
`NewAllocatorForKind`, `NewAllocator`, `(*Allocator).SetPriority / Add / AddInterference / Allocate`
on any number of allocators, interleaved in any order (C17: "independent of previous generations
in the process").  Core Lean only.

The state of the process is the list of the allocator objects created so far; a handle is an index
into it.  The only thing allocators have in common is the register table `tbl` — a value, not an
object: a new allocator derives its candidate list from the table alone (`freshRegs`), whatever
happened before.  That this is what the code does is not assumed: the harness plays generated
histories on the real code in a process that has been made dirty before, and compares every answer
with `run` (request `allochist`).

Limit: `Allocate` consumes the allocator in the code (it prunes `possible`, `edges` and fills
`allocation` in place); the model answers the allocation and leaves the object unchanged, and the
generated histories do not use a handle after its `Allocate`.
-/
import AvoVerif.Model.Alloc
namespace Avo.AllocHist
open Avo.Reg Avo.Alloc

/-- One `*pass.Allocator`. -/
structure Obj where
  /-- `registers`: the candidate list, kept sorted by (priority descending, id ascending) -/
  regs : List Nat
  /-- `priority`: latest entry first -/
  prio : List (Nat × Int)
  /-- `possible` -/
  poss : List (Nat × List Nat)
  /-- `edges` -/
  edges : List (Nat × Nat)
  deriving Repr, Inhabited, DecidableEq

/-- `a.priority[id]` (0 when absent). -/
def prioOf (pr : List (Nat × Int)) (id : Nat) : Int :=
  match pr.find? (·.1 == id) with
  | some (_, p) => p
  | none => 0

/-- Operations on one allocator. -/
inductive ObjOp where
  | prio (id : Nat) (p : Int)     -- SetPriority
  | add (v : Nat)                 -- Add
  | edge (x y : Nat)              -- AddInterference
  | alloc                         -- Allocate
  deriving Repr, DecidableEq

abbrev ARes := Except AErr (List (Nat × Nat))

def stepObj (o : Obj) : ObjOp → Obj × Option ARes
  | .prio id p =>
    let pr := (id, p) :: o.prio
    ({ o with prio := pr, regs := sortRegs (prioOf pr) o.regs }, none)
  | .add v => ({ o with poss := addVirt o.regs o.poss v }, none)
  | .edge x y => ({ o with poss := addVirt o.regs (addVirt o.regs o.poss x) y, edges := o.edges ++ [(x, y)] }, none)
  | .alloc => (o, some (allocLoop (o.poss.length + 1) { possible := o.poss, allocation := [], edges := o.edges }))

/-- Run operations on one allocator: final object and the answers of its `Allocate` calls. -/
def runObj (o : Obj) : List ObjOp → Obj × List ARes
  | [] => (o, [])
  | op :: ops =>
    let (o', r) := stepObj o op
    let (o'', rs) := runObj o' ops
    (o'', match r with | some a => a :: rs | none => rs)

/-- The distinct ids of the non-restricted rows given to `NewAllocator`, by id (all priorities are 0). -/
def mkRegs (ids : List Nat) : List Nat := sortRegs (fun _ => 0) ids.eraseDups

/-- `NewAllocator`: fails on an empty id set. -/
def mkObj (ids : List Nat) : Option Obj :=
  let rs := mkRegs ids
  if rs.isEmpty then none else some { regs := rs, prio := [], poss := [], edges := [] }

/-- The ids `NewAllocatorForKind` hands to `NewAllocator`: the non-restricted registers of the family. -/
def familyIds (tbl : List RegRow) (kind : Nat) : List Nat :=
  ((tbl.filter (fun r => r.kind == kind)).filter (fun r => r.info &&& infoRestricted == 0)).map (·.id)

/-- The candidate list of a NEW allocator of a kind: a function of the table alone. -/
def freshRegs (tbl : List RegRow) (kind : Nat) : List Nat := mkRegs (familyIds tbl kind)

/-- Operations of the process. -/
inductive Op where
  | new (kind : Nat)                       -- NewAllocatorForKind
  | newFrom (rows : List (Nat × Nat))      -- NewAllocator on caller-chosen registers (id, info)
  | on (h : Nat) (op : ObjOp)
  deriving Repr, DecidableEq

inductive Resp where
  | none
  | created (h : Nat)
  | err
  | alloc (r : ARes)
  | badHandle

abbrev Proc := List Obj

def create (σ : Proc) (ids : List Nat) : Proc × Resp :=
  match mkObj ids with
  | some o => (σ ++ [o], .created σ.length)
  | none => (σ, .err)

def step (tbl : List RegRow) (σ : Proc) : Op → Proc × Resp
  | .new kind => create σ (familyIds tbl kind)
  | .newFrom rows => create σ ((rows.filter (fun r => r.2 &&& infoRestricted == 0)).map (·.1))
  | .on h op =>
    match σ[h]? with
    | none => (σ, .badHandle)
    | some o =>
      let (o', r) := stepObj o op
      (σ.set h o', match r with | some a => .alloc a | none => .none)

def run (tbl : List RegRow) : Proc → List Op → Proc × List Resp
  | σ, [] => (σ, [])
  | σ, op :: ops =>
    let (σ', r) := step tbl σ op
    let (σ'', rs) := run tbl σ' ops
    (σ'', r :: rs)

/-- The operations of a history that concern handle `h`. -/
def proj (h : Nat) : List Op → List ObjOp
  | [] => []
  | .on h' op :: ops => if h' = h then op :: proj h ops else proj h ops
  | _ :: ops => proj h ops

/-- What `AllocateRegisters` does for one kind, as a history on a new allocator `h`:
de-prioritise the base pointer registers of the family, add the operand registers of the kind,
add the interferences, allocate. -/
def bpIds (tbl : List RegRow) (kind : Nat) : List Nat :=
  ((tbl.filter (fun r => r.kind == kind)).filter (fun r => r.info &&& infoBasePointer != 0)).map (·.id)

def histEdges (is : List AInstr) (kind : Nat) : List (Nat × Nat) :=
  is.flatMap (fun i => (i.outs.filter (fun d => idKind d.id == kind)).flatMap (fun d => edgesOf d i.liveOut))

def compileObjOps (tbl : List RegRow) (is : List AInstr) (kind : Nat) : List ObjOp :=
  (bpIds tbl kind).map (fun id => ObjOp.prio id (-1)) ++
  (((is.flatMap (·.regs)).filter (fun r => idKind r.id == kind)).map (fun r => ObjOp.add r.id)) ++
  ((histEdges is kind).map (fun e => ObjOp.edge e.1 e.2)) ++ [ObjOp.alloc]

/-- … as operations of the process on handle `h`. -/
def compileOps (tbl : List RegRow) (is : List AInstr) (kind : Nat) (h : Nat) : List Op :=
  Op.new kind :: (compileObjOps tbl is kind).map (Op.on h)

/-- Judge of `accept-order`: the register assignment of the same (clique) program on a new allocator,
once in a fresh process and once after some history in another (or the same) process, must be the same
assignment; a panic is never acceptable. -/
def orderJudge (fresh now : List String) : Option String :=
  if fresh.contains "panic" || now.contains "panic" then some "bad-panic"
  else if fresh == now then none
  else some "bad-order-depends-on-history"

end Avo.AllocHist
