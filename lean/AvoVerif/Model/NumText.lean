/-
Numbers as text on `List Char`: positional digits in a base ≤ 16 (lower-case
hexadecimal digits, as Go's fmt prints them), zero padding, and the inverse
reader.  Shared by C16 (`$frame-args` of the TEXT line) and C13 (`$%+d`,
`$%#0Nx` constants, `sym<>+off(SB)/len`).  Core Lean only.
-/
namespace Avo.NumText

/-- Digit `d` (0..15) as Go prints it with `%d` / `%x`. -/
def digitChar (d : Nat) : Char :=
  if d < 10 then Char.ofNat (48 + d) else Char.ofNat (87 + d)

/-- Value of a digit character (`0-9`, `a-f`). -/
def digitVal (c : Char) : Option Nat :=
  let n := c.toNat
  if 48 ≤ n ∧ n ≤ 57 then some (n - 48)
  else if 97 ≤ n ∧ n ≤ 102 then some (n - 87)
  else none

/-- Digits of `n` in base `b`, most significant first; `fuel` bounds the
recursion (`digits` passes `n + 1`, which always suffices for `b ≥ 2`). -/
def digitsFuel (b : Nat) : Nat → Nat → List Char
  | 0, _ => []
  | fuel + 1, n =>
    if n < b then [digitChar n] else digitsFuel b fuel (n / b) ++ [digitChar (n % b)]

def digits (b n : Nat) : List Char := digitsFuel b (n + 1) n

/-- Left fold reading digits in base `b`; fails on a non-digit or a digit ≥ b. -/
def readDigits (b : Nat) : List Char → Nat → Option Nat
  | [], acc => some acc
  | c :: cs, acc =>
    match digitVal c with
    | some d => if d < b then readDigits b cs (acc * b + d) else none
    | none => none

/-- A non-empty digit string in base `b`. -/
def parseNat (b : Nat) (cs : List Char) : Option Nat :=
  if cs.isEmpty then none else readDigits b cs 0

/-- `%d` of a Go signed integer. -/
def intDec (v : Int) : List Char :=
  if v < 0 then '-' :: digits 10 v.natAbs else digits 10 v.natAbs

/-- `%+d`. -/
def intDecPlus (v : Int) : List Char :=
  if v < 0 then '-' :: digits 10 v.natAbs else '+' :: digits 10 v.natAbs

/-- Unsigned magnitude of the assembler's integer literal: `0x` hexadecimal or decimal. -/
def parseMag (cs : List Char) : Option Nat :=
  match cs with
  | c0 :: c1 :: rest => if c0 = '0' ∧ c1 = 'x' then parseNat 16 rest else parseNat 10 cs
  | _ => parseNat 10 cs

/-- The assembler's integer literal: optional sign, then the magnitude. -/
def parseIntLit (cs : List Char) : Option Int :=
  match cs with
  | [] => none
  | c :: rest =>
    if c = '-' then (parseMag rest).map (fun n => - (n : Int))
    else if c = '+' then (parseMag rest).map (fun n => (n : Int))
    else (parseMag cs).map (fun n => (n : Int))

/-- Left-pad with `'0'` to at least `w` characters. -/
def padZero (w : Nat) (cs : List Char) : List Char :=
  List.replicate (w - cs.length) '0' ++ cs

/-- `%#0Nx` of a Go unsigned integer: `0x` then at least `N` hex digits. -/
def hexPad (w n : Nat) : List Char :=
  '0' :: 'x' :: padZero w (digits 16 n)

end Avo.NumText
