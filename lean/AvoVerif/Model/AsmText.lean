/-
C05 — operands as data, the renderer that mirrors `Asm()` of operand/types.go,
operand/zconst.go and reg (register names), an independently written parser for
the Go assembler's operand syntax, and the small model `asmImm` of how the Go
assembler + CPU interpret an immediate in context.  Everything is on
`List Char`; core Lean only.

Registers are identified by their *name* (the `Asm()` text of a row of the
register table): in Go assembly AX names the 16-, 32- and 64-bit views alike, the
width comes from the opcode.
-/
import AvoVerif.Model.NumText
namespace Avo.AsmText
open Avo.NumText

/-- The eight integer constant types of operand/zconst.go. -/
inductive ImmTy where
  | u8 | u16 | u32 | u64 | i8 | i16 | i32 | i64
  deriving DecidableEq, Repr, Inhabited

def ImmTy.signed : ImmTy → Bool
  | .i8 | .i16 | .i32 | .i64 => true
  | _ => false

def ImmTy.bits : ImmTy → Nat
  | .u8 | .i8 => 8
  | .u16 | .i16 => 16
  | .u32 | .i32 => 32
  | .u64 | .i64 => 64

/-- hexadecimal digits of `%#0Nx` for the unsigned type (two per byte) -/
def ImmTy.hexWidth (t : ImmTy) : Nat := t.bits / 4

/-- `operand.Mem` with `operand.Symbol` inlined; registers by name. -/
structure Mem where
  sym    : List Char
  static : Bool
  disp   : Int
  base   : Option (List Char)
  index  : Option (List Char)
  scale  : Nat
  deriving DecidableEq, Repr, Inhabited

inductive Op where
  | reg (name : List Char)
  | mem (m : Mem)
  | imm (ty : ImmTy) (val : Int)
  | rel (val : Int)
  | label (name : List Char)
  deriving DecidableEq, Repr, Inhabited

/-! ## Renderer (mirror of `Asm()`) -/

/-- `Symbol.String`: the name, `<>` appended for static symbols. -/
def symString (sym : List Char) (static : Bool) : List Char :=
  if static then sym ++ ['<', '>'] else sym

/-- `Mem.Asm`:
```
a := m.Symbol.String()
if a != "" { a += Sprintf("%+d", m.Disp) } else if m.Disp != 0 { a += Sprintf("%d", m.Disp) }
if m.Base != nil { a += Sprintf("(%s)", m.Base.Asm()) }
if m.Index != nil && m.Scale != 0 { a += Sprintf("(%s*%d)", m.Index.Asm(), m.Scale) }
``` -/
def memPrefix (m : Mem) : List Char :=
  if symString m.sym m.static ≠ [] then symString m.sym m.static ++ intDecPlus m.disp
  else if m.disp ≠ 0 then intDec m.disp
  else []

def basePart : Option (List Char) → List Char
  | some b => '(' :: b ++ [')']
  | none => []

def indexPart (index : Option (List Char)) (scale : Nat) : List Char :=
  match index with
  | some i => if scale ≠ 0 then '(' :: i ++ '*' :: digits 10 scale ++ [')'] else []
  | none => []

def memAsm (m : Mem) : List Char :=
  memPrefix m ++ basePart m.base ++ indexPart m.index m.scale

/-- `$%#0Nx` for unsigned, `$%+d` for signed constants. -/
def immAsm (t : ImmTy) (v : Int) : List Char :=
  if t.signed then '$' :: intDecPlus v else '$' :: hexPad t.hexWidth v.toNat

/-- `Op.Asm()` -/
def asm : Op → List Char
  | .reg n => n
  | .mem m => memAsm m
  | .imm t v => immAsm t v
  | .rel v => '.' :: intDecPlus v
  | .label l => l

/-- `joinOperands` of printer/goasm.go -/
def joinOps : List (List Char) → List Char
  | [] => []
  | [x] => x
  | x :: xs => x ++ ',' :: ' ' :: joinOps xs

/-! ## Parser of the Go assembler's operand syntax (written independently) -/

def isDigit (c : Char) : Bool := '0' ≤ c && c ≤ '9'

/-- characters that end the symbol name inside an operand -/
def symStop (c : Char) : Bool := c == '+' || c == '-' || c == '<' || c == '('

/-- characters that may not occur in names (they structure the operand syntax) -/
def structural (c : Char) : Bool :=
  c == '+' || c == '-' || c == '<' || c == '(' || c == ')' || c == '*' || c == ',' || c == ' ' || c == '$' || c == '>'

/-- `(sym, static, disp)` from the text before the first `(` -/
def parsePrefix (pre : List Char) : Option (List Char × Bool × Int) :=
  match pre with
  | [] => some ([], false, 0)
  | c :: _ =>
    if isDigit c || c == '-' then (parseIntLit pre).map (fun d => ([], false, d))
    else
      let name := pre.takeWhile (fun c => !symStop c)
      let rest := pre.dropWhile (fun c => !symStop c)
      match rest with
      | '<' :: '>' :: r2 =>
        (match r2 with
         | s :: _ => if s == '+' || s == '-' then (parseIntLit r2).map (fun d => (name, true, d)) else none
         | [] => none)
      | s :: _ => if s == '+' || s == '-' then (parseIntLit rest).map (fun d => (name, false, d)) else none
      | [] => none

/-- `INDEX*SCALE` -/
def parseIndexInner (names : List (List Char)) (inner : List Char) : Option (List Char × Nat) :=
  let nm := inner.takeWhile (· != '*')
  match inner.dropWhile (· != '*') with
  | _ :: sc =>
    if names.contains nm then (parseNat 10 sc).map (fun s => (nm, s)) else none
  | [] => none

/-- the parenthesised groups: `(BASE)`, `(INDEX*SCALE)`, `(BASE)(INDEX*SCALE)` or nothing -/
def parseGroups (names : List (List Char)) (g : List Char) : Option (Option (List Char) × Option (List Char) × Nat) :=
  match g with
  | [] => some (none, none, 0)
  | '(' :: rest =>
    let inner := rest.takeWhile (· != ')')
    match rest.dropWhile (· != ')') with
    | _ :: after =>
      if inner.contains '*' then
        (match after with
         | [] => (parseIndexInner names inner).map (fun (i, s) => (none, some i, s))
         | _ => none)
      else if names.contains inner then
        (match after with
         | [] => some (some inner, none, 0)
         | '(' :: rest2 =>
           let inner2 := rest2.takeWhile (· != ')')
           (match rest2.dropWhile (· != ')') with
            | [_] => (parseIndexInner names inner2).map (fun (i, s) => (some inner, some i, s))
            | _ => none)
         | _ => none)
      else none
    | [] => none
  | _ => none

def parseMem (names : List (List Char)) (cs : List Char) : Option Mem :=
  let pre := cs.takeWhile (· != '(')
  let g := cs.dropWhile (· != '(')
  match parsePrefix pre, parseGroups names g with
  | some (sym, static, disp), some (b, i, s) => some ⟨sym, static, disp, b, i, s⟩
  | _, _ => none

/-- `$0x…` (type from the number of digits) or `$±d` (a signed constant; its declared width is not in the text) -/
def parseImm (cs : List Char) : Option Op :=
  match cs with
  | '0' :: 'x' :: ds =>
    (parseNat 16 ds).bind (fun n =>
      match ds.length with
      | 2 => some (.imm .u8 n)
      | 4 => some (.imm .u16 n)
      | 8 => some (.imm .u32 n)
      | 16 => some (.imm .u64 n)
      | _ => none)
  | s :: _ => if s == '+' || s == '-' then (parseIntLit cs).map (fun v => .imm .i64 v) else none
  | [] => none

/-- One operand of an instruction line. `names` is the register name table. -/
def parseOp (names : List (List Char)) (cs : List Char) : Option Op :=
  match cs with
  | [] => none
  | '$' :: rest => parseImm rest
  | '.' :: rest =>
    (match rest with
     | s :: _ => if s == '+' || s == '-' then (parseIntLit rest).map .rel else none
     | [] => none)
  | _ =>
    if names.contains cs then some (.reg cs)
    else if cs.contains '(' then (parseMem names cs).map .mem
    else if cs.any structural then none
    else some (.label cs)

/-- split an operand list at `", "` -/
def splitOps : List Char → List Char → List (List Char)
  | [], cur => [cur.reverse]
  | ',' :: ' ' :: rest, cur => cur.reverse :: splitOps rest []
  | c :: rest, cur => splitOps rest (c :: cur)

/-! ## What the text determines -/

/-- The printed text determines an operand up to (a) the declared width of a
signed constant (`$-1` is I8(-1), I16(-1), …: same value), (b) an index register
with scale 0 or a scale without index (not printed: contributes nothing to the
address). -/
def canon : Op → Op
  | .imm t v => if t.signed then .imm .i64 v else .imm t v
  | .mem m =>
    if m.index.isNone || m.scale == 0 then .mem { m with index := none, scale := 0 } else .mem m
  | o => o

/-- the value of a constant operand -/
def immValue : Op → Option Int
  | .imm _ v => some v
  | _ => none

/-! ## Well-formedness (stated explicitly) -/

/-- a register name: non-empty, no structural character, does not start like a number, a constant or a relative offset -/
def nameOK (n : List Char) : Bool :=
  match n with
  | [] => false
  | c :: _ => !isDigit c && c != '.' && !n.any structural

def InRange (t : ImmTy) (v : Int) : Prop :=
  if t.signed then -(2 ^ (t.bits - 1) : Int) ≤ v ∧ v < 2 ^ (t.bits - 1) else 0 ≤ v ∧ v < 2 ^ t.bits

instance (t : ImmTy) (v : Int) : Decidable (InRange t v) := by unfold InRange; exact inferInstance

def MemWF (names : List (List Char)) (m : Mem) : Prop :=
  -- the operand classes require a base register (operand.IsMSize / isvm)
  (∃ b, m.base = some b ∧ b ∈ names) ∧
  (∀ i, m.index = some i → i ∈ names) ∧
  -- symbol names: no structural characters, not starting like a number or a relative offset; `<>` only on a named symbol
  (m.sym.all (fun c => !structural c) = true) ∧
  (∀ c rest, m.sym = c :: rest → isDigit c = false ∧ c ≠ '.') ∧
  (m.sym = [] → m.static = false)

def WF (names : List (List Char)) : Op → Prop
  | .reg n => n ∈ names
  | .mem m => MemWF names m
  | .imm t v => InRange t v
  | .rel _ => True
  | .label l => nameOK l = true ∧ l ∉ names

/-! ## The assembler's and the CPU's reading of an immediate -/

/-- How the instruction uses its immediate. -/
inductive ImmCtx where
  /-- an operand of an 8/16/32-bit operation (ADDB/W/L, MOVL $x, m32, …): the low `n` bits -/
  | op (n : Nat)
  /-- a 64-bit operation whose encoding holds a 32-bit immediate that the CPU sign-extends
      (ADDQ/ANDQ/CMPQ/…, MOVQ $x, m64, PUSHQ, IMUL3Q, TESTQ) -/
  | sx64
  /-- MOVQ $imm64, r64: all 64 bits -/
  | mov64
  /-- an 8-bit count / selector / port (shifts, shuffles, …): the low 8 bits, zero-extended -/
  | raw (n : Nat)
  deriving DecidableEq, Repr, Inhabited

def ImmCtx.width : ImmCtx → Nat
  | .op n => n
  | .sx64 => 64
  | .mov64 => 64
  | .raw n => n

/-- two's complement sign extension of the low 32 bits to 64 bits, as a natural number -/
def signExtend32 (n : Int) : Nat :=
  let low := (n % 2 ^ 32).toNat
  if low < 2 ^ 31 then low else low + (2 ^ 64 - 2 ^ 32)

/-- the integer the assembler reads from the text of a constant operand (`$0x…`, `$±d`) -/
def readImm (text : List Char) : Option Int :=
  match text with
  | '$' :: rest => parseIntLit rest
  | _ => none

/-- **Model of the Go assembler + CPU** (measured on every run by the harness):
the value, as an unsigned number of the operation's width, that the machine
instruction uses when the printed constant `text` stands in context `ctx`.
The assembler reads the integer, keeps the low bits that fit the encoding; in
`sx64` the encoding has 32 bits and the CPU sign-extends them. -/
def asmImm (ctx : ImmCtx) (text : List Char) : Option Nat :=
  (readImm text).map fun n =>
    match ctx with
    | .op w => (n % 2 ^ w).toNat
    | .raw w => (n % 2 ^ w).toNat
    | .mov64 => (n % 2 ^ 64).toNat
    | .sx64 => signExtend32 n

/-- the constant supplied, as an unsigned number of the operation's width -/
def immWanted (ctx : ImmCtx) (v : Int) : Nat := (v % 2 ^ ctx.width).toNat

/-- The constant is a number of the operation's width at all: an unsigned or a
two's complement signed `width`-bit number (otherwise keeping the low bits changes the value:
e.g. a 32-bit constant as the operand of an 8-bit operation). -/
def ImmRepresentable (ctx : ImmCtx) (v : Int) : Prop :=
  -(2 ^ (ctx.width - 1) : Int) ≤ v ∧ v < 2 ^ ctx.width

instance (ctx : ImmCtx) (v : Int) : Decidable (ImmRepresentable ctx v) := by unfold ImmRepresentable; exact inferInstance

/-- The decidable guard: where the hardware sign-extends a 32-bit field, the
constant must be representable as a signed 32-bit number (this excludes exactly
the unsigned 32-bit constants ≥ 2³¹ — and wider constants, which no imm8/imm32
form admits). -/
def ImmFits (ctx : ImmCtx) (v : Int) : Prop :=
  ctx = .sx64 → -(2 ^ 31 : Int) ≤ v ∧ v < 2 ^ 31

instance (ctx : ImmCtx) (v : Int) : Decidable (ImmFits ctx v) := by unfold ImmFits; exact inferInstance

end Avo.AsmText
