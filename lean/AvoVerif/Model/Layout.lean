/-
Model for C07: gc/amd64 type layout (go/types `gcSizes`), avo's
`gotypes.Signature.init`, `Tuple.Lookup/At`, `Component` navigation and
`Resolve` (gotypes/signature.go, gotypes/components.go, operand.Mem.Offset), and
— written from `go vet`'s asmdecl.go (asmParseDecl / appendComponentsRecursive),
not from avo — the layout the Go toolchain expects of an assembly function.
Core Lean only.  Names are `List Char` so that concatenation is easy to reason
about; the driver converts from/to `String`.
-/
namespace Avo.Layout

abbrev Name := List Char

/-! ## Types -/

inductive Basic
  | bool | int8 | int16 | int32 | int64 | uint8 | uint16 | uint32 | uint64
  | int | uint | uintptr | float32 | float64 | complex64 | complex128 | string | unsafePointer
  deriving DecidableEq, Repr

/-- Kinds of types that have no addressable components for avo (interfaces,
maps, channels, functions).  They occur as parameters, results, fields and
elements and take part in the layout: they shift everything behind them. -/
inductive Other
  | eface | iface | map | chan | func
  deriving DecidableEq, Repr

/-- gc/amd64: an interface value is two words, the others one pointer. -/
def Other.size : Other → Nat
  | .eface | .iface => 16
  | _ => 8

mutual
/-- Go types over which C07 quantifies.  `named` is a defined type (`type T U`)
or an alias (`type A = U`): both are transparent for layout and for every
component operation, which look at `Underlying()` only.  `other` are the
component-less kinds.  Recursive types are represented by a finite unfolding: a
path of length n inspects at most n levels and sizes never look through a
pointer. -/
inductive Ty
  | basic (b : Basic)
  | ptr (elem : Ty)
  | slice (elem : Ty)
  | array (n : Nat) (elem : Ty)
  | struct (fs : Fields)
  | named (name : Name) (under : Ty)
  | other (k : Other)
inductive Fields
  | nil
  | cons (name : Name) (t : Ty) (rest : Fields)
end

def Fields.isNil : Fields → Bool
  | .nil => true
  | .cons .. => false

def Fields.toList : Fields → List (Name × Ty)
  | .nil => []
  | .cons n t r => (n, t) :: r.toList

def Fields.ofList : List (Name × Ty) → Fields
  | [] => .nil
  | (n, t) :: r => .cons n t (Fields.ofList r)

/-- `types.Type.Underlying()`. -/
def Ty.under : Ty → Ty
  | .named _ u => u.under
  | t => t

/-! ## gc/amd64 sizes (go/types gcsizes.go, WordSize = MaxAlign = 8) -/

def Basic.size : Basic → Nat
  | .bool | .int8 | .uint8 => 1
  | .int16 | .uint16 => 2
  | .int32 | .uint32 | .float32 => 4
  | .int64 | .uint64 | .float64 | .complex64 => 8
  | .int | .uint | .uintptr | .unsafePointer => 8
  | .complex128 | .string => 16

/-- Alignment: the size capped at 8; complex values are aligned like their
parts; strings like a word. -/
def Basic.align : Basic → Nat
  | .complex64 => 4
  | .complex128 => 8
  | .string => 8
  | b => b.size

def Basic.isString : Basic → Bool
  | .string => true
  | _ => false

def Basic.isComplex : Basic → Bool
  | .complex64 | .complex128 => true
  | _ => false

/-- go/types `align(x, a)`: round `x` up to a multiple of `a`. -/
def alignUp (x a : Nat) : Nat := (x + a - 1) / a * a

mutual
def alignof : Ty → Nat
  | .basic b => b.align
  | .ptr _ => 8
  | .slice _ => 8
  | .array _ e => alignof e
  | .struct fs => fieldsAlign fs
  | .named _ u => alignof u
  | .other _ => 8
/-- the largest field alignment, at least 1 -/
def fieldsAlign : Fields → Nat
  | .nil => 1
  | .cons _ t r => Nat.max (alignof t) (fieldsAlign r)
end

mutual
def sizeof : Ty → Nat
  | .basic b => b.size
  | .ptr _ => 8
  | .slice _ => 24
  | .array n e => n * sizeof e
  | .struct fs => alignUp (fieldsEnd fs 0) (fieldsAlign fs)
  | .named _ u => sizeof u
  | .other k => k.size
/-- End of the last field when the fields are laid out starting at running
offset `offs` (`Offsetsof` + `Sizeof` of the last field), with gc's rule that a
zero-size last field at a non-zero offset occupies one byte. -/
def fieldsEnd : Fields → Nat → Nat
  | .nil, offs => offs
  | .cons _ t r, offs =>
    let o := alignUp offs (alignof t)
    if r.isNil then o + (if o > 0 ∧ sizeof t = 0 then 1 else sizeof t)
    else fieldsEnd r (o + sizeof t)
end

/-- `Sizes.Offsetsof` for a list of variables laid out from running offset `offs`. -/
def offsetsFrom : List Ty → Nat → List Nat
  | [], _ => []
  | t :: ts, offs =>
    let o := alignUp offs (alignof t)
    o :: offsetsFrom ts (o + sizeof t)

/-- Running offset after the last variable. -/
def endFrom : List Ty → Nat → Nat
  | [], offs => offs
  | t :: ts, offs => endFrom ts (alignUp offs (alignof t) + sizeof t)

/-- Offsets of the fields of a struct type (for the sizes comparison). -/
def fieldOffsets (fs : Fields) : List Nat := offsetsFrom (fs.toList.map (·.2)) 0

/-! ## avo: addresses, components, navigation -/

inductive Base
  | fp
  | reg (r : Name)
  deriving DecidableEq, Repr

/-- `operand.Mem` as far as gotypes uses it: symbol name ("" = none),
displacement, base register (no index). -/
structure Addr where
  sym : Name
  disp : Int
  base : Base
  deriving DecidableEq, Repr

structure Comp where
  ty : Ty
  addr : Addr

inductive Step
  | base | len | cap | real | imag
  | index (i : Int)
  | field (n : Name)
  | deref (r : Name)
  deriving DecidableEq, Repr

inductive Err
  | notPrimitive | notPointer | noBase | noLen | noCap | noReal | noImag
  | notArray | indexOOB | notStruct | noField | unknownVar | indexRange
  deriving DecidableEq, Repr

/-- `strconv.Itoa`. -/
def itoa : Int → Name
  | .ofNat n => Nat.toDigits 10 n
  | .negSucc n => '-' :: Nat.toDigits 10 (n + 1)

/-- `component.sub`: append the suffix to a non-empty symbol name, add the offset. -/
def Comp.sub (c : Comp) (suffix : Name) (off : Int) (t : Ty) : Comp :=
  { ty := t
    addr := { sym := if c.addr.sym = [] then [] else c.addr.sym ++ suffix
              disp := c.addr.disp + off
              base := c.addr.base } }

def isSlice (t : Ty) : Bool :=
  match t.under with
  | .slice _ => true
  | _ => false

def isString (t : Ty) : Bool :=
  match t.under with
  | .basic .string => true
  | _ => false

/-- `iscomplex` + `complextofloat`. -/
def complexPart (t : Ty) : Option Basic :=
  match t.under with
  | .basic .complex64 => some .float32
  | .basic .complex128 => some .float64
  | _ => none

/-- `slicehdroffsets`: offsets of {Data uintptr; Len int; Cap int}. -/
def sliceHdrOffsets : List Nat := offsetsFrom [.basic .uintptr, .basic .int, .basic .int] 0

/-- Element stride as computed in `Index`: Sizeof([2]T) − Sizeof([1]T). -/
def elemSize (e : Ty) : Nat := sizeof (.array 2 e) - sizeof (.array 1 e)

/-- `Field`: first field with the name, at its `Offsetsof` offset. -/
def fieldAt : Fields → Name → Nat → Option (Nat × Ty)
  | .nil, _, _ => none
  | .cons n t r, name, offs =>
    let o := alignUp offs (alignof t)
    if n = name then some (o, t) else fieldAt r name (o + sizeof t)

/-- `Index`.  `lowerCheck = true` is the intended behaviour (a negative index
is an error); `false` is the function without a lower-bound test. -/
def Comp.index (lowerCheck : Bool) (c : Comp) (i : Int) : Except Err Comp :=
  match c.ty.under with
  | .array n e =>
    if (lowerCheck && decide (i < 0)) || decide (i ≥ (n : Int)) then .error .indexOOB
    else .ok (c.sub ('_' :: itoa i) (i * (elemSize e : Int)) e)
  | _ => .error .notArray

def Comp.stepWith (lowerCheck : Bool) (c : Comp) : Step → Except Err Comp
  | .base =>
    if isSlice c.ty || isString c.ty then
      .ok (c.sub "_base".toList (sliceHdrOffsets.getD 0 0 : Nat) (.basic .uintptr))
    else .error .noBase
  | .len =>
    if isSlice c.ty || isString c.ty then
      .ok (c.sub "_len".toList (sliceHdrOffsets.getD 1 0 : Nat) (.basic .int))
    else .error .noLen
  | .cap =>
    if isSlice c.ty then
      .ok (c.sub "_cap".toList (sliceHdrOffsets.getD 2 0 : Nat) (.basic .int))
    else .error .noCap
  | .real =>
    match complexPart c.ty with
    | some f => .ok (c.sub "_real".toList 0 (.basic f))
    | none => .error .noReal
  | .imag =>
    match complexPart c.ty with
    | some f => .ok (c.sub "_imag".toList (f.size : Nat) (.basic f))
    | none => .error .noImag
  | .index i => c.index lowerCheck i
  | .field n =>
    match c.ty.under with
    | .struct fs =>
      match fieldAt fs n 0 with
      | some (o, t) => .ok (c.sub ('_' :: n) (o : Nat) t)
      | none => .error .noField
    | _ => .error .notStruct
  | .deref r =>
    match c.ty.under with
    | .ptr e => .ok { ty := e, addr := { sym := [], disp := 0, base := .reg r } }
    | _ => .error .notPointer

def Comp.step (c : Comp) (s : Step) : Except Err Comp := c.stepWith true s

/-- Method chaining: the first error sticks. -/
def navigateWith (lowerCheck : Bool) : Comp → List Step → Except Err Comp
  | c, [] => .ok c
  | c, s :: ss =>
    match c.stepWith lowerCheck s with
    | .ok c' => navigateWith lowerCheck c' ss
    | .error e => .error e

def navigate (c : Comp) (path : List Step) : Except Err Comp := navigateWith true c path

/-- `toprimitive`: switches on `t.Underlying()` (since fad48e1), so a component
of defined or alias scalar type resolves like its underlying type. -/
def toPrimitive (t : Ty) : Option Basic :=
  match t.under with
  | .basic b => if b.isString || b.isComplex then none else some b
  | .ptr _ => some .uintptr
  | _ => none

def Comp.resolve (c : Comp) : Except Err (Addr × Basic) :=
  match toPrimitive c.ty with
  | some b => .ok (c.addr, b)
  | none => .error .notPrimitive

/-! ## avo: signatures and tuples -/

/-- One entry of a Go parameter list: `a, b T` has two names, an unnamed `T`
has none. -/
structure Group where
  names : List Name
  ty : Ty

structure Sig where
  params : List Group
  results : List Group

/-- Names in a parameter list are non-empty identifiers. -/
def Group.WF (g : Group) : Prop := ∀ n ∈ g.names, n ≠ []
def Sig.WF (s : Sig) : Prop := (∀ g ∈ s.params, g.WF) ∧ (∀ g ∈ s.results, g.WF)

/-- The `*types.Var`s of one list entry as go/types presents them (unnamed = ""). -/
def Group.vars (g : Group) : List (Name × Ty) :=
  if g.names.isEmpty then [([], g.ty)] else g.names.map (·, g.ty)

/-- `tuplevars`. -/
def vars (gs : List Group) : List (Name × Ty) := gs.flatMap Group.vars

def tys (vs : List (Name × Ty)) : List Ty := vs.map (·.2)

/-- `structsize`: offset of the last variable plus its size; 0 when empty. -/
def structSize (ts : List Ty) : Nat :=
  match (offsetsFrom ts 0).getLast?, ts.getLast? with
  | some o, some t => o + sizeof t
  | _, _ => 0

/-- Default name of the i-th variable: prefix, plus the index when i > 0. -/
def defaultName (pfx : Name) (i : Nat) : Name :=
  if i > 0 then pfx ++ itoa i else pfx

/-- Declared name (possibly "") paired with the component. -/
structure Tuple where
  comps : List (Name × Comp)
  size : Nat

/-- The loop of `newTuple`. -/
def mkComps : List (Name × Ty) → List Nat → Nat → Name → List (Name × Comp)
  | (n, t) :: vs, o :: os, i, pfx =>
    (n, { ty := t, addr := { sym := if n = [] then defaultName pfx i else n, disp := (o : Nat), base := .fp } })
      :: mkComps vs os (i + 1) pfx
  | _, _, _, _ => []

def newTuple (vs : List (Name × Ty)) (offsets : List Nat) (size : Nat) (pfx : Name) : Tuple :=
  { comps := mkComps vs offsets 0 pfx, size := size }

def argPfx : Name := "arg".toList
def retPfx : Name := "ret".toList

/-- Size of the parameter area in `Signature.init`: with results, the offset of a
`uint64` sentinel appended to the parameters; without, `structsize`. -/
def paramsSize (s : Sig) : Nat :=
  let p := vars s.params
  let poffs := offsetsFrom (tys p ++ [.basic .uint64]) 0
  if (vars s.results).length = 0 then structSize (tys p) else poffs.getD p.length 0

/-- `Signature.init`. -/
def Sig.paramsTuple (s : Sig) : Tuple :=
  let p := vars s.params
  let poffs := offsetsFrom (tys p ++ [.basic .uint64]) 0
  newTuple p poffs (paramsSize s) argPfx

def Sig.resultsTuple (s : Sig) : Tuple :=
  let r := vars s.results
  let roffs := (offsetsFrom (tys r) 0).map (· + paramsSize s)
  newTuple r roffs (structSize (tys r)) retPfx

/-- `Signature.Bytes`. -/
def Sig.bytes (s : Sig) : Nat := s.paramsTuple.size + s.resultsTuple.size

/-- `Tuple.Lookup`: the `byname` map holds the last variable declared with the
(non-empty) name. -/
def Tuple.lookup (t : Tuple) (name : Name) : Except Err Comp :=
  if name = [] then .error .unknownVar else
  match t.comps.reverse.find? (fun p => p.1 = name) with
  | some p => .ok p.2
  | none => .error .unknownVar

/-- `Tuple.At`.  `lowerCheck = false` has no test for negative indices (Go then
panics on the slice access: modelled as the distinct outcome `none`). -/
def Tuple.atWith (lowerCheck : Bool) (t : Tuple) (i : Int) : Option (Except Err Comp) :=
  if i ≥ (t.comps.length : Int) then some (.error .indexRange)
  else if i < 0 then (if lowerCheck then some (.error .indexRange) else none)
  else match t.comps[i.toNat]? with
    | some p => some (.ok p.2)
    | none => some (.error .indexRange)

def Tuple.at (t : Tuple) (i : Int) : Except Err Comp :=
  (t.atWith true i).getD (.error .indexRange)

inductive Sel
  | at (i : Int)
  | name (n : Name)
  deriving DecidableEq, Repr

def Tuple.select (t : Tuple) : Sel → Except Err Comp
  | .at i => t.at i
  | .name n => t.lookup n

def Sig.tuple (s : Sig) (isRet : Bool) : Tuple := if isRet then s.resultsTuple else s.paramsTuple

/-- Param/Return selection, navigation, `Resolve`. -/
def resolve (s : Sig) (isRet : Bool) (sel : Sel) (path : List Step) : Except Err (Addr × Basic) :=
  match (s.tuple isRet).select sel with
  | .error e => .error e
  | .ok c =>
    match navigate c path with
    | .error e => .error e
    | .ok c' => c'.resolve

/-! ## The toolchain's view: `go vet` asmdecl (independent of the above except
for `sizeof`/`alignof`/`alignUp`, which asmdecl takes from go/types too) -/

/-- asmdecl's `offset += -offset & (align - 1)`. -/
def asmAlign (offset a : Nat) : Nat := offset + (a - offset % a) % a

inductive AsmKind
  | scalar (size : Nat)
  | string | slice | complex | struct | array | iface
  deriving DecidableEq, Repr

/-- `asmKindForType` on the underlying type. -/
def asmKind : Ty → AsmKind
  | .basic .string => .string
  | .basic .complex64 => .complex
  | .basic .complex128 => .complex
  | .basic b => .scalar b.size
  | .ptr _ => .scalar 8
  | .slice _ => .slice
  | .array .. => .array
  | .struct _ => .struct
  | .named _ u => asmKind u
  | .other .eface => .iface
  | .other .iface => .iface
  | .other _ => .scalar 8

structure AsmComp where
  suffix : Name
  kind : AsmKind
  off : Nat
  size : Nat
  deriving DecidableEq, Repr

/-- Offset of element 1 in `Offsetsof [fake0 T, fake1 T]`. -/
def asmElemOff (e : Ty) : Nat := (offsetsFrom [e, e] 0).getD 1 0

mutual
/-- `appendComponentsRecursive` for amd64 (ptrSize = intSize = 8). -/
def comps : Ty → Name → Nat → List AsmComp
  | .basic b, suf, off =>
    ⟨suf, asmKind (.basic b), off, b.size⟩ ::
      (match b with
       | .string => [⟨suf ++ "_base".toList, .scalar 8, off, 8⟩, ⟨suf ++ "_len".toList, .scalar 8, off + 8, 8⟩]
       | .complex64 => [⟨suf ++ "_real".toList, .scalar 4, off, 4⟩, ⟨suf ++ "_imag".toList, .scalar 4, off + 4, 4⟩]
       | .complex128 => [⟨suf ++ "_real".toList, .scalar 8, off, 8⟩, ⟨suf ++ "_imag".toList, .scalar 8, off + 8, 8⟩]
       | _ => [])
  | .ptr _, suf, off => [⟨suf, .scalar 8, off, 8⟩]
  | .slice _, suf, off =>
    [⟨suf, .slice, off, 24⟩, ⟨suf ++ "_base".toList, .scalar 8, off, 8⟩,
     ⟨suf ++ "_len".toList, .scalar 8, off + 8, 8⟩, ⟨suf ++ "_cap".toList, .scalar 8, off + 8 + 8, 8⟩]
  | .array n e, suf, off =>
    ⟨suf, .array, off, sizeof (.array n e)⟩ ::
      (List.range n).flatMap (fun i => comps e (suf ++ '_' :: Nat.toDigits 10 i) (off + i * asmElemOff e))
  | .struct fs, suf, off => ⟨suf, .struct, off, sizeof (.struct fs)⟩ :: compsFields fs suf off 0
  | .named _ u, suf, off => comps u suf off
  | .other k, suf, off =>
    ⟨suf, asmKind (.other k), off, k.size⟩ ::
      (match k with
       | .eface => [⟨suf ++ "_type".toList, .scalar 8, off, 8⟩, ⟨suf ++ "_data".toList, .scalar 8, off + 8, 8⟩]
       | .iface => [⟨suf ++ "_itable".toList, .scalar 8, off, 8⟩, ⟨suf ++ "_data".toList, .scalar 8, off + 8, 8⟩]
       | _ => [])
/-- the struct case: fields at `off + Offsetsof(fields)[i]`, `run` is the running offset -/
def compsFields : Fields → Name → Nat → Nat → List AsmComp
  | .nil, _, _, _ => []
  | .cons n t r, suf, off, run =>
    let o := alignUp run (alignof t)
    comps t (suf ++ '_' :: n) (off + o) ++ compsFields r suf off (o + sizeof t)
end

/-- A named variable of an assembly function: name, kind, frame offset, size. -/
structure AsmVar where
  name : Name
  kind : AsmKind
  off : Nat
  size : Nat
  deriving DecidableEq, Repr

/-- A top-level parameter or result as asmdecl sees it. -/
structure AsmTop where
  name : Name
  off : Nat
  ty : Ty

/-- "Anonymous args will be called arg, arg1, arg2, ...; ret, ret1, ..." -/
def asmDefaultName (isret : Bool) (argnum : Nat) : Name :=
  (if isret then "ret".toList else "arg".toList) ++ (if argnum > 0 then Nat.toDigits 10 argnum else [])

/-- "Create variable for each name": every name of the entry gets the type's
size, without re-aligning. -/
def asmNames : List Name → Ty → Nat → List AsmTop × Nat
  | [], _, offset => ([], offset)
  | n :: ns, t, offset =>
    let r := asmNames ns t (offset + sizeof t)
    (⟨n, offset, t⟩ :: r.1, r.2)

/-- `addParams`. -/
def asmAddParams : List Group → Bool → Nat → Nat → List AsmTop × Nat
  | [], _, _, offset => ([], offset)
  | g :: gs, isret, argnum, offset =>
    let offset := asmAlign offset (alignof g.ty)
    let names := if g.names.isEmpty then [asmDefaultName isret argnum] else g.names
    let r := asmNames names g.ty offset
    let rest := asmAddParams gs isret (argnum + names.length) r.2
    (r.1 ++ rest.1, rest.2)

def asmParams (s : Sig) : List AsmTop × Nat := asmAddParams s.params false 0 0

/-- results start at the next multiple of maxAlign = 8 -/
def asmResults (s : Sig) : List AsmTop × Nat :=
  if s.results.isEmpty then ([], (asmParams s).2)
  else asmAddParams s.results true 0 (asmAlign (asmParams s).2 8)

def asmTops (s : Sig) (isRet : Bool) : List AsmTop :=
  if isRet then (asmResults s).1 else (asmParams s).1

/-- `fn.size`: what `TEXT …, $frame-args` must declare. -/
def asmArgSize (s : Sig) : Nat := (asmResults s).2

def AsmTop.vars (t : AsmTop) : List AsmVar :=
  (comps t.ty [] 0).map (fun c => ⟨t.name ++ c.suffix, c.kind, t.off + c.off, c.size⟩)

/-- `fn.vars`: all names the assembly may use, with their offsets and sizes. -/
def asmComponents (s : Sig) : List AsmVar :=
  ((asmParams s).1 ++ (asmResults s).1).flatMap AsmTop.vars

/-! ## Declarative reading of a path (used by the specification) -/

/-- The name suffix asmdecl gives to the component a step selects. -/
def Step.suffix : Step → Name
  | .base => "_base".toList
  | .len => "_len".toList
  | .cap => "_cap".toList
  | .real => "_real".toList
  | .imag => "_imag".toList
  | .index i => '_' :: itoa i
  | .field n => '_' :: n
  | .deref _ => []

def pathSuffix (path : List Step) : Name := path.flatMap Step.suffix

def Step.isDeref : Step → Bool
  | .deref _ => true
  | _ => false

def fieldTy : Fields → Name → Option Ty
  | .nil, _ => none
  | .cons n t r, name => if n = name then some t else fieldTy r name

/-- The type a step selects when it exists in the Go type (no layout here). -/
def stepTy (t : Ty) : Step → Option Ty
  | .base => match t.under with
    | .slice _ => some (.basic .uintptr)
    | .basic .string => some (.basic .uintptr)
    | _ => none
  | .len => match t.under with
    | .slice _ => some (.basic .int)
    | .basic .string => some (.basic .int)
    | _ => none
  | .cap => match t.under with
    | .slice _ => some (.basic .int)
    | _ => none
  | .real => match t.under with
    | .basic .complex64 => some (.basic .float32)
    | .basic .complex128 => some (.basic .float64)
    | _ => none
  | .imag => match t.under with
    | .basic .complex64 => some (.basic .float32)
    | .basic .complex128 => some (.basic .float64)
    | _ => none
  | .index i => match t.under with
    | .array n e => if 0 ≤ i ∧ i < (n : Int) then some e else none
    | _ => none
  | .field name => match t.under with
    | .struct fs => fieldTy fs name
    | _ => none
  | .deref _ => match t.under with
    | .ptr e => some e
    | _ => none

/-- Type at the end of a path; `none` when some step does not exist. -/
def pathTy : Ty → List Step → Option Ty
  | t, [] => some t
  | t, s :: ss => match stepTy t s with
    | some t' => pathTy t' ss
    | none => none

/-! ## Specification of a resolved address, and its acceptor

What C07 demands of an address `r` the implementation returns for
`<Param|Return>(sel).<path>.Resolve()`, stated with the toolchain's layout
(`asmTops`, `comps`) and the declarative reading of the path (`pathTy`,
`pathSuffix`) only — no avo algorithm in it. -/

/-- What the implementation resolved: address and basic type. -/
structure Resolved where
  addr : Addr
  basic : Basic
  deriving DecidableEq, Repr

/-- The toolchain's variables a selector may denote. -/
def selTops (s : Sig) (isRet : Bool) : Sel → List AsmTop
  | .at i => if 0 ≤ i then ((asmTops s isRet)[i.toNat]?).toList else []
  | .name n => if n = [] then [] else (asmTops s isRet).filter (fun t => t.name = n)

/-- The basic type avo must report for a component of Go type `t`: the
underlying basic kind; for a pointer any pointer-sized integer-class kind (the
property does not say which of them stands for a pointer). -/
def basicFor (t : Ty) (b : Basic) : Prop :=
  match t.under with
  | .basic b' => b = b' ∧ b'.isString = false ∧ b'.isComplex = false
  | .ptr _ => b = .uintptr ∨ b = .unsafePointer ∨ b = .uint64
  | _ => False

instance (t b) : Decidable (basicFor t b) := by
  unfold basicFor; split <;> exact inferInstance

/-- Split a path at its last `Dereference`. -/
def splitLastDeref : List Step → Option (List Step × Name × List Step)
  | [] => none
  | s :: ss =>
    match splitLastDeref ss with
    | some (pre, r, post) => some (s :: pre, r, post)
    | none => match s with
      | .deref r => some ([], r, ss)
      | _ => none

/-- The fields with the given name, each at asmdecl's `off + Offsetsof(fields)[i]`
(`run` is the running offset).  Go allows several fields of one struct to share
a name only for the blank name `_`. -/
def fieldsNamed : Fields → Name → Nat → List (Nat × Ty)
  | .nil, _, _ => []
  | .cons n t r, name, run =>
    let o := alignUp run (alignof t)
    (if n = name then [(o, t)] else []) ++ fieldsNamed r name (o + sizeof t)

/-- The sub-components one step may denote, read off asmdecl's
`appendComponentsRecursive` (tree form): relative offset and Go type.  A list
because a blank field name may denote several fields; every other step denotes
at most one component. -/
def stepComps (t : Ty) : Step → List (Nat × Ty)
  | .base => match t.under with
    | .slice _ => [(0, .basic .uintptr)]
    | .basic .string => [(0, .basic .uintptr)]
    | _ => []
  | .len => match t.under with
    | .slice _ => [(8, .basic .int)]
    | .basic .string => [(8, .basic .int)]
    | _ => []
  | .cap => match t.under with
    | .slice _ => [(8 + 8, .basic .int)]
    | _ => []
  | .real => match t.under with
    | .basic .complex64 => [(0, .basic .float32)]
    | .basic .complex128 => [(0, .basic .float64)]
    | _ => []
  | .imag => match t.under with
    | .basic .complex64 => [(4, .basic .float32)]
    | .basic .complex128 => [(8, .basic .float64)]
    | _ => []
  | .index i => match t.under with
    | .array n e => if 0 ≤ i ∧ i < (n : Int) then [(i.toNat * asmElemOff e, e)] else []
    | _ => []
  | .field name => match t.under with
    | .struct fs => fieldsNamed fs name 0
    | _ => []
  | .deref _ => []

/-- The components a `Dereference`-free path may denote inside a value of type
`t`: offset from the start of the value, and Go type. -/
def pathComps : Ty → List Step → List (Nat × Ty)
  | t, [] => [(0, t)]
  | t, s :: ss => (stepComps t s).flatMap (fun p => (pathComps p.2 ss).map (fun q => (p.1 + q.1, q.2)))

/-- The address `disp` (relative to the start of a value of Go type `root`) and
basic type `b` are right for the deref-free `path`:
 * `disp` is the offset of a component the path denotes in the toolchain's
   layout of `root` (the offset is pinned: the tree is walked step by step, field
   by field — not merely "some variable with that flattened name"), and the
   component is a scalar of basic type `b`;
 * the flattened name `pathSuffix path` is, at this offset and with this size, a
   scalar in `go vet`'s table for `root`. -/
def InLayout (root : Ty) (path : List Step) (disp : Int) (b : Basic) : Prop :=
  (∃ p ∈ pathComps root path, (p.1 : Int) = disp ∧ basicFor p.2 b) ∧ 0 ≤ disp ∧
    (⟨pathSuffix path, .scalar b.size, disp.toNat, b.size⟩ : AsmComp) ∈ comps root [] 0

instance (root path disp b) : Decidable (InLayout root path disp b) := by
  unfold InLayout; exact inferInstance

/-- **The property for one resolved address.** -/
def ResolveSpec (s : Sig) (isRet : Bool) (sel : Sel) (path : List Step) (r : Resolved) : Prop :=
  match splitLastDeref path with
  | none =>
    -- on the frame: the variable's name plus the path's suffix, at the offset
    -- the toolchain gives that name
    r.addr.base = .fp ∧
      ∃ top ∈ selTops s isRet sel,
        r.addr.sym = top.name ++ pathSuffix path ∧ InLayout top.ty path (r.addr.disp - top.off) r.basic
  | some (pre, reg, post) =>
    -- through a loaded pointer: no symbol, the pointee's own offsets from 0
    r.addr.base = .reg reg ∧ r.addr.sym = [] ∧
      ∃ top ∈ selTops s isRet sel, ∃ pointee,
        pathTy top.ty (pre ++ [.deref reg]) = some pointee ∧ InLayout pointee post r.addr.disp r.basic

instance (s isRet sel path r) : Decidable (ResolveSpec s isRet sel path r) := by
  unfold ResolveSpec
  split
  · exact inferInstance
  · rename_i pre reg post _
    have : ∀ top : AsmTop, Decidable (∃ pointee, pathTy top.ty (pre ++ [.deref reg]) = some pointee ∧
        InLayout pointee post r.addr.disp r.basic) := by
      intro top
      cases h : pathTy top.ty (pre ++ [.deref reg]) with
      | none => exact isFalse (by simp)
      | some p =>
        by_cases hb : InLayout p post r.addr.disp r.basic
        · exact isTrue ⟨p, rfl, hb⟩
        · exact isFalse (by simp [hb])
    exact inferInstance

/-- Is `n` a declared (written) name of the list? -/
def declared (gs : List Group) (n : Name) : Bool := n ≠ [] && gs.any (fun g => g.names.contains n)

def Sig.groups (s : Sig) (isRet : Bool) : List Group := if isRet then s.results else s.params

/-- The selector and path exist (in every variable the selector may denote: only
the blank name `_` can denote several) and end at a scalar avo undertakes to
resolve (underlying type basic non-string non-complex, or pointer). -/
def MustResolve (s : Sig) (isRet : Bool) (sel : Sel) (path : List Step) : Prop :=
  (match sel with
   | .at _ => True
   | .name n => declared (s.groups isRet) n = true) ∧
  selTops s isRet sel ≠ [] ∧
  ∀ top ∈ selTops s isRet sel, ∃ t, pathTy top.ty path = some t ∧ (toPrimitive t).isSome = true

instance (s isRet sel path) : Decidable (MustResolve s isRet sel path) := by
  unfold MustResolve
  have : ∀ top : AsmTop, Decidable (∃ t, pathTy top.ty path = some t ∧ (toPrimitive t).isSome = true) := by
    intro top
    cases h : pathTy top.ty path with
    | none => exact isFalse (by simp)
    | some t =>
      by_cases hb : (toPrimitive t).isSome = true
      · exact isTrue ⟨t, rfl, hb⟩
      · exact isFalse (by simp [hb])
  have : Decidable (match sel with
   | .at _ => True
   | .name n => declared (s.groups isRet) n = true) := by
    cases sel <;> exact inferInstance
  exact inferInstance

/-- Outcome of the implementation for one request. -/
inductive Outcome
  | ok (r : Resolved)
  | err
  | panic

/-- Acceptor used on implementation outputs. -/
def acceptResolve (s : Sig) (isRet : Bool) (sel : Sel) (path : List Step) : Outcome → String
  | .ok r => if ResolveSpec s isRet sel path r then "ok" else "bad-address"
  | .err => if MustResolve s isRet sel path then "bad-error-on-existing-component" else "ok"
  | .panic => "bad-panic"

/-! ## Components are values: navigation sessions

A user holds on to `Component` values and derives several children from the
same parent value, resolving them in any order.  A session is a list of commands
on a store of component values (entry 0 is the selected variable; every
`derive` appends the component it returns); components are immutable, so a
`derive` never changes an existing entry. -/

inductive TCmd
  | derive (parent : Nat) (s : Step)   -- store[parent].<step>, appended to the store
  | resolve (i : Nat)                  -- store[i].Resolve()
  deriving Repr

def stepE : Except Err Comp → Step → Except Err Comp
  | .ok c, s => c.step s
  | .error e, _ => .error e

def resolveE : Except Err Comp → Except Err (Addr × Basic)
  | .ok c => c.resolve
  | .error e => .error e

def navigateE : Except Err Comp → List Step → Except Err Comp
  | .ok c, p => navigate c p
  | .error e, _ => .error e

structure TState where
  store : List (Except Err Comp)
  out : List (Except Err (Addr × Basic))

def TState.exec (st : TState) : TCmd → TState
  | .derive p s => { st with store := st.store ++ [stepE (st.store.getD p (.error .unknownVar)) s] }
  | .resolve i => { st with out := st.out ++ [resolveE (st.store.getD i (.error .unknownVar))] }

def runTreeFrom (st : TState) (cmds : List TCmd) : TState := cmds.foldl TState.exec st

def runTree (root : Except Err Comp) (cmds : List TCmd) : TState := runTreeFrom ⟨[root], []⟩ cmds

/-- The own path of every store entry (`none`: derived from an entry that does not exist). -/
def nodePathsFrom (ps : List (Option (List Step))) : List TCmd → List (Option (List Step))
  | [] => ps
  | .derive p s :: cs => nodePathsFrom (ps ++ [(ps.getD p none).map (· ++ [s])]) cs
  | .resolve _ :: cs => nodePathsFrom ps cs

def nodePaths (cmds : List TCmd) : List (Option (List Step)) := nodePathsFrom [some []] cmds

/-- The own path of the component each `resolve` command resolves, in command order. -/
def resolvePathsFrom (ps : List (Option (List Step))) : List TCmd → List (Option (List Step))
  | [] => []
  | .derive p s :: cs => resolvePathsFrom (ps ++ [(ps.getD p none).map (· ++ [s])]) cs
  | .resolve i :: cs => ps.getD i none :: resolvePathsFrom ps cs

def resolvePaths (cmds : List TCmd) : List (Option (List Step)) := resolvePathsFrom [some []] cmds

/-- The component at an own path (`none`: no such entry). -/
def atPath (root : Except Err Comp) : Option (List Step) → Except Err Comp
  | some p => navigateE root p
  | none => .error .unknownVar

end Avo.Layout
