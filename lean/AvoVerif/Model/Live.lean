/-
Model of pass.Liveness (pass/reg.go): round-robin backward dataflow over the
instructions in reverse order, in place, until a full sweep changes nothing.
Core Lean only.
-/
import AvoVerif.Model.MaskSet
namespace Avo.Live
open Avo.Reg Avo.MaskSet

/-- What liveness looks at in an instruction: `InputRegisters()`,
`OutputRegisters()` and `Succ` (`none` = the nil successor). -/
structure LInstr where
  uses : List R
  defs : List R
  succ : List (Option Nat)
  deriving Repr, Inhabited

abbrev LProg := Array LInstr

structure LState where
  ins : Array MS
  outs : Array MS
  deriving Repr

def getMS (a : Array MS) (i : Nat) : MS := a.getD i []

/-- `for _, s := range i.Succ { if s == nil {continue}; changes = i.LiveOut.Update(s.LiveIn) || changes }` -/
def outLoop (ins : Array MS) : MS × Bool → List (Option Nat) → MS × Bool
  | acc, [] => acc
  | acc, none :: ss => outLoop ins acc ss
  | acc, some s :: ss =>
    let u := update acc.1 (getMS ins s)
    outLoop ins (u.1, acc.2 || u.2) ss

/-- One loop body for instruction `i`. -/
def visit (P : LProg) (st : LState) (i : Nat) : LState × Bool :=
  let I := P.getD i default
  let o := outLoop st.ins (getMS st.outs i, false) I.succ
  let u := update (getMS st.ins i) (difference o.1 (ofRegs I.defs))
  ({ ins := st.ins.setIfInBounds i u.1, outs := st.outs.setIfInBounds i o.1 }, o.2 || u.2)

def sweep (P : LProg) : List Nat → LState → LState × Bool
  | [], st => (st, false)
  | i :: is, st =>
    let r1 := visit P st i
    let r2 := sweep P is r1.1
    (r2.1, r1.2 || r2.2)

/-- `for { changes := false; …; if !changes {break} }` with explicit fuel; the
flag of the result is `true` when the fuel ran out before a quiet sweep. -/
def iter (P : LProg) (order : List Nat) : Nat → LState → LState × Bool
  | 0, st => (st, true)
  | fuel + 1, st =>
    let r := sweep P order st
    if r.2 then iter P order fuel r.1 else (r.1, false)

def initState (P : LProg) : LState :=
  { ins := P.map (fun I => ofRegs I.uses), outs := P.map (fun _ => []) }

def order (P : LProg) : List Nat := (List.range P.size).reverse

def liveness (P : LProg) (fuel : Nat) : LState × Bool := iter P (order P) fuel (initState P)

/-- Lanes read somewhere in the program. -/
def useLocs (P : LProg) : List (Nat × Nat) :=
  P.toList.flatMap (fun I => I.uses.flatMap (fun r => ((List.range (r.mask + 1)).filter (fun l => r.mask.testBit l)).map (fun l => (r.id, l))))

/-- (instruction, is-out, register id, lane) -/
abbrev Fact := Nat × Bool × Nat × Nat

/-- The finite universe of facts the analysis can ever establish. -/
def factUniverse (P : LProg) : List Fact :=
  (List.range P.size).flatMap (fun i => [true, false].flatMap (fun b => (useLocs P).map (fun p => (i, b, p.1, p.2))))

/-- A fuel that always suffices (theorem `liveness_terminates`): every noisy
sweep adds at least one fact of the finite universe. -/
def fuelBound (P : LProg) : Nat := (factUniverse P).length + 1

end Avo.Live
