/-
C20 model additions (core Lean only): rows of the measured oracle table
`Oracle.regHW`, the byte sets denoted by a spec mask, the architectural notion
"this width view of this register exists in hardware", the physical view
conversion `register.as` (family lookup), virtual registers with `virtual.as`,
and `reg.Collection` (per-kind `uint16` counters in a Go map).
-/
import AvoVerif.Model.Reg
namespace Avo.Reg

/-- What the CPU did when the instruction was executed (see harness/gen_reghw.go):
the only architectural register that changed (`cls`: 1 GP, 2 vector, 3 opmask;
`num`: its number), the bytes of it that take the written value (`data`, a
bitset over byte positions 0..63) and the bytes that are cleared as a side
effect of the encoding (`zeroed`). -/
structure HWExec where
  cls : Nat
  num : Nat
  data : Nat
  zeroed : Nat
  deriving Repr, DecidableEq, Inhabited

/-- One measured row: assembler name `name` in the width context chosen from
avo's own report (`ctxKind`, `ctxSize`; instruction `op`, encoding `enc`);
`ok` = assembled and decoded consistently; decoded register class, number,
operand width in bytes, legacy high-byte flag (AH/CH/DH/BH = byte 1 of registers
0..3); execution result when the write could be executed safely. -/
structure HWRow where
  name : String
  ctxKind : Nat
  ctxSize : Nat
  op : String
  enc : String
  ok : Bool
  cls : Nat
  num : Nat
  width : Nat
  hi : Bool
  exec : Option HWExec
  deriving Repr, Inhabited

/-- Byte positions `lo .. hi-1` as a bitset. -/
def byteRange (lo hi : Nat) : Nat := 2 ^ hi - 2 ^ lo

/-- Bytes of the underlying register denoted by mask bit `n` (reg/types.go,
`Spec.Mask`: "if bit n of the mask is set, bytes 2^(n-1) to 2^n-1 are used";
bit 0 is byte 0).  The underlying registers have at most 64 bytes. -/
def laneBytes (n : Nat) : Nat :=
  if n = 0 then byteRange 0 1 else if n ≤ 6 then byteRange (2 ^ (n - 1)) (2 ^ n) else 0

/-- The set of bytes a mask denotes. -/
def maskBytes (m : Nat) : Nat :=
  (List.range 7).foldl (fun acc n => if m.testBit n then acc ||| laneBytes n else acc) 0

/-- Number of bytes in a byte set (positions 0..63). -/
def byteCount (b : Nat) : Nat := (List.range 64).countP (fun i => b.testBit i)

/-- The width views x86-64 has: GP registers 0..15 have low-byte, 16, 32 and
64-bit views, and only registers 0..3 have a high-byte view; vector registers
0..31 have 128/256/512-bit views; opmask registers 0..7 have the 64-bit view. -/
def hwViewExists (kind idx spec : Nat) : Bool :=
  (kind == kindGP && decide (idx < 16) &&
    (spec == S8L || spec == S16 || spec == S32 || spec == S64 || (spec == S8H && decide (idx < 4)))) ||
  (kind == kindVector && decide (idx < 32) && (spec == S128 || spec == S256 || spec == S512)) ||
  (kind == kindOpmask && decide (idx < 8) && spec == S64)

/-- `register.as`: `r.family.Lookup(r.PhysicalIndex(), s)`; `none` is Go's nil
(the typed wrappers `As8H` … then panic on the failed type assertion). -/
def physAs (tbl : List RegRow) (r : RegRow) (s : Nat) : Option RegRow := lookup tbl r.kind r.idx s

/-- `reg.virtual`. -/
structure Virt where
  idx : Nat
  kind : Nat
  spec : Nat
  deriving Repr, DecidableEq, Inhabited

def Virt.id (v : Virt) : Nat := newid 1 v.kind v.idx
def Virt.mask (v : Virt) : Nat := v.spec
def Virt.size (v : Virt) : Nat := specSize v.spec
/-- `virtual.as`. -/
def Virt.as (v : Virt) (s : Nat) : Virt := { v with spec := s }

/-- The spec a conversion method asks for (`reg/x86.go`). -/
def methodSpec : String → Option Nat
  | "As8" => some S8L
  | "As8L" => some S8L
  | "As8H" => some S8H
  | "As16" => some S16
  | "As32" => some S32
  | "As64" => some S64
  | "AsX" => some S128
  | "AsY" => some S256
  | "AsZ" => some S512
  | _ => none

/-- Kind and spec of a `Collection` constructor method. -/
def ctorKindSpec : String → Option (Nat × Nat)
  | "GP8L" => some (kindGP, S8L)
  | "GP8H" => some (kindGP, S8H)
  | "GP8" => some (kindGP, S8L)
  | "GP16" => some (kindGP, S16)
  | "GP32" => some (kindGP, S32)
  | "GP64" => some (kindGP, S64)
  | "XMM" => some (kindVector, S128)
  | "YMM" => some (kindVector, S256)
  | "ZMM" => some (kindVector, S512)
  | "K" => some (kindOpmask, S64)
  | _ => none

/-- `Collection.idx : map[Kind]Index` as an association list (first entry wins,
absent key reads 0 as in Go). -/
abbrev Coll := List (Nat × Nat)

def Coll.get (c : Coll) (k : Nat) : Nat := (c.lookup k).getD 0
def Coll.set (c : Coll) (k v : Nat) : Coll := (k, v) :: c

/-- `Collection.VirtualRegister(k, s)`: `idx := c.idx[k]; c.idx[k]++` on `uint16`. -/
def Coll.alloc (c : Coll) (k s : Nat) : Virt × Coll :=
  (⟨c.get k, k, s⟩, c.set k ((c.get k + 1) % 65536))

/-- The collection after a history of allocation requests `(kind, spec)`. -/
def Coll.after (c : Coll) : List (Nat × Nat) → Coll
  | [] => c
  | (k, s) :: rest => Coll.after (c.alloc k s).2 rest

/-- The registers handed out for a history of requests. -/
def Coll.run (c : Coll) : List (Nat × Nat) → List Virt
  | [] => []
  | (k, s) :: rest => (c.alloc k s).1 :: Coll.run (c.alloc k s).2 rest

end Avo.Reg
