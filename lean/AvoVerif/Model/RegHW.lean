/-
C20 model additions (core Lean only): rows of the measured oracle table
`Oracle.regHW`, the byte sets denoted by a spec mask, the architectural notion
"this width view of this register exists in hardware" (`hwViewExists`; for a
virtual register "some register of its kind has it", `hwSpecExists`), the
physical view conversion `register.as` (family lookup), virtual registers with
`virtual.as`, `reg.Collection` (per-kind `uint16` counters in a Go map), the
hand-written naming table of the exported register variables (`varDenotes`),
and the declarative clauses of the property (`RegOK`, `VarOK`, `IdentOK`, `AsOK`,
`VAsOK`, `VNewOK`, `CtorOK`, `DefaultViewOK`, `FreshOK`, `ClassOK`, …).
-/
import AvoVerif.Model.Reg
namespace Avo.Reg

/-- What the CPU did when the instruction was executed (see harness/gen_reghw.go):
the only architectural register that changed (`cls`: 1 GP, 2 vector, 3 opmask;
`num`: its number), the bytes of it that take the written value (`data`, a
bitset over byte positions 0..63) and the bytes that are cleared as a side
effect of the encoding (`zeroed`). -/
structure HWExec where
  cls : Nat
  num : Nat
  data : Nat
  zeroed : Nat
  deriving Repr, DecidableEq, Inhabited

/-- One measured row: assembler name `name` in the width context chosen from
avo's own report (`ctxKind`, `ctxSize`; instruction `op`, encoding `enc`);
`ok` = assembled and decoded consistently; decoded register class, number,
operand width in bytes, legacy high-byte flag (AH/CH/DH/BH = byte 1 of registers
0..3); execution result when the write could be executed safely. -/
structure HWRow where
  name : String
  ctxKind : Nat
  ctxSize : Nat
  op : String
  enc : String
  ok : Bool
  cls : Nat
  num : Nat
  width : Nat
  hi : Bool
  exec : Option HWExec
  deriving Repr, DecidableEq, Inhabited

/-- Byte positions `lo .. hi-1` as a bitset. -/
def byteRange (lo hi : Nat) : Nat := 2 ^ hi - 2 ^ lo

/-- Bytes of the underlying register denoted by mask bit `n` (reg/types.go,
`Spec.Mask`: "if bit n of the mask is set, bytes 2^(n-1) to 2^n-1 are used";
bit 0 is byte 0).  The underlying registers have at most 64 bytes. -/
def laneBytes (n : Nat) : Nat :=
  if n = 0 then byteRange 0 1 else if n ≤ 6 then byteRange (2 ^ (n - 1)) (2 ^ n) else 0

/-- The set of bytes a mask denotes. -/
def maskBytes (m : Nat) : Nat :=
  (List.range 7).foldl (fun acc n => if m.testBit n then acc ||| laneBytes n else acc) 0

/-- Number of bytes in a byte set (positions 0..63). -/
def byteCount (b : Nat) : Nat := (List.range 64).countP (fun i => b.testBit i)

/-- The width views x86-64 has: GP registers 0..15 have low-byte, 16, 32 and
64-bit views, and only registers 0..3 have a high-byte view; vector registers
0..31 have 128/256/512-bit views; opmask registers 0..7 have the 64-bit view. -/
def hwViewExists (kind idx spec : Nat) : Bool :=
  (kind == kindGP && decide (idx < 16) &&
    (spec == S8L || spec == S16 || spec == S32 || spec == S64 || (spec == S8H && decide (idx < 4)))) ||
  (kind == kindVector && decide (idx < 32) && (spec == S128 || spec == S256 || spec == S512)) ||
  (kind == kindOpmask && decide (idx < 8) && spec == S64)

/-- `register.as`: `r.family.Lookup(r.PhysicalIndex(), s)`; `none` is Go's nil
(the typed wrappers `As8H` … then panic on the failed type assertion). -/
def physAs (tbl : List RegRow) (r : RegRow) (s : Nat) : Option RegRow := lookup tbl r.kind r.idx s

/-- `reg.virtual`. -/
structure Virt where
  idx : Nat
  kind : Nat
  spec : Nat
  deriving Repr, DecidableEq, Inhabited

def Virt.id (v : Virt) : Nat := newid 1 v.kind v.idx
def Virt.mask (v : Virt) : Nat := v.spec
def Virt.size (v : Virt) : Nat := specSize v.spec
/-- `virtual.as`. -/
def Virt.as (v : Virt) (s : Nat) : Virt := { v with spec := s }

/-- The spec a conversion method asks for (`reg/x86.go`). -/
def methodSpec : String → Option Nat
  | "As8" => some S8L
  | "As8L" => some S8L
  | "As8H" => some S8H
  | "As16" => some S16
  | "As32" => some S32
  | "As64" => some S64
  | "AsX" => some S128
  | "AsY" => some S256
  | "AsZ" => some S512
  | _ => none

/-- The kind whose wrapper type offers a conversion method (`reg.GP`: As8 … As64
on general-purpose registers; `reg.Vec`: AsX/AsY/AsZ on vector registers;
opmask registers offer none). -/
def methodKind : String → Option Nat
  | "As8" => some kindGP
  | "As8L" => some kindGP
  | "As8H" => some kindGP
  | "As16" => some kindGP
  | "As32" => some kindGP
  | "As64" => some kindGP
  | "AsX" => some kindVector
  | "AsY" => some kindVector
  | "AsZ" => some kindVector
  | _ => none

/-- Kind and spec of a `Collection` constructor method. -/
def ctorKindSpec : String → Option (Nat × Nat)
  | "GP8L" => some (kindGP, S8L)
  | "GP8H" => some (kindGP, S8H)
  | "GP8" => some (kindGP, S8L)
  | "GP16" => some (kindGP, S16)
  | "GP32" => some (kindGP, S32)
  | "GP64" => some (kindGP, S64)
  | "XMM" => some (kindVector, S128)
  | "YMM" => some (kindVector, S256)
  | "ZMM" => some (kindVector, S512)
  | "K" => some (kindOpmask, S64)
  | _ => none

/-- `Collection.idx : map[Kind]Index` as an association list (first entry wins,
absent key reads 0 as in Go). -/
abbrev Coll := List (Nat × Nat)

def Coll.get (c : Coll) (k : Nat) : Nat := (c.lookup k).getD 0
def Coll.set (c : Coll) (k v : Nat) : Coll := (k, v) :: c

/-- `Collection.VirtualRegister(k, s)`: `idx := c.idx[k]; c.idx[k]++` on `uint16`. -/
def Coll.alloc (c : Coll) (k s : Nat) : Virt × Coll :=
  (⟨c.get k, k, s⟩, c.set k ((c.get k + 1) % 65536))

/-- The collection after a history of allocation requests `(kind, spec)`. -/
def Coll.after (c : Coll) : List (Nat × Nat) → Coll
  | [] => c
  | (k, s) :: rest => Coll.after (c.alloc k s).2 rest

/-- The registers handed out for a history of requests. -/
def Coll.run (c : Coll) : List (Nat × Nat) → List Virt
  | [] => []
  | (k, s) :: rest => (c.alloc k s).1 :: Coll.run (c.alloc k s).2 rest

/-! ### The statement of C20, per register / per conversion.

These are the declarative clauses of the property.  They are decidable; the
theorems of `Props/C20.lean` prove them for the model over the regenerated and
measured tables (for all inputs), and the driver evaluates the very same
propositions (`decide`) on the implementation's outputs (`accept-…` requests). -/

/-- Pseudo registers (FP, PC, SB, pseudo-SP; kind 0, mask 0) are not hardware registers. -/
def physical (r : RegRow) : Prop := r.kind ≠ kindPseudo
instance (r : RegRow) : Decidable (physical r) := by unfold physical; infer_instance

/-- The oracle rows measured for register `r`: its assembler name in the width
context of its kind and size. -/
def Matches (r : RegRow) (h : HWRow) : Prop := h.name = r.name ∧ h.ctxKind = r.kind ∧ h.ctxSize = r.size
instance (r : RegRow) (h : HWRow) : Decidable (Matches r h) := by unfold Matches; infer_instance

/-- The bytes of the full register a view addresses, from the decoded operand
width and the high-byte flag. -/
def viewBytes (width : Nat) (hi : Bool) : Nat := if hi then byteRange 1 2 else byteRange 0 width

def ExecAgrees (r : RegRow) : Option HWExec → Prop
  | none => True
  | some e => e.cls = r.kind ∧ e.num = r.idx ∧ e.data = maskBytes r.mask
instance (r : RegRow) (e : Option HWExec) : Decidable (ExecAgrees r e) := by
  cases e <;> unfold ExecAgrees <;> infer_instance

/-- Register `r` of avo's table agrees with one measurement: the name assembled
(and decoded consistently), to the register class, number and operand width avo
reports; the mask denotes exactly the bytes that view addresses; and, when the
write was executed, the CPU changed exactly that architectural register and the
bytes that took the written value are exactly the bytes of the mask. -/
def HwAgrees (r : RegRow) (h : HWRow) : Prop :=
  h.ok = true ∧ h.cls = r.kind ∧ h.num = r.idx ∧ h.width = r.size ∧
  maskBytes r.mask = viewBytes h.width h.hi ∧ ExecAgrees r h.exec
instance (r : RegRow) (h : HWRow) : Decidable (HwAgrees r h) := by unfold HwAgrees; infer_instance

/-- C20 for one physical register `r` against its group of measurements `g`
(all measurements made for that register, one per instruction encoding): there
is at least one, each was made with `r`'s name in `r`'s width context and
agrees; the size is the byte count of the mask and `Spec.Size` of it; the id is
`newid 0 kind idx`. -/
def RegOK (g : List HWRow) (r : RegRow) : Prop :=
  physical r ∧ g ≠ [] ∧ (∀ h ∈ g, Matches r h ∧ HwAgrees r h) ∧
  r.mask < 128 ∧ r.size = byteCount (maskBytes r.mask) ∧ specSize r.mask = r.size ∧
  r.kind < 256 ∧ r.idx < 65536 ∧ r.id = newid 0 r.kind r.idx
instance (g : List HWRow) (r : RegRow) : Decidable (RegOK g r) := by unfold RegOK; infer_instance

/-- Same identity exactly for the same hardware register (class and number as
measured), for registers `r`, `r'` with measurement groups `g`, `g'`. -/
def IdentOK (g g' : List HWRow) (r r' : RegRow) : Prop :=
  ∀ h ∈ g, ∀ h' ∈ g', (r.id = r'.id ↔ (h.cls = h'.cls ∧ h.num = h'.num))
instance (g g' : List HWRow) (r r' : RegRow) : Decidable (IdentOK g g' r r') := by unfold IdentOK; infer_instance

/-- All measurements of a flat table made for `r` (used by the driver, where
the register comes from the implementation rather than from a table position). -/
def groupOf (oracle : List (List HWRow)) (r : RegRow) : List HWRow :=
  oracle.flatten.filter (fun h => decide (Matches r h))

/-- Outcome of converting a physical register (kind, idx, id) to spec `s`:
`none` (nil / panic) exactly when the view does not exist in hardware, otherwise
a register `(id', mask', size')` of the same identity, the requested mask and
its byte count as size. -/
def AsOK (kind idx id s : Nat) : Option (Nat × Nat × Nat) → Prop
  | none => hwViewExists kind idx s = false
  | some (id', m', sz') => hwViewExists kind idx s = true ∧ id' = id ∧ m' = s ∧ sz' = byteCount (maskBytes s)
instance (kind idx id s : Nat) (o : Option (Nat × Nat × Nat)) : Decidable (AsOK kind idx id s o) := by
  cases o <;> unfold AsOK <;> infer_instance

/-- Some register of kind `kind` has the width view `spec` in hardware (a
virtual register stands for a not yet chosen register of its kind, so this is
what "the view exists" means for it).  `hwSpecExists_iff` in Props/C20.lean. -/
def hwSpecExists (kind spec : Nat) : Bool :=
  (kind == kindGP && (spec == S8L || spec == S8H || spec == S16 || spec == S32 || spec == S64)) ||
  (kind == kindVector && (spec == S128 || spec == S256 || spec == S512)) ||
  (kind == kindOpmask && spec == S64)

/-- `reg.Allocation.LookupRegisterDefault` for a virtual register `(vid, vmask)`
allocated to the physical register `(pkind, pidx, pid)`: the view of that
physical register with the virtual register's mask when it exists in hardware,
otherwise the virtual register itself — never another width. -/
def DefaultViewOK (pkind pidx pid vid vmask : Nat) (rd : Nat × Nat) : Prop :=
  rd.2 = vmask ∧ (if hwViewExists pkind pidx vmask = true then rd.1 = pid else rd.1 = vid)
instance (a b c d e : Nat) (rd : Nat × Nat) : Decidable (DefaultViewOK a b c d e rd) := by unfold DefaultViewOK; infer_instance

/-- Outcome of converting a virtual register of kind `kind` and identity `id`
to spec `s`: it fails exactly when no register of the kind has that view in
hardware; otherwise same identity, requested mask, its byte count as size. -/
def VAsOK (kind id s : Nat) : Option (Nat × Nat × Nat) → Prop
  | none => hwSpecExists kind s = false
  | some (id', m', sz') => hwSpecExists kind s = true ∧ id' = id ∧ m' = s ∧ sz' = byteCount (maskBytes s)
instance (kind id s : Nat) (o : Option (Nat × Nat × Nat)) : Decidable (VAsOK kind id s o) := by
  cases o <;> unfold VAsOK <;> infer_instance

/-- Outcome `(id, mask, size, kind)` of asking for a virtual register of kind
`kind` and width `spec` (reg.NewVirtual, Family.Virtual, Collection.VirtualRegister /
GP(s) / Vec(s); `idx` = the index when the caller chooses it): failure exactly
when no register of that kind has such a view in hardware ("views that do not
exist in hardware are not manufactured"); otherwise a virtual id of that kind
(and index), the requested mask, and its byte count as size. -/
def VNewOK (kind spec : Nat) (idx : Option Nat) : Option (Nat × Nat × Nat × Nat) → Prop
  | none => hwSpecExists kind spec = false
  | some (id, m, sz, k) =>
    idIsVirtual id = true ∧ idKind id = kind ∧ k = kind ∧ idx.all (fun i => idIndex id == i) = true ∧ m = spec ∧
    hwSpecExists kind spec = true ∧ sz = byteCount (maskBytes spec)
instance (kind spec : Nat) (idx : Option Nat) (o : Option (Nat × Nat × Nat × Nat)) : Decidable (VNewOK kind spec idx o) := by
  cases o <;> unfold VNewOK <;> infer_instance

/-- A named `Collection` constructor (GP8L … K) hands out a virtual register of
its kind and width — a width view that registers of the kind have in hardware. -/
def CtorOK (ctor : String) (kind mask size id : Nat) : Prop :=
  match ctorKindSpec ctor with
  | none => False
  | some (k, s) => kind = k ∧ mask = s ∧ size = byteCount (maskBytes s) ∧ idIsVirtual id = true ∧ idKind id = k ∧
      hwSpecExists k s = true
instance (ctor : String) (kind mask size id : Nat) : Decidable (CtorOK ctor kind mask size id) := by
  unfold CtorOK; split <;> infer_instance

/-- An id with the virtual flag never resolves to a physical register. -/
def VirtualLookupOK (id : Nat) (res : Option RegRow) : Prop := idIsVirtual id = true → res = none
instance (id : Nat) (res : Option RegRow) : Decidable (VirtualLookupOK id res) := by unfold VirtualLookupOK; infer_instance

/-- `reg.LookupID` on a value whose flag byte is neither 0 nor 1 (never built
by avo; the property does not say what happens): nothing, or the register the
kind and index fields name with the requested mask — never another register. -/
def JunkLookupOK (id s : Nat) : Option RegRow → Prop
  | none => True
  | some p => p.id = newid 0 (idKind id) (idIndex id) ∧ p.mask = s
instance (id s : Nat) (o : Option RegRow) : Decidable (JunkLookupOK id s o) := by
  cases o <;> unfold JunkLookupOK <;> infer_instance

/-- A `Collection` may refuse allocation number `n` (0-based) of a kind only
when the 2¹⁶ indexes of the kind are used up. -/
def AllocFailOK (n : Nat) : Prop := 65536 ≤ n
instance (n : Nat) : Decidable (AllocFailOK n) := by unfold AllocFailOK; infer_instance

/-! ### Exported register variables (reg.ECX, reg.R10W, reg.X7 …)

What a variable NAME denotes is the x86-64 / avo naming convention, written
down here by hand (trusted; nothing is taken from avo): register class, number,
width in bytes, legacy high-byte flag. -/
structure Denot where
  cls : Nat
  num : Nat
  width : Nat
  hi : Bool
  deriving Repr, DecidableEq, Inhabited

def numbered (names : List String) (cls width : Nat) (hi : Bool) : List (String × Denot) :=
  (List.range names.length).zip names |>.map fun p => (p.2, ⟨cls, p.1, width, hi⟩)

def varDenotes : List (String × Denot) :=
  numbered ["AL", "CL", "DL", "BL", "SPB", "BPB", "SIB", "DIB", "R8B", "R9B", "R10B", "R11B", "R12B", "R13B", "R14B", "R15B"] kindGP 1 false ++
  numbered ["AH", "CH", "DH", "BH"] kindGP 1 true ++
  numbered ["AX", "CX", "DX", "BX", "SP", "BP", "SI", "DI", "R8W", "R9W", "R10W", "R11W", "R12W", "R13W", "R14W", "R15W"] kindGP 2 false ++
  numbered ["EAX", "ECX", "EDX", "EBX", "ESP", "EBP", "ESI", "EDI", "R8L", "R9L", "R10L", "R11L", "R12L", "R13L", "R14L", "R15L"] kindGP 4 false ++
  numbered ["RAX", "RCX", "RDX", "RBX", "RSP", "RBP", "RSI", "RDI", "R8", "R9", "R10", "R11", "R12", "R13", "R14", "R15"] kindGP 8 false ++
  numbered ["X0", "X1", "X2", "X3", "X4", "X5", "X6", "X7", "X8", "X9", "X10", "X11", "X12", "X13", "X14", "X15", "X16", "X17", "X18", "X19", "X20", "X21", "X22", "X23", "X24", "X25", "X26", "X27", "X28", "X29", "X30", "X31"] kindVector 16 false ++
  numbered ["Y0", "Y1", "Y2", "Y3", "Y4", "Y5", "Y6", "Y7", "Y8", "Y9", "Y10", "Y11", "Y12", "Y13", "Y14", "Y15", "Y16", "Y17", "Y18", "Y19", "Y20", "Y21", "Y22", "Y23", "Y24", "Y25", "Y26", "Y27", "Y28", "Y29", "Y30", "Y31"] kindVector 32 false ++
  numbered ["Z0", "Z1", "Z2", "Z3", "Z4", "Z5", "Z6", "Z7", "Z8", "Z9", "Z10", "Z11", "Z12", "Z13", "Z14", "Z15", "Z16", "Z17", "Z18", "Z19", "Z20", "Z21", "Z22", "Z23", "Z24", "Z25", "Z26", "Z27", "Z28", "Z29", "Z30", "Z31"] kindVector 64 false ++
  numbered ["K0", "K1", "K2", "K3", "K4", "K5", "K6", "K7"] kindOpmask 8 false

/-- The Go assembler's pseudo registers by the name of avo's variable. -/
def pseudoVars : List (String × String) :=
  [("FramePointer", "FP"), ("ProgramCounter", "PC"), ("StaticBase", "SB"), ("StackPointer", "SP")]

/-- The hardware clause of `VarOK` (for a variable whose name denotes `d`). -/
def VarHwOK (g : List HWRow) (r : RegRow) : Option Denot → Prop
  | none => True
  | some d =>
    physical r ∧ g ≠ [] ∧
    (∀ h ∈ g, Matches r h ∧ h.ok = true ∧ h.cls = d.cls ∧ h.num = d.num ∧ h.width = d.width ∧ h.hi = d.hi) ∧
    r.kind = d.cls ∧ r.idx = d.num ∧ r.size = d.width ∧ maskBytes r.mask = viewBytes d.width d.hi
instance (g : List HWRow) (r : RegRow) (o : Option Denot) : Decidable (VarHwOK g r o) := by
  cases o <;> unfold VarHwOK <;> infer_instance

/-- The pseudo-register clause of `VarOK`. -/
def VarPseudoOK (r : RegRow) : Option String → Prop
  | none => True
  | some a => r.kind = kindPseudo ∧ r.name = a
instance (r : RegRow) (o : Option String) : Decidable (VarPseudoOK r o) := by
  cases o <;> unfold VarPseudoOK <;> infer_instance

/-- The exported variable `name` holds register `r` (what its value reports):
`r` is a register of avo's families (row `i` of `tbl`; `oracle` is aligned with
`tbl`, so its `i`-th group `g` are the measurements of `r`'s assembler name in
`r`'s width context); and when the name is a hardware register name: every
measurement in `g` (there is at least one) assembled to exactly the register class, number,
width and byte half the VARIABLE's name denotes, and `r` reports that class,
number, width and those bytes.  A pseudo-register variable holds the pseudo
register of that assembler name.  (Names outside both tables — none today — are
only required to hold a register of the families.) -/
def VarOK (tbl : List RegRow) (oracle : List (List HWRow)) (name : String) (i : Nat) (r : RegRow) : Prop :=
  tbl[i]? = some r ∧ VarHwOK ((oracle[i]?).getD []) r (varDenotes.lookup name) ∧ VarPseudoOK r (pseudoVars.lookup name)
instance (tbl : List RegRow) (oracle : List (List HWRow)) (name : String) (i : Nat) (r : RegRow) :
    Decidable (VarOK tbl oracle name i r) := by
  unfold VarOK; infer_instance

/-- Two allocations (numbers `i`, `j`) of kind `k` from one collection got `idi`, `idj`. -/
def FreshOK (k i j idi idj : Nat) : Prop :=
  idIsVirtual idi = true ∧ idIsVirtual idj = true ∧ idKind idi = k ∧ idKind idj = k ∧ (i ≠ j → idi ≠ idj)
instance (k i j a b : Nat) : Decidable (FreshOK k i j a b) := by unfold FreshOK; infer_instance

/-- `operand` classification predicates, in the order
IsRegister IsPseudo IsR8 IsR16 IsR32 IsR64 IsXMM IsYMM IsZMM IsK IsAL IsCL IsAX IsEAX IsRAX IsXMM0,
as computed by operand/checks.go from kind and size (and, for the six
specific-register predicates, the physical register's index and mask). -/
def classBits (isPhys : Bool) (kind idx mask size : Nat) : List Bool :=
  [true, kind == kindPseudo,
   kind == kindGP && size == 1, kind == kindGP && size == 2, kind == kindGP && size == 4, kind == kindGP && size == 8,
   kind == kindVector && size == 16, kind == kindVector && size == 32, kind == kindVector && size == 64,
   kind == kindOpmask,
   isPhys && kind == kindGP && idx == 0 && mask == S8L, isPhys && kind == kindGP && idx == 1 && mask == S8L,
   isPhys && kind == kindGP && idx == 0 && mask == S16, isPhys && kind == kindGP && idx == 0 && mask == S32,
   isPhys && kind == kindGP && idx == 0 && mask == S64, isPhys && kind == kindVector && idx == 0 && mask == S128]

/-- The same classification judged by the hardware: what the name decodes to. -/
def hwClassBits (h : HWRow) : List Bool :=
  [true, false,
   h.cls == 1 && h.width == 1, h.cls == 1 && h.width == 2, h.cls == 1 && h.width == 4, h.cls == 1 && h.width == 8,
   h.cls == 2 && h.width == 16, h.cls == 2 && h.width == 32, h.cls == 2 && h.width == 64,
   h.cls == 3,
   h.cls == 1 && h.num == 0 && h.width == 1 && !h.hi, h.cls == 1 && h.num == 1 && h.width == 1 && !h.hi,
   h.cls == 1 && h.num == 0 && h.width == 2, h.cls == 1 && h.num == 0 && h.width == 4,
   h.cls == 1 && h.num == 0 && h.width == 8, h.cls == 2 && h.num == 0 && h.width == 16]

/-- The operand classification of a virtual register of a kind and width that
exist in hardware: by kind and byte count of the mask; none of AL … XMM0. -/
def VClassOK (kind mask : Nat) (bits : List Bool) : Prop :=
  hwSpecExists kind mask = true → bits = classBits false kind 0 mask (byteCount (maskBytes mask))
instance (kind mask : Nat) (bits : List Bool) : Decidable (VClassOK kind mask bits) := by unfold VClassOK; infer_instance

/-- The operand classification of a physical register is the hardware's
(`g`: the measurements made for that register). -/
def ClassOK (g : List HWRow) (bits : List Bool) : Prop :=
  g ≠ [] ∧ ∀ h ∈ g, bits = hwClassBits h
instance (g : List HWRow) (b : List Bool) : Decidable (ClassOK g b) := by unfold ClassOK; infer_instance

end Avo.Reg
