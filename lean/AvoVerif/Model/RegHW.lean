/-
C20 model additions (core Lean only): rows of the measured oracle table
`Oracle.regHW`, the byte sets denoted by a spec mask, the architectural notion
"this width view of this register exists in hardware", the physical view
conversion `register.as` (family lookup), virtual registers with `virtual.as`,
and `reg.Collection` (per-kind `uint16` counters in a Go map).
-/
import AvoVerif.Model.Reg
namespace Avo.Reg

/-- What the CPU did when the instruction was executed (see harness/gen_reghw.go):
the only architectural register that changed (`cls`: 1 GP, 2 vector, 3 opmask;
`num`: its number), the bytes of it that take the written value (`data`, a
bitset over byte positions 0..63) and the bytes that are cleared as a side
effect of the encoding (`zeroed`). -/
structure HWExec where
  cls : Nat
  num : Nat
  data : Nat
  zeroed : Nat
  deriving Repr, DecidableEq, Inhabited

/-- One measured row: assembler name `name` in the width context chosen from
avo's own report (`ctxKind`, `ctxSize`; instruction `op`, encoding `enc`);
`ok` = assembled and decoded consistently; decoded register class, number,
operand width in bytes, legacy high-byte flag (AH/CH/DH/BH = byte 1 of registers
0..3); execution result when the write could be executed safely. -/
structure HWRow where
  name : String
  ctxKind : Nat
  ctxSize : Nat
  op : String
  enc : String
  ok : Bool
  cls : Nat
  num : Nat
  width : Nat
  hi : Bool
  exec : Option HWExec
  deriving Repr, DecidableEq, Inhabited

/-- Byte positions `lo .. hi-1` as a bitset. -/
def byteRange (lo hi : Nat) : Nat := 2 ^ hi - 2 ^ lo

/-- Bytes of the underlying register denoted by mask bit `n` (reg/types.go,
`Spec.Mask`: "if bit n of the mask is set, bytes 2^(n-1) to 2^n-1 are used";
bit 0 is byte 0).  The underlying registers have at most 64 bytes. -/
def laneBytes (n : Nat) : Nat :=
  if n = 0 then byteRange 0 1 else if n ≤ 6 then byteRange (2 ^ (n - 1)) (2 ^ n) else 0

/-- The set of bytes a mask denotes. -/
def maskBytes (m : Nat) : Nat :=
  (List.range 7).foldl (fun acc n => if m.testBit n then acc ||| laneBytes n else acc) 0

/-- Number of bytes in a byte set (positions 0..63). -/
def byteCount (b : Nat) : Nat := (List.range 64).countP (fun i => b.testBit i)

/-- The width views x86-64 has: GP registers 0..15 have low-byte, 16, 32 and
64-bit views, and only registers 0..3 have a high-byte view; vector registers
0..31 have 128/256/512-bit views; opmask registers 0..7 have the 64-bit view. -/
def hwViewExists (kind idx spec : Nat) : Bool :=
  (kind == kindGP && decide (idx < 16) &&
    (spec == S8L || spec == S16 || spec == S32 || spec == S64 || (spec == S8H && decide (idx < 4)))) ||
  (kind == kindVector && decide (idx < 32) && (spec == S128 || spec == S256 || spec == S512)) ||
  (kind == kindOpmask && decide (idx < 8) && spec == S64)

/-- `register.as`: `r.family.Lookup(r.PhysicalIndex(), s)`; `none` is Go's nil
(the typed wrappers `As8H` … then panic on the failed type assertion). -/
def physAs (tbl : List RegRow) (r : RegRow) (s : Nat) : Option RegRow := lookup tbl r.kind r.idx s

/-- `reg.virtual`. -/
structure Virt where
  idx : Nat
  kind : Nat
  spec : Nat
  deriving Repr, DecidableEq, Inhabited

def Virt.id (v : Virt) : Nat := newid 1 v.kind v.idx
def Virt.mask (v : Virt) : Nat := v.spec
def Virt.size (v : Virt) : Nat := specSize v.spec
/-- `virtual.as`. -/
def Virt.as (v : Virt) (s : Nat) : Virt := { v with spec := s }

/-- The spec a conversion method asks for (`reg/x86.go`). -/
def methodSpec : String → Option Nat
  | "As8" => some S8L
  | "As8L" => some S8L
  | "As8H" => some S8H
  | "As16" => some S16
  | "As32" => some S32
  | "As64" => some S64
  | "AsX" => some S128
  | "AsY" => some S256
  | "AsZ" => some S512
  | _ => none

/-- Kind and spec of a `Collection` constructor method. -/
def ctorKindSpec : String → Option (Nat × Nat)
  | "GP8L" => some (kindGP, S8L)
  | "GP8H" => some (kindGP, S8H)
  | "GP8" => some (kindGP, S8L)
  | "GP16" => some (kindGP, S16)
  | "GP32" => some (kindGP, S32)
  | "GP64" => some (kindGP, S64)
  | "XMM" => some (kindVector, S128)
  | "YMM" => some (kindVector, S256)
  | "ZMM" => some (kindVector, S512)
  | "K" => some (kindOpmask, S64)
  | _ => none

/-- `Collection.idx : map[Kind]Index` as an association list (first entry wins,
absent key reads 0 as in Go). -/
abbrev Coll := List (Nat × Nat)

def Coll.get (c : Coll) (k : Nat) : Nat := (c.lookup k).getD 0
def Coll.set (c : Coll) (k v : Nat) : Coll := (k, v) :: c

/-- `Collection.VirtualRegister(k, s)`: `idx := c.idx[k]; c.idx[k]++` on `uint16`. -/
def Coll.alloc (c : Coll) (k s : Nat) : Virt × Coll :=
  (⟨c.get k, k, s⟩, c.set k ((c.get k + 1) % 65536))

/-- The collection after a history of allocation requests `(kind, spec)`. -/
def Coll.after (c : Coll) : List (Nat × Nat) → Coll
  | [] => c
  | (k, s) :: rest => Coll.after (c.alloc k s).2 rest

/-- The registers handed out for a history of requests. -/
def Coll.run (c : Coll) : List (Nat × Nat) → List Virt
  | [] => []
  | (k, s) :: rest => (c.alloc k s).1 :: Coll.run (c.alloc k s).2 rest

/-! ### The statement of C20, per register / per conversion.

These are the declarative clauses of the property.  They are decidable; the
theorems of `Props/C20.lean` prove them for the model over the regenerated and
measured tables (for all inputs), and the driver evaluates the very same
propositions (`decide`) on the implementation's outputs (`accept-…` requests). -/

/-- Pseudo registers (FP, PC, SB, pseudo-SP; kind 0, mask 0) are not hardware registers. -/
def physical (r : RegRow) : Prop := r.kind ≠ kindPseudo
instance (r : RegRow) : Decidable (physical r) := by unfold physical; infer_instance

/-- The oracle rows measured for register `r`: its assembler name in the width
context of its kind and size. -/
def Matches (r : RegRow) (h : HWRow) : Prop := h.name = r.name ∧ h.ctxKind = r.kind ∧ h.ctxSize = r.size
instance (r : RegRow) (h : HWRow) : Decidable (Matches r h) := by unfold Matches; infer_instance

/-- The bytes of the full register a view addresses, from the decoded operand
width and the high-byte flag. -/
def viewBytes (width : Nat) (hi : Bool) : Nat := if hi then byteRange 1 2 else byteRange 0 width

def ExecAgrees (r : RegRow) : Option HWExec → Prop
  | none => True
  | some e => e.cls = r.kind ∧ e.num = r.idx ∧ e.data = maskBytes r.mask
instance (r : RegRow) (e : Option HWExec) : Decidable (ExecAgrees r e) := by
  cases e <;> unfold ExecAgrees <;> infer_instance

/-- Register `r` of avo's table agrees with one measurement: the name assembled
(and decoded consistently), to the register class, number and operand width avo
reports; the mask denotes exactly the bytes that view addresses; and, when the
write was executed, the CPU changed exactly that architectural register and the
bytes that took the written value are exactly the bytes of the mask. -/
def HwAgrees (r : RegRow) (h : HWRow) : Prop :=
  h.ok = true ∧ h.cls = r.kind ∧ h.num = r.idx ∧ h.width = r.size ∧
  maskBytes r.mask = viewBytes h.width h.hi ∧ ExecAgrees r h.exec
instance (r : RegRow) (h : HWRow) : Decidable (HwAgrees r h) := by unfold HwAgrees; infer_instance

/-- C20 for one physical register `r` against its group of measurements `g`
(all measurements made for that register, one per instruction encoding): there
is at least one, each was made with `r`'s name in `r`'s width context and
agrees; the size is the byte count of the mask and `Spec.Size` of it; the id is
`newid 0 kind idx`. -/
def RegOK (g : List HWRow) (r : RegRow) : Prop :=
  physical r ∧ g ≠ [] ∧ (∀ h ∈ g, Matches r h ∧ HwAgrees r h) ∧
  r.mask < 128 ∧ r.size = byteCount (maskBytes r.mask) ∧ specSize r.mask = r.size ∧
  r.kind < 256 ∧ r.idx < 65536 ∧ r.id = newid 0 r.kind r.idx
instance (g : List HWRow) (r : RegRow) : Decidable (RegOK g r) := by unfold RegOK; infer_instance

/-- Same identity exactly for the same hardware register (class and number as
measured), for registers `r`, `r'` with measurement groups `g`, `g'`. -/
def IdentOK (g g' : List HWRow) (r r' : RegRow) : Prop :=
  ∀ h ∈ g, ∀ h' ∈ g', (r.id = r'.id ↔ (h.cls = h'.cls ∧ h.num = h'.num))
instance (g g' : List HWRow) (r r' : RegRow) : Decidable (IdentOK g g' r r') := by unfold IdentOK; infer_instance

/-- All measurements of a flat table made for `r` (used by the driver, where
the register comes from the implementation rather than from a table position). -/
def groupOf (oracle : List (List HWRow)) (r : RegRow) : List HWRow :=
  oracle.flatten.filter (fun h => decide (Matches r h))

/-- Outcome of converting a physical register (kind, idx, id) to spec `s`:
`none` (nil / panic) exactly when the view does not exist in hardware, otherwise
a register `(id', mask', size')` of the same identity, the requested mask and
its byte count as size. -/
def AsOK (kind idx id s : Nat) : Option (Nat × Nat × Nat) → Prop
  | none => hwViewExists kind idx s = false
  | some (id', m', sz') => hwViewExists kind idx s = true ∧ id' = id ∧ m' = s ∧ sz' = byteCount (maskBytes s)
instance (kind idx id s : Nat) (o : Option (Nat × Nat × Nat)) : Decidable (AsOK kind idx id s o) := by
  cases o <;> unfold AsOK <;> infer_instance

/-- Outcome of converting a virtual register: never fails, same identity,
requested mask, its byte count as size. -/
def VAsOK (id s : Nat) : Option (Nat × Nat × Nat) → Prop
  | none => False
  | some (id', m', sz') => id' = id ∧ m' = s ∧ sz' = byteCount (maskBytes s)
instance (id s : Nat) (o : Option (Nat × Nat × Nat)) : Decidable (VAsOK id s o) := by
  cases o <;> unfold VAsOK <;> infer_instance

/-- Two allocations (numbers `i`, `j`) of kind `k` from one collection got `idi`, `idj`. -/
def FreshOK (k i j idi idj : Nat) : Prop :=
  idIsVirtual idi = true ∧ idIsVirtual idj = true ∧ idKind idi = k ∧ idKind idj = k ∧ (i ≠ j → idi ≠ idj)
instance (k i j a b : Nat) : Decidable (FreshOK k i j a b) := by unfold FreshOK; infer_instance

/-- `operand` classification predicates, in the order
IsRegister IsPseudo IsR8 IsR16 IsR32 IsR64 IsXMM IsYMM IsZMM IsK IsAL IsCL IsAX IsEAX IsRAX IsXMM0,
as computed by operand/checks.go from kind and size (and, for the six
specific-register predicates, the physical register's index and mask). -/
def classBits (isPhys : Bool) (kind idx mask size : Nat) : List Bool :=
  [true, kind == kindPseudo,
   kind == kindGP && size == 1, kind == kindGP && size == 2, kind == kindGP && size == 4, kind == kindGP && size == 8,
   kind == kindVector && size == 16, kind == kindVector && size == 32, kind == kindVector && size == 64,
   kind == kindOpmask,
   isPhys && kind == kindGP && idx == 0 && mask == S8L, isPhys && kind == kindGP && idx == 1 && mask == S8L,
   isPhys && kind == kindGP && idx == 0 && mask == S16, isPhys && kind == kindGP && idx == 0 && mask == S32,
   isPhys && kind == kindGP && idx == 0 && mask == S64, isPhys && kind == kindVector && idx == 0 && mask == S128]

/-- The same classification judged by the hardware: what the name decodes to. -/
def hwClassBits (h : HWRow) : List Bool :=
  [true, false,
   h.cls == 1 && h.width == 1, h.cls == 1 && h.width == 2, h.cls == 1 && h.width == 4, h.cls == 1 && h.width == 8,
   h.cls == 2 && h.width == 16, h.cls == 2 && h.width == 32, h.cls == 2 && h.width == 64,
   h.cls == 3,
   h.cls == 1 && h.num == 0 && h.width == 1 && !h.hi, h.cls == 1 && h.num == 1 && h.width == 1 && !h.hi,
   h.cls == 1 && h.num == 0 && h.width == 2, h.cls == 1 && h.num == 0 && h.width == 4,
   h.cls == 1 && h.num == 0 && h.width == 8, h.cls == 2 && h.num == 0 && h.width == 16]

/-- The operand classification of a physical register is the hardware's
(`g`: the measurements made for that register). -/
def ClassOK (g : List HWRow) (bits : List Bool) : Prop :=
  g ≠ [] ∧ ∀ h ∈ g, bits = hwClassBits h
instance (g : List HWRow) (b : List Bool) : Decidable (ClassOK g b) := by unfold ClassOK; infer_instance

end Avo.Reg
