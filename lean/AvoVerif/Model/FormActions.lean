/-
Compact view of avo's instruction form table (x86/zoptab.go `forms`) for the
structural facts of C04: per row the opcode, suffix class, feature bits and,
per operand, its type (or implicit register), whether it is implicit and its
read/write action.  Rows are regenerated into `Gen/FormActions_*.lean` from
the COMPILED table (`x86.VerifForms`).  Core Lean only.

Names travel as big-endian base-256 naturals (kernel evaluation over `String`
is too slow for 12 000 rows; `Nat` arithmetic is GMP-accelerated).
-/
namespace Avo.FormActions

/-- One operand of a form: `ty` is the `oprndtype` value of an explicit operand
or the `implreg` value of an implicit one; `act` bit 0 = read, bit 1 = write. -/
structure Opnd where
  ty : Nat
  impl : Bool
  act : Nat
  deriving Repr, DecidableEq, Inhabited

structure Row where
  /-- opcode name (big-endian base-256 of the ASCII text) -/
  opc : Nat
  cls : Nat
  feat : Nat
  ops : List Opnd
  deriving Repr, DecidableEq, Inhabited

structure Meta where
  /-- opcode names in order of first appearance in the table -/
  opcodes : Array Nat
  /-- operand type names (lower case, prefix stripped), indexed by `oprndtype` value -/
  typeNames : Array Nat
  /-- implicit registers indexed by `implreg` value: name, register id and mask of `implreg.Register()` -/
  implRegs : Array (Nat × Nat × Nat)
  /-- suffix classes indexed by class value: name, some / every accepted suffix list contains `Z` -/
  sfxClasses : Array (Nat × Bool × Bool)
  deriving Repr, Inhabited

/-! ### Names -/

/-- `p` is a prefix of `n` (as byte strings without leading zero bytes): dropping some
number of low bytes of `n` leaves exactly `p`. Names are shorter than 40 bytes. -/
def hasPrefixAux : Nat → Nat → Nat → Bool
  | 0, _, _ => false
  | fuel+1, p, n => n == p || (n != 0 && hasPrefixAux fuel p (n >>> 8))

def hasPrefix (p n : Nat) : Bool := hasPrefixAux 40 p n

def toChars : Nat → Nat → List Char → List Char
  | 0, _, acc => acc
  | fuel+1, n, acc => if n = 0 then acc else toChars fuel (n / 256) (Char.ofNat (n % 256) :: acc)

def toStr (n : Nat) : String := String.ofList (toChars 64 n [])

/-! Operand type names used by the facts (hex of the ASCII text). -/
def nR8 : Nat := 0x7238
def nR16 : Nat := 0x723136
def nR32 : Nat := 0x723332
def nR64 : Nat := 0x723634
def nXMM : Nat := 0x786d6d
def nYMM : Nat := 0x796d6d
def nZMM : Nat := 0x7a6d6d
def nK : Nat := 0x6b
def nCMOV : Nat := 0x434d4f56
def nSET : Nat := 0x534554

def nBSF : Nat := 0x425346
def nBSR : Nat := 0x425352
def nJCXZL : Nat := 0x4a43585a4c
def nJCXZQ : Nat := 0x4a43585a51
def nPUSHQ : Nat := 0x5055534851
def nPUSHW : Nat := 0x5055534857
def nPOPQ : Nat := 0x504f5051
def nPOPW : Nat := 0x504f5057
def nJMP : Nat := 0x4a4d50
def nSYSCALL : Nat := 0x53595343414c4c
def nREL8 : Nat := 0x72656c38
def nREL32 : Nat := 0x72656c3332
def nIMM8 : Nat := 0x696d6d38
def nIMM32 : Nat := 0x696d6d3332

/-- register ids (`reg.ID`: kind in bits 8.., index in bits 16..) used by the facts on implicit operands -/
def idRAX : Nat := 256
def idRCX : Nat := 65792
def idRDX : Nat := 131328
def idRBX : Nat := 196864
def idRDI : Nat := 459008
def idR11 : Nat := 721152
def idZ0 : Nat := 512

/-- What the NAME of an implicit register (`implregRAX` → `rax`) must resolve to: (name, id, mask).
Independent of avo's `implreg.Register()`; names not listed here are not constrained. -/
def knownImpl : List (Nat × Nat × Nat) :=
  [ (0x616c, idRAX, 1), (0x6178, idRAX, 3), (0x656178, idRAX, 7), (0x726178, idRAX, 15)
  , (0x656278, idRBX, 7), (0x726278, idRBX, 15)
  , (0x656378, idRCX, 7), (0x726378, idRCX, 15)
  , (0x6478, idRDX, 3), (0x656478, idRDX, 7), (0x726478, idRDX, 15)
  , (0x726469, idRDI, 15), (0x723131, idR11, 15), (0x7830, idZ0, 31) ]

def Opnd.reads (o : Opnd) : Bool := o.act &&& 1 == 1
def Opnd.writes (o : Opnd) : Bool := o.act &&& 2 == 2

def tyName (m : Meta) (o : Opnd) : Nat := if o.impl then 0 else m.typeNames.getD o.ty 0

/-- explicit operand whose type admits exactly one register (no memory alternative) -/
def isSingleReg (m : Meta) (o : Opnd) : Bool :=
  !o.impl && [nR8, nR16, nR32, nR64, nXMM, nYMM, nZMM, nK].contains (tyName m o)

def isVecReg (m : Meta) (o : Opnd) : Bool :=
  !o.impl && [nXMM, nYMM, nZMM].contains (tyName m o)

def isK (m : Meta) (o : Opnd) : Bool := !o.impl && tyName m o == nK

def featCancelling : Nat := 8

def Row.cancelling (r : Row) : Bool := r.feat &&& featCancelling == featCancelling

/-- **Cancelling forms.** `ir.Instruction.InputRegisters` drops `rs[0], rs[1]`
when they are equal: that is only the pair of source operands if the first two
operands with a read action are explicit operands of the same single-register
type (a memory operand or an implicit register in front would shift the
indices). -/
def cancellingOK (m : Meta) (r : Row) : Bool :=
  !r.cancelling ||
  (match r.ops.filter Opnd.reads with
   | a :: b :: _ => isSingleReg m a && isSingleReg m b && a.ty == b.ty
   | _ => false)

/-- The rows of `Gen.regs` relevant here: (id, mask). -/
abbrev RegTbl := List (Nat × Nat)

/-- **Implicit operands** name an entry of the `implreg` enumeration whose
register (id, mask) is a physical register of `Gen.regs`. -/
def implicitOK (m : Meta) (regs : RegTbl) (r : Row) : Bool :=
  r.ops.all (fun o => !o.impl ||
    (match m.implRegs[o.ty]? with
     | some (name, id, mask) => name != 0 && id % 2 == 0 && regs.contains (id, mask) &&
         (match knownImpl.find? (fun k => k.1 == name) with
          | some (_, i, k) => id == i && mask == k
          | none => true)
     | none => false))

/-- implicit operand `o` resolves (through `implreg.Register()`) to the register `(id, mask)` -/
def implResolves (m : Meta) (o : Opnd) (id mask : Nat) : Bool :=
  o.impl && (match m.implRegs[o.ty]? with
    | some (_, i, k) => i == id && k == mask
    | none => false)

def isRel (m : Meta) (o : Opnd) : Bool := !o.impl && (tyName m o == nREL8 || tyName m o == nREL32)
def isImm (m : Meta) (o : Opnd) : Bool := !o.impl && (tyName m o == nIMM8 || tyName m o == nIMM32)

/-- **Rows that are never executed by the measurement** (branches, stack operations, system call):
what can be said about their declared operands without running them.
* a relative branch target carries no register action;
* `JCXZQ`/`JCXZL` read the implicit `RCX`/`ECX` they test;
* `PUSHQ/PUSHW` read their register or memory operand (an immediate has no action), `POPQ/POPW` write theirs;
* an indirect `JMP` reads its operand;
* `SYSCALL` writes `RCX` and `R11`. -/
def deniedOK (m : Meta) (r : Row) : Bool :=
  r.ops.all (fun o => !isRel m o || o.act == 0) &&
  (r.opc != nJCXZQ || r.ops.any (fun o => implResolves m o idRCX 15 && o.reads)) &&
  (r.opc != nJCXZL || r.ops.any (fun o => implResolves m o idRCX 7 && o.reads)) &&
  (!(r.opc == nPUSHQ || r.opc == nPUSHW) ||
    (match r.ops with
     | [o] => !o.impl && (if isImm m o then o.act == 0 else o.reads && !o.writes)
     | _ => false)) &&
  (!(r.opc == nPOPQ || r.opc == nPOPW) ||
    (match r.ops with
     | [o] => !o.impl && o.writes && !o.reads
     | _ => false)) &&
  (r.opc != nJMP ||
    (match r.ops with
     | [o] => !o.impl && (isRel m o || (o.reads && !o.writes))
     | _ => false)) &&
  (r.opc != nSYSCALL ||
    (r.ops.any (fun o => implResolves m o idRCX 15 && o.writes) &&
     r.ops.any (fun o => implResolves m o idR11 15 && o.writes)))

/-- actions are one of N, R, W, RW and explicit operand types are known -/
def shapeOK (m : Meta) (r : Row) : Bool :=
  r.opc != 0 && r.cls < m.sfxClasses.size &&
  r.ops.all (fun o => o.act < 4 && (o.impl || tyName m o != 0))

def clsSomeZ (m : Meta) (r : Row) : Bool := (m.sfxClasses.getD r.cls (0, false, false)).2.1
def clsAllZ (m : Meta) (r : Row) : Bool := (m.sfxClasses.getD r.cls (0, false, false)).2.2

/-- the form has an opmask operand in a non-final position with a read action
(a write mask) and its last operand is a vector register -/
def maskedVecDest (m : Meta) (r : Row) : Bool :=
  match r.ops.filter (fun o => !o.impl) |>.reverse with
  | d :: rest => isVecReg m d && rest.any (fun o => isK m o && o.reads)
  | [] => false

def lastExplicit (r : Row) : Option Opnd := (r.ops.filter (fun o => !o.impl)).getLast?

/-- **Merge masking.** A write-masked form whose suffix class does not force
zeroing (`.Z`) merges into its vector destination: the destination must be
read as well as written.  (Rows whose class forces `.Z` may be write-only.) -/
def mergeDestOK (m : Meta) (r : Row) : Bool :=
  !(maskedVecDest m r && !clsAllZ m r) ||
  (match lastExplicit r with
   | some d => d.reads && d.writes
   | none => false)

/-- a suffix class either always or never carries `Z` -/
def clsZConsistent (m : Meta) : Bool := m.sfxClasses.all (fun c => c.2.1 == c.2.2)

def opcName (_m : Meta) (r : Row) : Nat := r.opc

/-- **Conditional moves** leave the destination unchanged when the condition
fails: the destination (last operand, a register) is read and written. -/
def cmovOK (m : Meta) (r : Row) : Bool :=
  !hasPrefix nCMOV (opcName m r) ||
  (match lastExplicit r with
   | some d => d.reads && d.writes && isSingleReg m d
   | none => false)

/-- **SETcc** writes its single byte operand unconditionally (write-only). -/
def setccOK (m : Meta) (r : Row) : Bool :=
  !hasPrefix nSET (opcName m r) ||
  (match r.ops with
   | [d] => !d.impl && !d.reads && d.writes
   | _ => false)

/-- **BSF/BSR** leave the destination unchanged when the source is zero (on the processors measured): the
destination register is read as well as written. -/
def bitscanOK (m : Meta) (r : Row) : Bool :=
  !(hasPrefix nBSF (opcName m r) || hasPrefix nBSR (opcName m r)) ||
  (match lastExplicit r with
   | some d => d.reads && d.writes && isSingleReg m d
   | none => false)

/-- **Opmask operands in front of the destination are read**: write masks and mask sources alike (the
property's clause "mask registers"). -/
def nonFinalMasksRead (m : Meta) (r : Row) : Bool :=
  match (r.ops.filter (fun o => !o.impl)).reverse with
  | _ :: rest => rest.all (fun o => !isK m o || o.reads)
  | [] => true

def allRows (p : Row → Bool) (rows : List Row) : Bool := rows.all p

/-- opcode names of the rows violating `p`, without repetition, in table order -/
def exceptions (m : Meta) (p : Row → Bool) (rows : List Row) : List Nat :=
  ((rows.filter (fun r => !p r)).map (opcName m)).eraseDups

end Avo.FormActions
