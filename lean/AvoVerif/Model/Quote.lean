/-
Model of Go's `%q` of a string (strconv.Quote, as used by operand.String.Asm)
and of strconv.Unquote (as used by cmd/asm for string constants), on bytes.
Includes the UTF-8 decoder/encoder both rely on.  Core Lean only.

Bytes are `Nat` (< 256).  Which runes ≥ 0x80 are printed raw is Go's
`strconv.IsPrint` table; it is a parameter `pr` here (the round trip holds for
every choice), supplied by the harness for the runes that occur.
-/
import AvoVerif.Model.NumText
namespace Avo.Quote

/-- Lower-case hex digit as a byte. -/
def hexB (d : Nat) : Nat := if d < 10 then 48 + d else 87 + d

/-- Value of a hex digit byte (both cases, as strconv.Unquote accepts). -/
def unhexB (c : Nat) : Option Nat :=
  if 48 ≤ c ∧ c ≤ 57 then some (c - 48)
  else if 97 ≤ c ∧ c ≤ 102 then some (c - 87)
  else if 65 ≤ c ∧ c ≤ 70 then some (c - 55)
  else none

def isCont (b : Nat) : Bool := decide (0x80 ≤ b ∧ b ≤ 0xBF)

/-- `utf8.DecodeRune` at the head of `s`: `some (rune, width)` for a valid
encoding, `none` where Go returns `(RuneError, 1)` (or `s` is empty). -/
def decodeRune : List Nat → Option (Nat × Nat)
  | [] => none
  | b0 :: rest =>
    if b0 < 0x80 then some (b0, 1)
    else if 0xC2 ≤ b0 ∧ b0 ≤ 0xDF then
      match rest with
      | b1 :: _ => if isCont b1 then some ((b0 - 0xC0) * 64 + (b1 - 0x80), 2) else none
      | _ => none
    else if 0xE0 ≤ b0 ∧ b0 ≤ 0xEF then
      match rest with
      | b1 :: b2 :: _ =>
        let lo := if b0 = 0xE0 then 0xA0 else 0x80
        let hi := if b0 = 0xED then 0x9F else 0xBF
        if lo ≤ b1 ∧ b1 ≤ hi ∧ isCont b2 then
          some ((b0 - 0xE0) * 4096 + (b1 - 0x80) * 64 + (b2 - 0x80), 3)
        else none
      | _ => none
    else if 0xF0 ≤ b0 ∧ b0 ≤ 0xF4 then
      match rest with
      | b1 :: b2 :: b3 :: _ =>
        let lo := if b0 = 0xF0 then 0x90 else 0x80
        let hi := if b0 = 0xF4 then 0x8F else 0xBF
        if lo ≤ b1 ∧ b1 ≤ hi ∧ isCont b2 ∧ isCont b3 then
          some ((b0 - 0xF0) * 262144 + (b1 - 0x80) * 4096 + (b2 - 0x80) * 64 + (b3 - 0x80), 4)
        else none
      | _ => none
    else none

def validRune (r : Nat) : Bool := decide (r < 0xD800 ∨ (0xE000 ≤ r ∧ r ≤ 0x10FFFF))

/-- `utf8.AppendRune` (an invalid rune is encoded as U+FFFD). -/
def encodeRune (r : Nat) : List Nat :=
  if r < 0x80 then [r]
  else if r < 0x800 then [0xC0 + r / 64, 0x80 + r % 64]
  else if !validRune r then [0xEF, 0xBF, 0xBD]
  else if r < 0x10000 then [0xE0 + r / 4096, 0x80 + r / 64 % 64, 0x80 + r % 64]
  else [0xF0 + r / 262144, 0x80 + r / 4096 % 64, 0x80 + r / 64 % 64, 0x80 + r % 64]

/-- `\xhh` -/
def escX (b : Nat) : List Nat := [0x5c, 0x78, hexB (b / 16), hexB (b % 16)]

/-- `\uhhhh` -/
def escU4 (r : Nat) : List Nat :=
  [0x5c, 0x75, hexB (r / 4096 % 16), hexB (r / 256 % 16), hexB (r / 16 % 16), hexB (r % 16)]

/-- `\Uhhhhhhhh` -/
def escU8 (r : Nat) : List Nat :=
  [0x5c, 0x55, hexB (r / 268435456 % 16), hexB (r / 16777216 % 16), hexB (r / 1048576 % 16),
   hexB (r / 65536 % 16), hexB (r / 4096 % 16), hexB (r / 256 % 16), hexB (r / 16 % 16), hexB (r % 16)]

/-- `appendEscapedRune` for an ASCII byte inside a double-quoted string. -/
def escASCII (b : Nat) : List Nat :=
  if b = 0x22 then [0x5c, 0x22]
  else if b = 0x5c then [0x5c, 0x5c]
  else if 0x20 ≤ b ∧ b ≤ 0x7e then [b]
  else if b = 7 then [0x5c, 0x61]
  else if b = 8 then [0x5c, 0x62]
  else if b = 12 then [0x5c, 0x66]
  else if b = 10 then [0x5c, 0x6e]
  else if b = 13 then [0x5c, 0x72]
  else if b = 9 then [0x5c, 0x74]
  else if b = 11 then [0x5c, 0x76]
  else escX b

/-- One step of strconv.Quote: the text emitted for the head of `s` and how
many bytes of `s` it consumed. -/
def quoteStep (pr : Nat → Bool) (s : List Nat) : List Nat × Nat :=
  match s with
  | [] => ([], 0)
  | b :: _ =>
    if b < 0x80 then (escASCII b, 1)
    else match decodeRune s with
      | none => (escX b, 1)
      | some (r, w) =>
        if pr r then (s.take w, w)
        else if r < 0x10000 then (escU4 r, w)
        else (escU8 r, w)

/-- The text between the quotes. `fuel` ≥ length of `s`. -/
def quoteFuel (pr : Nat → Bool) : Nat → List Nat → List Nat
  | 0, _ => []
  | fuel + 1, s =>
    match s with
    | [] => []
    | _ :: _ =>
      let st := quoteStep pr s
      st.1 ++ quoteFuel pr fuel (s.drop st.2)

def quoteBody (pr : Nat → Bool) (s : List Nat) : List Nat := quoteFuel pr s.length s

/-- `%q`: the body between double quotes. -/
def quote (pr : Nat → Bool) (s : List Nat) : List Nat := 0x22 :: quoteBody pr s ++ [0x22]

/-- One step of strconv.Unquote inside a double-quoted string: bytes produced
and the remaining text; `none` is a syntax error. -/
def unquoteStep (t : List Nat) : Option (List Nat × List Nat) :=
  match t with
  | [] => none
  | c :: rest =>
    if c = 0x5c then
      match rest with
      | [] => none
      | e :: r1 =>
        if e = 0x61 then some ([7], r1)
        else if e = 0x62 then some ([8], r1)
        else if e = 0x66 then some ([12], r1)
        else if e = 0x6e then some ([10], r1)
        else if e = 0x72 then some ([13], r1)
        else if e = 0x74 then some ([9], r1)
        else if e = 0x76 then some ([11], r1)
        else if e = 0x5c then some ([0x5c], r1)
        else if e = 0x22 then some ([0x22], r1)
        else if e = 0x78 then
          match r1 with
          | h1 :: h2 :: r2 =>
            match unhexB h1, unhexB h2 with
            | some a, some b => some ([a * 16 + b], r2)
            | _, _ => none
          | _ => none
        else if e = 0x75 then
          match r1 with
          | h1 :: h2 :: h3 :: h4 :: r2 =>
            match unhexB h1, unhexB h2, unhexB h3, unhexB h4 with
            | some a, some b, some c, some d =>
              let r := ((a * 16 + b) * 16 + c) * 16 + d
              if validRune r then some (encodeRune r, r2) else none
            | _, _, _, _ => none
          | _ => none
        else if e = 0x55 then
          match r1 with
          | h1 :: h2 :: h3 :: h4 :: h5 :: h6 :: h7 :: h8 :: r2 =>
            match unhexB h1, unhexB h2, unhexB h3, unhexB h4, unhexB h5, unhexB h6, unhexB h7, unhexB h8 with
            | some a, some b, some c, some d, some e', some f, some g, some h =>
              let r := ((((((a * 16 + b) * 16 + c) * 16 + d) * 16 + e') * 16 + f) * 16 + g) * 16 + h
              if validRune r then some (encodeRune r, r2) else none
            | _, _, _, _, _, _, _, _ => none
          | _ => none
        else if 0x30 ≤ e ∧ e ≤ 0x37 then
          match r1 with
          | o2 :: o3 :: r2 =>
            if 0x30 ≤ o2 ∧ o2 ≤ 0x37 ∧ 0x30 ≤ o3 ∧ o3 ≤ 0x37 then
              let v := ((e - 0x30) * 8 + (o2 - 0x30)) * 8 + (o3 - 0x30)
              if v ≤ 255 then some ([v], r2) else none
            else none
          | _ => none
        else none
    else if c = 0x22 ∨ c = 0x0a then none
    else if c < 0x80 then some ([c], rest)
    else match decodeRune t with
      | some (r, w) => some (encodeRune r, t.drop w)
      | none => some ([0xEF, 0xBF, 0xBD], rest)

/-- Unquote the body (text between the quotes). `fuel` ≥ length of `t`. -/
def unquoteFuel : Nat → List Nat → Option (List Nat)
  | _, [] => some []
  | 0, _ :: _ => none
  | fuel + 1, t@(_ :: _) =>
    match unquoteStep t with
    | none => none
    | some (out, rest) =>
      match unquoteFuel fuel rest with
      | none => none
      | some more => some (out ++ more)

def unquoteBody (t : List Nat) : Option (List Nat) := unquoteFuel t.length t

/-- strconv.Unquote of a double-quoted literal. -/
def unquote (t : List Nat) : Option (List Nat) :=
  match t with
  | [] => none
  | q :: rest =>
    if q = 0x22 then
      match rest.reverse with
      | [] => none
      | q2 :: revBody => if q2 = 0x22 then unquoteBody revBody.reverse else none
    else none

end Avo.Quote
