/-
Model of data sections: ir.Datum / ir.Global (ir/ir.go: Interval, Overlaps,
Grow, AddDatum, Append), the constant types of operand/zconst.go and
operand/const.go (Bytes, Asm), the DATA/GLOBL lines of printer/goasm.go, and
of what the assembler does with those lines (cmd/asm asmData + obj.WriteInt /
WriteString).  Core Lean only.

Go's `int` is `Int` here; bytes are `Nat` (< 256).
-/
import AvoVerif.Model.NumText
import AvoVerif.Model.Quote
namespace Avo.Data
open Avo.NumText

/-! ### Constants -/

/-- Little-endian bytes of `v` in `n` bytes (truncating). -/
def leBytes : Nat → Nat → List Nat
  | 0, _ => []
  | n + 1, v => (v % 256) :: leBytes n (v / 256)

/-- The eight integer constant types: width in bytes and signedness. -/
structure IntTy where
  bytes  : Nat
  signed : Bool
  deriving Repr, DecidableEq

def I8 : IntTy := ⟨1, true⟩
def U8 : IntTy := ⟨1, false⟩
def I16 : IntTy := ⟨2, true⟩
def U16 : IntTy := ⟨2, false⟩
def I32 : IntTy := ⟨4, true⟩
def U32 : IntTy := ⟨4, false⟩
def I64 : IntTy := ⟨8, true⟩
def U64 : IntTy := ⟨8, false⟩

def intTypes : List IntTy := [I8, U8, I16, U16, I32, U32, I64, U64]

/-- The values a Go variable of the type can hold. -/
def IntTy.InRange (ty : IntTy) (v : Int) : Prop :=
  if ty.signed then -(2 ^ (8 * ty.bytes - 1) : Int) ≤ v ∧ v < 2 ^ (8 * ty.bytes - 1)
  else 0 ≤ v ∧ v < 2 ^ (8 * ty.bytes)

instance (ty : IntTy) (v : Int) : Decidable (ty.InRange v) := by
  unfold IntTy.InRange; split <;> exact inferInstance

/-- A constant placed in a data section. Floats carry their IEEE bit pattern
and the decimal text the implementation printed for them (float text is
measured against the assembler, not modelled). -/
inductive Const where
  | int (ty : IntTy) (v : Int)
  | float (bytes : Nat) (bits : Nat) (text : List Char)
  | str (bs : List Nat)
  deriving Repr, DecidableEq

/-- `Constant.Bytes()`. -/
def Const.size : Const → Nat
  | .int ty _ => ty.bytes
  | .float n _ _ => n
  | .str bs => bs.length

/-- Two's-complement value of `v` in `n` bytes. -/
def wrap (n : Nat) (v : Int) : Nat := (v % (2 ^ (8 * n) : Int)).toNat

/-- The bytes the constant must occupy in memory. -/
def Const.enc : Const → List Nat
  | .int ty v => leBytes ty.bytes (wrap ty.bytes v)
  | .float n bits _ => leBytes n bits
  | .str bs => bs

/-- Printed form of a constant, by syntactic class (thinly rendered by `ValText.render`). -/
inductive ValText where
  /-- `$` followed by an integer literal -/
  | num (cs : List Char)
  /-- `$(` decimal text `)` -/
  | flt (cs : List Char)
  /-- `$` followed by a double-quoted literal (bytes, including the quotes) -/
  | str (lit : List Nat)
  deriving Repr, DecidableEq

/-- `Asm()` of the constant types: `$%+d` signed, `$%#0Nx` unsigned with
N = 2·bytes, `$(%s)` floats, `$%+q` strings.  `pr` = which runes ≥ 0x80 are printed raw:
none for `%+q` (`fun _ => false`); strconv.IsPrint for the former `%q`. -/
def Const.asm (pr : Nat → Bool) : Const → ValText
  | .int ty v => if ty.signed then .num (intDecPlus v) else .num (hexPad (2 * ty.bytes) v.toNat)
  | .float _ _ text => .flt text
  | .str bs => .str (Quote.quote pr bs)

def charsToBytes (cs : List Char) : List Nat := (String.ofList cs).toUTF8.toList.map (·.toNat)

def ValText.render : ValText → List Nat
  | .num cs => 36 :: charsToBytes cs
  | .flt cs => 36 :: 40 :: charsToBytes cs ++ [41]
  | .str lit => 36 :: lit

/-! ### Data sections -/

structure Datum where
  off : Int
  val : Const
  deriving Repr, DecidableEq

/-- `Datum.Interval`. -/
def Datum.lo (d : Datum) : Int := d.off
def Datum.hi (d : Datum) : Int := d.off + d.val.size

/-- `Datum.Overlaps`: `!(eo <= s || e <= so)`. -/
def overlaps (d o : Datum) : Bool := !(decide (o.hi ≤ d.lo) || decide (d.hi ≤ o.lo))

structure Global where
  data : List Datum := []
  size : Int := 0
  deriving Repr, DecidableEq

/-- `Global.Grow`. -/
def grow (g : Global) (n : Int) : Global := if g.size < n then { g with size := n } else g

/-- `Global.add`: grow to the datum's end, then append it. -/
def add (g : Global) (d : Datum) : Global :=
  let g' := grow g d.hi
  { g' with data := g'.data ++ [d] }

/-- `Global.AddDatum`: `none` is the error "overlaps existing datum". -/
def addDatum (g : Global) (d : Datum) : Option Global :=
  if g.data.any (overlaps d) then none else some (add g d)

/-- `Global.Append`. -/
def append (g : Global) (v : Const) : Global := add g ⟨g.size, v⟩

inductive Op where
  | place (off : Int) (v : Const)   -- Context.AddDatum / DATA
  | append (v : Const)              -- Context.AppendDatum
  | grow (n : Int)                  -- Global.Grow
  deriving Repr, DecidableEq

/-- One call; the flag says whether it was accepted (Context.AddDatum records
the error and leaves the section unchanged). -/
def step (g : Global) : Op → Global × Bool
  | .place off v => match addDatum g ⟨off, v⟩ with
    | some g' => (g', true)
    | none => (g, false)
  | .append v => (append g v, true)
  | .grow n => (grow g n, true)

def run (g : Global) : List Op → Global × List Bool
  | [] => (g, [])
  | op :: ops =>
    let r := step g op
    let rest := run r.1 ops
    (rest.1, r.2 :: rest.2)

/-! ### Memory image -/

/-- Content of byte `p` after writing the data in list order into zeroed memory
(a later write wins). -/
def byteAt (data : List (Int × List Nat)) (p : Int) : Nat :=
  data.foldl (fun acc d =>
    if d.1 ≤ p ∧ p < d.1 + d.2.length then d.2.getD (p - d.1).toNat 0 else acc) 0

def Global.writes (g : Global) : List (Int × List Nat) := g.data.map (fun d => (d.off, d.val.enc))

/-- The bytes of the symbol: `size` bytes, zero where nothing was placed. -/
def image (g : Global) : List Nat :=
  (List.range g.size.toNat).map (fun (p : Nat) => byteAt g.writes (Int.ofNat p))

/-! ### Printed lines -/

/-- The variable fields of `DATA sym<>+off(SB)/len, val`. -/
structure DataText where
  off : List Char   -- `%+d` of the offset
  len : List Char   -- `%d` of Bytes()
  val : ValText
  deriving Repr, DecidableEq

def Datum.text (pr : Nat → Bool) (d : Datum) : DataText :=
  ⟨intDecPlus d.off, intDec d.val.size, d.val.asm pr⟩

/-- The DATA lines of a section, in the order printed (= insertion order),
and the `$size` of its GLOBL line. -/
def Global.texts (pr : Nat → Bool) (g : Global) : List DataText × List Char :=
  (g.data.map (Datum.text pr), intDec g.size)

/-- Full text of a DATA line. -/
def DataText.render (sym : List Nat) (t : DataText) : List Nat :=
  charsToBytes "DATA ".toList ++ sym ++ charsToBytes t.off ++ charsToBytes "(SB)/".toList ++
  charsToBytes t.len ++ charsToBytes ", ".toList ++ t.val.render

/-- Full text of the GLOBL line (`attr` = Attributes.Asm(), property C19). -/
def globlRender (sym attr : List Nat) (size : List Char) : List Nat :=
  charsToBytes "GLOBL ".toList ++ sym ++ charsToBytes "(SB), ".toList ++ attr ++
  charsToBytes ", $".toList ++ charsToBytes size

/-! ### The assembler's reading of the lines -/

/-- cmd/asm's lexer (lex.Make) rewrites, in every token — string literals
included — U+00B7 `·` (bytes c2 b7) to `.` and U+2215 `∕` (bytes e2 88 95) to `/`. -/
def asmSubstAux : Nat → List Nat → List Nat
  | _, [] => []
  | skip + 1, _ :: rest => asmSubstAux skip rest   -- a byte of a pattern already replaced
  | 0, b :: rest =>
    if b = 0xc2 ∧ rest.take 1 = [0xb7] then 0x2e :: asmSubstAux 1 rest
    else if b = 0xe2 ∧ rest.take 2 = [0x88, 0x95] then 0x2f :: asmSubstAux 2 rest
    else b :: asmSubstAux 0 rest

def asmSubst (t : List Nat) : List Nat := asmSubstAux 0 t

/-- Bytes written for one DATA value of declared length `len`
(cmd/asm asmData): integers only with length 1, 2, 4 or 8, truncated
two's complement; strings are read after the lexer's substitution, must fit and are zero padded; floats through the
oracle `fparse` (text → bit pattern for the given length). -/
def asmValue (fparse : List Char → Nat → Option Nat) (len : Nat) : ValText → Option (List Nat)
  | .num cs =>
    match parseIntLit cs with
    | some v => if len = 1 ∨ len = 2 ∨ len = 4 ∨ len = 8 then some (leBytes len (wrap len v)) else none
    | none => none
  | .flt cs =>
    if len = 4 ∨ len = 8 then (fparse cs len).map (leBytes len) else none
  | .str lit =>
    match Quote.unquote (asmSubst lit) with
    | some bs => if len < bs.length then none else some (bs ++ List.replicate (len - bs.length) 0)
    | none => none

/-- Assemble the DATA lines of one symbol: every offset must be at or above the
end of the previous entry ("overlapping DATA entry" otherwise) and not
negative.  Result: the writes `(offset, bytes)` in order. -/
def asmLines (fparse : List Char → Nat → Option Nat) :
    List DataText → Int → Option (List (Int × List Nat))
  | [], _ => some []
  | t :: ts, last =>
    match parseIntLit t.off, parseNat 10 t.len with
    | some off, some len =>
      if off < last ∨ off < 0 then none else
      match asmValue fparse len t.val, asmLines fparse ts (off + len) with
      | some bs, some rest => some ((off, bs) :: rest)
      | _, _ => none
    | _, _ => none

/-- The assembled symbol: GLOBL size bytes; data beyond the size is a link error. -/
def assemble (fparse : List Char → Nat → Option Nat) (texts : List DataText × List Char) :
    Option (List Nat) :=
  match asmLines fparse texts.1 0, parseNat 10 texts.2 with
  | some ws, some size =>
    if ws.any (fun w => decide ((size : Int) < w.1 + w.2.length)) then none
    else some ((List.range size).map (fun (p : Nat) => byteAt ws (Int.ofNat p)))
  | _, _ => none

/-- Entries are printed in an order the assembler accepts. -/
def monotone : List Datum → Int → Bool
  | [], _ => true
  | d :: ds, last => decide (last ≤ d.off) && monotone ds d.hi

end Avo.Data
