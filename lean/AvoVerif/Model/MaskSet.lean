/-
Model of reg/set.go: MaskSet (register ID ↦ byte-lane mask) as an association
list with OR-semantics lookup, and the refinement of its operations to set
operations on locations (id, lane).  Core Lean only.
-/
import AvoVerif.Model.Reg
namespace Avo.MaskSet
open Avo.Reg

/-- Association list of (register id, mask). -/
abbrev MS := List (Nat × Nat)

/-- The mask stored for `id` (`s[id]` of the Go map; 0 when absent). Robust to
repeated keys: the OR of all entries with that key. -/
def get : MS → Nat → Nat
  | [], _ => 0
  | (k, v) :: s, id => if k = id then v ||| get s id else get s id

def hasKey : MS → Nat → Bool
  | [], _ => false
  | (k, _) :: s, id => k == id || hasKey s id

/-- OR `m` into the first entry for `id`, or append a new entry. -/
def orInto : MS → Nat → Nat → MS
  | [], id, m => [(id, m)]
  | (k, v) :: s, id, m => if k = id then (k, v ||| m) :: s else (k, v) :: orInto s id m

/-- `MaskSet.Add`: returns the new set and whether it changed. -/
def add (s : MS) (id m : Nat) : MS × Bool :=
  if get s id &&& m = m then (s, false) else (orInto s id m, true)

/-- Clear the bits of `m` in `v`. -/
def clear (v m : Nat) : Nat := v ^^^ (v &&& m)

/-- `MaskSet.Discard` (entries that become 0 are dropped, as the Go code deletes them). -/
def discard : MS → Nat → Nat → MS
  | [], _, _ => []
  | (k, v) :: s, id, m =>
    if k = id then
      (if clear v m = 0 then discard s id m else (k, clear v m) :: discard s id m)
    else (k, v) :: discard s id m

/-- `MaskSet.Update`: add every entry of `t`; reports whether anything changed. -/
def update (s : MS) : MS → MS × Bool
  | [] => (s, false)
  | (k, v) :: t =>
    let r1 := add s k v
    let r2 := update r1.1 t
    (r2.1, r1.2 || r2.2)

/-- `MaskSet.DifferenceUpdate` / `Difference`. -/
def difference (s : MS) : MS → MS
  | [] => s
  | (k, v) :: t => difference (discard s k v) t

/-- `NewMaskSetFromRegisters`. -/
def ofRegs : List R → MS
  | [] => []
  | r :: rs => (add (ofRegs rs) r.id r.mask).1

/-- `MaskSet.OfKind`. -/
def ofKind (s : MS) (k : Nat) : MS := s.filter (fun p => idKind p.1 == k)

/-- Location membership: byte lane `lane` of register `id` is in the set. -/
def mem (s : MS) (id lane : Nat) : Bool := (get s id).testBit lane

/-- Canonical form for comparison with the implementation: merged per id,
zero masks dropped, sorted by id. -/
def keys (s : MS) : List Nat := (s.map (·.1)).eraseDups

def canon (s : MS) : List (Nat × Nat) :=
  let ks := (keys s).toArray.qsort (· < ·) |>.toList
  (ks.map (fun k => (k, get s k))).filter (fun p => p.2 != 0)

end Avo.MaskSet
