/-
Model of pass.EnsureBasePointerCalleeSaved (pass/reg.go), of the rule by which
the Go assembler decides to save and restore the frame pointer
(cmd/internal/obj/x86/obj6.go, preprocess: `bpsize`), and of the prologue /
epilogue the assembler emits around the function body.  Core Lean only.
-/
import AvoVerif.Model.Reg
namespace Avo.BP
open Avo.Reg

/-! ### Which registers are "the base pointer" -/

/-- `reg.ToPhysical(r)` followed by `p.Info() & reg.BasePointer != 0`: `r` is a
physical register object (one row of the table, identified by id and mask)
whose info carries the BasePointer bit.  A virtual register is not physical; a
pair that is no row of the table cannot occur as a register object. -/
def isBP (tbl : List RegRow) (r : R) : Bool :=
  !idIsVirtual r.id &&
  match tbl.find? (fun row => row.id == r.id && row.mask == r.mask) with
  | some row => row.info &&& infoBasePointer != 0
  | none => false

/-- The hardware notion, independent of avo's info bits: a physical
general-purpose register with hardware number 5 (BPL/BP/EBP/RBP). -/
def isBPHW (r : R) : Bool :=
  !idIsVirtual r.id && idKind r.id == kindGP && idIndex r.id == 5

/-- The scan of `EnsureBasePointerCalleeSaved`: some output register of some
instruction is a base-pointer register.  `outs`: `OutputRegisters()` per
instruction, after binding. -/
def clobbersBP (tbl : List RegRow) (outs : List (List R)) : Bool :=
  outs.any (fun rs => rs.any (isBP tbl))

def clobbersBPHW (outs : List (List R)) : Bool :=
  outs.any (fun rs => rs.any isBPHW)

/-- `operand.IsR32` + `As64` of `ZeroExtend32BitOutputs` on an output register:
a 4-byte general-purpose register becomes its 64-bit view (same id). -/
def zeroExtend32 (r : R) : R :=
  if idKind r.id == kindGP && specSize r.mask == 4 then ⟨r.id, S64⟩ else r

/-! ### EnsureBasePointerCalleeSaved -/

inductive BPErr where
  | noframeClobbersBP     -- "NOFRAME function clobbers base pointer register"
  deriving Repr, DecidableEq, Inhabited

def pointerSize : Int := 8

/-- `EnsureBasePointerCalleeSaved` on (NOFRAME attribute, `fn.LocalSize`,
result of the scan): error, or the resulting `LocalSize`
(`AllocLocal(PointerSize)` adds 8 to a zero local size). -/
def ensureBP (noframe : Bool) (localSize : Int) (clobbered : Bool) : Except BPErr Int :=
  if !clobbered then .ok localSize
  else if noframe then .error .noframeClobbersBP
  else if localSize == 0 then .ok (localSize + pointerSize)
  else .ok localSize

/-- The attribute bits this property looks at (values tied to attr/ztextflag.go
and to the installed textflag.h in Props/C15Tables). -/
def bitNOSPLIT : Nat := 4
def bitNOFRAME : Nat := 512

def attrNoSplit (a : Nat) : Bool := a &&& bitNOSPLIT != 0
def attrNoFrame (a : Nat) : Bool := a &&& bitNOFRAME != 0

/-! ### The assembler's rule -/

/-- Go's `int32(x)` conversion of a 64-bit integer: the low 32 bits read as a
two's-complement number.  The frame size of a TEXT line travels through the
assembler as `p.To.Offset` (int64) and is truncated at this point. -/
def wrap32 (x : Int) : Int := (x + 2147483648) % 4294967296 - 2147483648

/-- The largest frame the assembler handles without the truncation (or its own
`spadj` overflow check: frames within 16 bytes of 2^31 make it fail loudly)
changing the meaning. -/
def frameLimit : Int := 2147483648

/-- `autoffset := int32(p.To.Offset); if autoffset < 0 { autoffset = 0 }`
(cmd/internal/obj/x86/obj6.go, preprocess): the frame the assembler really
allocates for a declared `$frame`.  A declared frame of 2^31 … 2^32-1 reads as a
negative number and becomes 0; 2^32+8 becomes 8. -/
def autoffset (frame : Int) : Int := if wrap32 frame < 0 then 0 else wrap32 frame

/-! Basic facts about the truncation (used by Props/C15 and Props/C16). -/

/-- Below the int32 limit the assembler allocates the declared frame. -/
theorem autoffset_of_lt (frame : Int) (h0 : 0 ≤ frame) (h : frame < frameLimit) : autoffset frame = frame := by
  unfold frameLimit at h
  have hw : wrap32 frame = frame := by unfold wrap32; omega
  unfold autoffset
  rw [hw]; split <;> omega

/-- What the truncation does in general: the allocated frame is the declared
one reduced modulo 2^32, or nothing when that reads as a negative int32. -/
theorem autoffset_range (frame : Int) : 0 ≤ autoffset frame ∧ autoffset frame < frameLimit := by
  unfold autoffset wrap32 frameLimit
  split <;> omega

/-- The rule of the installed assembler (go1.21 and later):
`bpsize != 0` iff `!NoFrame && !(autoffset == 0 && !hasCall)`.  The NOSPLIT
flag plays no role any more; the parameter is kept so that both rules have the
same shape. -/
def asmSavesBP (frame : Int) (noframe _nosplit hasCall : Bool) : Bool :=
  !noframe && !(autoffset frame == 0 && !hasCall)

/-- The older rule, quoted verbatim in the comment of
`EnsureBasePointerCalleeSaved`: additionally frameless NOSPLIT functions are
left alone. -/
def asmSavesBPQuoted (frame : Int) (noframe nosplit hasCall : Bool) : Bool :=
  !noframe && !(autoffset frame == 0 && nosplit) && !(autoffset frame == 0 && !hasCall)

/-! ### What saving means: prologue and epilogue around an arbitrary body -/

/-- The part of the machine the frame pointer protocol touches. -/
structure M where
  bp : Int
  sp : Int
  mem : Int → Int      -- 8-byte stack slots by address

def M.store (s : M) (a v : Int) : M := { s with mem := fun x => if x = a then v else s.mem x }

/-- Execution of an assembled function from its entry (return address at `sp`)
to just before `RET`.  `saves`: `bpsize != 0`.  With it the assembler emits
`PUSHQ BP; MOVQ SP, BP; SUBQ $frame, SP; body; ADDQ $frame, SP; POPQ BP`,
without it `SUBQ $frame, SP; body; ADDQ $frame, SP`.  The body is an arbitrary
state transformer. -/
def runFn (saves : Bool) (frame : Int) (body : M → M) (s : M) : M :=
  if saves then
    let s1 := (s.store (s.sp - 8) s.bp)
    let s2 : M := { s1 with sp := s.sp - 8, bp := s.sp - 8 }
    let s3 : M := { s2 with sp := s2.sp - frame }
    let s4 := body s3
    let s5 : M := { s4 with sp := s4.sp + frame }
    { s5 with bp := s5.mem s5.sp, sp := s5.sp + 8 }
  else
    let s3 : M := { s with sp := s.sp - frame }
    let s4 := body s3
    { s4 with sp := s4.sp + frame }

/-- What is assumed of a body (C16 / well-formed stack use): it leaves with the
stack pointer it was entered with and writes no stack slot at or above the top
of its own frame. -/
def BodyOK (frame : Int) (body : M → M) : Prop :=
  ∀ s, (body s).sp = s.sp ∧ ∀ a, a ≥ s.sp + frame → (body s).mem a = s.mem a

/-! ### Rows of the measured tables (Oracle/AsmBP, regenerated on every run) -/

/-- One measured case: a function `MOVQ $sentinel, BP; [CALL leaf;] RET` declared
with `attrs` and `$frame`; `accepted`: the installed toolchain builds it;
`bpPreserved`: the caller's BP is the same after the call. -/
structure AsmBPRow where
  attrs : Nat
  frame : Int
  hasCall : Bool
  accepted : Bool
  bpPreserved : Bool
  deriving Repr, DecidableEq, Inhabited

/-- A write through assembler register name `name` of `size` bytes (view
`mask`): did the caller-visible BP change? -/
structure BPWriteRow where
  name : String
  size : Nat
  mask : Nat
  changed : Bool
  deriving Repr, DecidableEq, Inhabited

/-! ### The function as this pass sees it -/

structure Fn where
  attrs : Nat                 -- attr.Attribute (uint16)
  localSize : Int             -- fn.LocalSize
  outs : List (List R)        -- OutputRegisters() per instruction, after BindRegisters
  hasCall : Bool              -- contains a CALL (what the assembler looks for)
  deriving Inhabited

/-- The pass on a function: error, or the function with its new local size. -/
def Fn.ensure (tbl : List RegRow) (f : Fn) : Except BPErr Fn :=
  match ensureBP (attrNoFrame f.attrs) f.localSize (clobbersBP tbl f.outs) with
  | .error e => .error e
  | .ok ls => .ok { f with localSize := ls }

end Avo.BP
