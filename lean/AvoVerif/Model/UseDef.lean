/-
Specification of the registers an instruction reads and writes, from the
per-operand actions of its form (x86/optab.go `form.build`, ir.Instruction
`InputRegisters`/`OutputRegisters`, pass.ZeroExtend32BitOutputs).  Core Lean only.
-/
import AvoVerif.Model.Reg
namespace Avo.UseDef
open Avo.Reg

/-- An operand as far as register effects go. -/
inductive Opnd where
  /-- a register operand; `r32` = it is a 32-bit general purpose register -/
  | reg (r : R) (r32 : Bool)
  /-- a memory operand with its address registers (base, index) -/
  | mem (addr : List R)
  /-- immediate, relative offset or label -/
  | other
  deriving Repr, DecidableEq, Inhabited

/-- Operand of a built instruction with the action its form declares
(bit 0 = read, bit 1 = write). Implicit operands are ordinary entries. -/
structure AOp where
  action : Nat
  op : Opnd
  deriving Repr, Inhabited

def AOp.reads (a : AOp) : Bool := a.action &&& 1 == 1
def AOp.writes (a : AOp) : Bool := a.action &&& 2 == 2

def Opnd.regs : Opnd → List R
  | .reg r _ => [r]
  | .mem a => a
  | .other => []

/-- Registers read through operands with a read action, in operand order. -/
def readRegs (ops : List AOp) : List R :=
  ops.flatMap (fun a => if a.reads then a.op.regs else [])

/-- Address registers of written memory operands (computing the address reads them). -/
def writtenMemAddrRegs (ops : List AOp) : List R :=
  ops.flatMap (fun a => if a.writes then (match a.op with | .mem addr => addr | _ => []) else [])

/-- **Reads.** All registers of read operands — except that for a
self-cancelling form whose first two read registers are the same register, those
two (and only those) are not reads — plus the address registers of written
memory operands. -/
def specReads (cancelling : Bool) (ops : List AOp) : List R :=
  let rs := readRegs ops
  let rs' := match rs with
    | a :: b :: rest => if cancelling && a == b then rest else rs
    | _ => rs
  rs' ++ writtenMemAddrRegs ops

/-- 64-bit view of a register with the same identity. -/
def widen (r : R) (r32 : Bool) : R := if r32 then ⟨r.id, S64⟩ else r

/-- **Writes.** Register operands with a write action; a 32-bit general
purpose destination counts as the whole 64-bit register. -/
def specWrites (ops : List AOp) : List R :=
  ops.flatMap (fun a => if a.writes then (match a.op with | .reg r r32 => [widen r r32] | _ => []) else [])

end Avo.UseDef
