import AvoVerif.Model.Layout
/-
Model for C07, builder level: *histories* of calls on ONE `build.Context`
(build/context.go `Function`/`Signature`, build/pseudo.go `Param…/Load/Store/
Dereference`, the register `Collection` embedded in the Context), several
functions one after the other.  What each call appends to the instruction list
of the *current* function, which virtual register it hands out, and which
component it returns.  Core Lean only.

`Context.Dereference(ptr)` = a FRESH 64-bit virtual register `r`, `Load(ptr, r)`
(an instruction `MOVQ <address of the pointer>, r` appended to the CURRENT
function) and the component `ptr.Dereference(r)`.  Nothing survives from one
function to the next except the counter of virtual registers.

Virtual registers are named by the index of the call that produced them (the
harness names the implementation's registers the same way: by the call during
which a register was first seen), so the model does not depend on how avo
numbers them.
-/
namespace Avo.LayoutCtx
open Avo.Layout

/-- Register classes the histories use. -/
inductive RegCls
  | gp8 | gp16 | gp32 | gp64 | xmm
  deriving DecidableEq, Repr

def RegCls.isGP : RegCls → Bool
  | .xmm => false
  | _ => true

def RegCls.bytes : RegCls → Nat
  | .gp8 => 1 | .gp16 => 2 | .gp32 => 4 | .gp64 => 8 | .xmm => 16

/-- A register operand: physical (by name) or virtual (by the call that allocated it). -/
inductive Rg
  | phys (n : Name)
  | virt (id : Nat)
  deriving DecidableEq, Repr

inductive MBase
  | fp
  | phys (n : Name)
  | virt (id : Nat)
  deriving DecidableEq, Repr

/-- `operand.Mem` as emitted: symbol, displacement, base (never an index). -/
structure Mem where
  sym : Name
  disp : Int
  base : MBase
  deriving DecidableEq, Repr

inductive Arg
  | mem (m : Mem)
  | reg (r : Rg)
  deriving DecidableEq, Repr

/-- One node of a function body: an instruction, or a label (`op = labelOp`, no operands). -/
structure Instr where
  op : Name
  args : List Arg
  deriving DecidableEq, Repr

def labelOp : Name := ['#']
def movqOp : Name := ['M', 'O', 'V', 'Q']

/-- The load `Dereference` emits. -/
def ptrLoad (p : Mem) (v : Nat) : Instr := ⟨movqOp, [.mem p, .reg (.virt v)]⟩

/-- A component held by the generator: the gotypes component and, when it came
out of `Context.Dereference`, the virtual register it is based on (the `base`
field of `c.addr` is then a placeholder). -/
structure CComp where
  c : Comp
  vbase : Option Nat

/-- Which component a call talks about: `Param/Return(sel)` + navigation, or a
component returned by an earlier `Context.Dereference` (call number `h`) of the
current function + navigation. -/
inductive CRef
  | root (isRet : Bool) (sel : Sel) (path : List Step)
  | handle (h : Nat) (path : List Step)

inductive RegRef
  | phys (n : Name) (cls : RegCls)
  | alloc (k : Nat)            -- the register returned by the allocation call number k

inductive Op
  | func (name : Name) (s : Sig)          -- Function(name); Signature(s)
  | alloc (cls : RegCls)                  -- GP8()/GP16()/GP32()/GP64()/XMM()
  | deref (c : CRef)                      -- Context.Dereference
  | load (c : CRef) (r : RegRef)          -- Context.Load
  | store (r : RegRef) (c : CRef)         -- Context.Store
  | other (op : Name) (rs : List RegRef)  -- any instruction on registers (ADDQ, …)
  | label                                 -- Label: a possible jump target

structure Fn where
  name : Name
  sig : Sig
  body : List Instr

structure St where
  done : List Fn                   -- finished functions, in file order
  cur : Option Fn                  -- the active function
  n : Nat                          -- calls so far = name of the next virtual register
  allocs : List (Nat × RegCls)     -- registers handed out by allocation calls
  handles : List (Nat × CComp)     -- components returned by Dereference in the current straight-line segment
  errs : List Nat                  -- calls that recorded an error

def St.init : St := ⟨[], none, 0, [], [], []⟩

/-- The functions of the file, in order. -/
def St.fns (st : St) : List Fn := st.done ++ st.cur.toList

/-- The part of build/zmov.go the histories reach: integer, boolean and pointer
components with a general-purpose register of the component's size, floats with
XMM.  (Which MOV avo selects in general is C08's subject.) -/
def movSel (b : Basic) (cls : RegCls) : Option Name :=
  match b with
  | .float32 => if cls = .xmm then some ['M', 'O', 'V', 'S', 'S'] else none
  | .float64 => if cls = .xmm then some ['M', 'O', 'V', 'S', 'D'] else none
  | .complex64 | .complex128 | .string | .unsafePointer => none
  | _ =>
    if cls.isGP && cls.bytes == b.size then
      (match cls with
       | .gp8 => some ['M', 'O', 'V', 'B']
       | .gp16 => some ['M', 'O', 'V', 'W']
       | .gp32 => some ['M', 'O', 'V', 'L']
       | _ => some movqOp)
    else none

def lookupH : List (Nat × CComp) → Nat → Option CComp
  | [], _ => none
  | (k, c) :: r, h => if k = h then some c else lookupH r h

def lookupA : List (Nat × RegCls) → Nat → Option RegCls
  | [], _ => none
  | (k, c) :: r, h => if k = h then some c else lookupA r h

/-- Evaluate a component reference in the signature of the current function. -/
def evalRef (s : Sig) (hs : List (Nat × CComp)) : CRef → Except Err CComp
  | .root isRet sel path =>
    match (s.tuple isRet).select sel with
    | .error e => .error e
    | .ok c =>
      match navigate c path with
      | .error e => .error e
      | .ok c' => .ok ⟨c', none⟩
  | .handle h path =>
    match lookupH hs h with
    | none => .error .unknownVar
    | some cc =>
      match navigate cc.c path with
      | .error e => .error e
      | .ok c' => .ok ⟨c', if path.any Step.isDeref then none else cc.vbase⟩

/-- The memory operand of a resolved component. -/
def memOf (vbase : Option Nat) (a : Addr) : Mem :=
  ⟨a.sym, a.disp,
    match a.base with
    | .fp => .fp
    | .reg r =>
      match vbase with
      | some v => .virt v
      | none => .phys r⟩

def regOf (allocs : List (Nat × RegCls)) : RegRef → Option (Rg × RegCls)
  | .phys n cls => some (.phys n, cls)
  | .alloc k => (lookupA allocs k).map (fun cls => (.virt k, cls))

def regsOf (allocs : List (Nat × RegCls)) : List RegRef → Option (List Rg)
  | [] => some []
  | r :: rs =>
    match regOf allocs r, regsOf allocs rs with
    | some (x, _), some xs => some (x :: xs)
    | _, _ => none

def Fn.push (f : Fn) (ins : Instr) : Fn := { f with body := f.body ++ [ins] }

/-- Count the call, optionally recording an error. -/
def St.tick (st : St) (err : Bool) : St :=
  { st with n := st.n + 1, errs := if err then st.errs ++ [st.n] else st.errs }

/-- The mov of `Load`/`Store` for a component reference and a register:
the instruction, or `none` for an error. -/
def movInstr (f : Fn) (st : St) (c : CRef) (r : RegRef) (isLoad : Bool) : Option Instr :=
  match evalRef f.sig st.handles c, regOf st.allocs r with
  | .ok cc, some (rg, cls) =>
    match cc.c.resolve with
    | .ok (a, b) =>
      match movSel b cls with
      | some opc =>
        let m := Arg.mem (memOf cc.vbase a)
        some ⟨opc, if isLoad then [m, .reg rg] else [.reg rg, m]⟩
      | none => none
    | .error _ => none
  | _, _ => none

/-- What `Dereference` does in function `f`: the load it emits (if any) and the
component it returns (if it is not an erroneous one). -/
def derefParts (f : Fn) (st : St) (c : CRef) : Option Instr × Option CComp :=
  match evalRef f.sig st.handles c with
  | .error _ => (none, none)
  | .ok cc =>
    let ld := match cc.c.resolve with
      | .ok (a, b) =>
        (match movSel b .gp64 with
         | some opc => some (⟨opc, [.mem (memOf cc.vbase a), .reg (.virt st.n)]⟩ : Instr)
         | none => none)
      | .error _ => none
    let h := match cc.c.step (.deref []) with
      | .ok c2 => some (⟨c2, some st.n⟩ : CComp)
      | .error _ => none
    (ld, h)

def step (st : St) : Op → St
  | .func name s =>
    { (st.tick false) with done := st.fns, cur := some ⟨name, s, []⟩, handles := [] }
  | .alloc cls =>
    { (st.tick false) with allocs := (st.n, cls) :: st.allocs }
  | .label =>
    match st.cur with
    | none => st.tick true
    | some f => { (st.tick false) with cur := some (f.push ⟨labelOp, []⟩), handles := [] }
  | .other op rs =>
    match st.cur, regsOf st.allocs rs with
    | some f, some xs =>
      if op = labelOp then st.tick true
      else { (st.tick false) with cur := some (f.push ⟨op, xs.map Arg.reg⟩) }
    | _, _ => st.tick true
  | .load c r =>
    match st.cur with
    | none => st.tick true
    | some f =>
      match movInstr f st c r true with
      | some ins => { (st.tick false) with cur := some (f.push ins) }
      | none => st.tick true
  | .store r c =>
    match st.cur with
    | none => st.tick true
    | some f =>
      match movInstr f st c r false with
      | some ins => { (st.tick false) with cur := some (f.push ins) }
      | none => st.tick true
  | .deref c =>
    match st.cur with
    | none => st.tick true
    | some f =>
      match derefParts f st c with
      | (ld, h) =>
        let f' := match ld with
          | some ins => f.push ins
          | none => f
        let hs := match h with
          | some cc => (st.n, cc) :: st.handles
          | none => st.handles
        { (st.tick ld.isNone) with cur := some f', handles := hs }

def run (ops : List Op) : St := ops.foldl step St.init

/-! ## The acceptor: a forward scan of one function body

`L` is the set of virtual registers that, at this point of the body, hold a
pointer loaded by a `MOVQ mem, v` of this body and not overwritten since, with
no label in between (a label may be reached by a jump that skipped the load). -/

def Instr.hasReg (ins : Instr) (v : Nat) : Bool := ins.args.contains (.reg (.virt v))

def Instr.clean (ins : Instr) (v : Nat) : Bool := !ins.hasReg v && ins.op != labelOp

/-- The register a pointer load writes. -/
def ptrLoadTarget (ins : Instr) : Option Nat :=
  if ins.op = movqOp then
    match ins.args with
    | [.mem _, .reg (.virt v)] => some v
    | _ => none
  else none

def stepLoaded (L : List Nat) (ins : Instr) : List Nat :=
  if ins.op = labelOp then []
  else
    match ptrLoadTarget ins with
    | some v => v :: L.filter (fun w => !ins.hasReg w)
    | none => L.filter (fun w => !ins.hasReg w)

def argOK (L : List Nat) (ins : Instr) : Arg → Bool
  | .mem ⟨_, _, .virt v⟩ => L.contains v && ins.clean v
  | _ => true

def usesOK (L : List Nat) (ins : Instr) : Bool := ins.args.all (argOK L ins)

def domOKb : List Nat → List Instr → Bool
  | _, [] => true
  | L, ins :: rest => usesOK L ins && domOKb (stepLoaded L ins) rest

def loadedAfter (L : List Nat) (body : List Instr) : List Nat := body.foldl stepLoaded L

/-! ## The acceptor for freshness: the register a call hands out (an allocation, or the one
`Dereference` loads the pointer into) is named by no instruction emitted before the call, in any
function of the file, and was not handed out by an earlier call. -/

def Arg.mentionsB (a : Arg) (v : Nat) : Bool :=
  match a with
  | .reg (.virt w) => w == v
  | .mem ⟨_, _, .virt w⟩ => w == v
  | _ => false

def Instr.mentionsB (ins : Instr) (v : Nat) : Bool := ins.args.any (fun a => a.mentionsB v)

/-- Nothing in the functions before number `fi`, nor in the first `pos` nodes of function `fi`, names `v`. -/
def freshB (fns : List (List Instr)) (fi pos v : Nat) : Bool :=
  (fns.take fi).all (fun b => b.all (fun ins => !ins.mentionsB v)) &&
    ((fns.getD fi []).take pos).all (fun ins => !ins.mentionsB v)

/-- One observation: call number, where the file stood (function, nodes so far), the register handed out. -/
structure Obs where
  call : Nat
  fi : Nat
  pos : Nat
  reg : Option Nat

def obsOKb (fns : List (List Instr)) : List Nat → List Obs → Bool
  | _, [] => true
  | seen, o :: rest =>
    match o.reg with
    | none => obsOKb fns seen rest
    | some v => !seen.contains v && freshB fns o.fi o.pos v && obsOKb fns (v :: seen) rest

end Avo.LayoutCtx
