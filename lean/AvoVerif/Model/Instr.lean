/-
Model of x86/optab.go (`form.match`, `form.build`, `build`), of the operand
class predicates of operand/checks.go, and of the generated forwarding layers
(`x86.X` constructor → `Context.X` → package-level `X`) with
`Context.addinstruction`.  Core Lean only.

Names (identifiers, mnemonics, documentation rows) travel as big-endian
base-256 natural numbers (`Avo.Name`): kernel evaluation over `String` is far
too slow for tables of this size, `Nat` arithmetic is GMP-accelerated.
-/
namespace Avo

namespace Name
/-!
An ASCII name `s` travels as the number `bytes(s)·2^40 + len(s)·2^32 + crc32(s)`
(big-endian bytes).  The low 32 bits are a checksum that carries no meaning: the
Lean kernel hashes numeric literals by their low bits and degrades
quadratically when thousands of literals share them (texts with a common
ending do).  Two names emitted by the translator are equal iff their encodings
are; computed names are compared through `key` (bytes and length).
-/
/-- the bytes of the name as a number -/
def val (n : Nat) : Nat := n >>> 40
/-- its length in bytes -/
def len (n : Nat) : Nat := (n >>> 32) % 256
/-- bytes and length, without the checksum: `val·256 + len` -/
def key (n : Nat) : Nat := n >>> 32
def kval (k : Nat) : Nat := k >>> 8
def klen (k : Nat) : Nat := k % 256
def mkKey (v l : Nat) : Nat := (v <<< 8) ||| l
/-- the length field is the number of base-256 digits of the value -/
def wfKey (k : Nat) : Bool :=
  if klen k = 0 then kval k == 0 else 256 ^ (klen k - 1) ≤ kval k && kval k < 256 ^ klen k
/-- concatenation on keys -/
def kcat (a b : Nat) : Nat := mkKey ((kval a <<< (8 * klen b)) ||| kval b) (klen a + klen b)
/-- join keys with a separator key -/
def kjoin (sep : Nat) : List Nat → Nat
  | [] => 0
  | x :: xs => xs.foldl (fun acc y => kcat (kcat acc sep) y) x

/-- bytes of a value, most significant first (driver / rendering only) -/
def toBytesAux : Nat → Nat → List Nat → List Nat
  | 0, _, acc => acc
  | fuel+1, n, acc => if n = 0 then acc else toBytesAux fuel (n / 256) (n % 256 :: acc)
def toBytes (v : Nat) : List Nat := toBytesAux v v []
def ofBytes (bs : List Nat) : Nat := bs.foldl (fun a b => a * 256 + b) 0
/-- the string of an encoded name (driver only) -/
def toStr (n : Nat) : String := String.ofList ((toBytes (val n)).map Char.ofNat)
/-- key of a string (driver only) -/
def keyOfStr (s : String) : Nat := mkKey (ofBytes (s.toList.map Char.toNat)) s.length
end Name

namespace Instr

/-! ## Operands -/

/-- A register value as the classifier sees it (`reg.Register`): kind, size in
bytes, identifier (bit 0 = virtual), byte-lane mask; `name` is carried only for
identity in the protocol (pseudo registers share id 0). -/
structure RegV where
  kind : Nat
  size : Nat
  id   : Nat
  mask : Nat
  name : Nat
  deriving DecidableEq, Repr, Inhabited

/-- Constant kinds of operand/zconst.go + const.go. -/
def tU8 := 0
def tU16 := 1
def tU32 := 2
def tU64 := 3
def tI8 := 4
def tI16 := 5
def tI32 := 6
def tI64 := 7
def tF32 := 8
def tF64 := 9
def tString := 10

inductive Operand where
  /-- `reg.Register` (physical or virtual) -/
  | reg (r : RegV)
  /-- `operand.Mem` (by value): Base and Index may be nil -/
  | mem (base index : Option RegV) (scale : Nat) (disp : Int) (sym : Nat)
  /-- a constant of kind `ty` (floats by bit pattern, strings by tag) -/
  | imm (ty : Nat) (val : Int)
  /-- `operand.Rel` (an int32) -/
  | rel (val : Int)
  /-- `operand.LabelRef` -/
  | label (name : Nat)
  /-- nil, or any other implementation of `operand.Op` (e.g. `*Mem`) -/
  | other (tag : Nat)
  deriving DecidableEq, Repr, Inhabited

def kindPseudo := 0
def kindGP := 1
def kindVector := 2
def kindOpmask := 3

/-- `operand.IsRegisterKind` -/
def isRegKind (k : Nat) : Operand → Bool
  | .reg r => r.kind == k
  | _ => false

/-- `operand.IsRegisterKindSize` -/
def isRegKindSize (k n : Nat) : Operand → Bool
  | .reg r => r.kind == k && r.size == n
  | _ => false

/-- `op == reg.X` for a physical register X with identifier `id` and mask `mask`
(the reg package defines exactly one value per (id, mask); virtual identifiers
are odd). -/
def isPhys (id mask : Nat) : Operand → Bool
  | .reg r => r.id == id && r.mask == mask
  | _ => false

def isImm (t : Nat) : Operand → Bool
  | .imm ty _ => ty == t
  | _ => false

/-- `operand.IsMReg` on a possibly-nil register -/
def isMReg : Option RegV → Bool
  | some r => r.kind == kindPseudo || r.kind == kindGP
  | none => false

/-- `operand.IsMSize` (the size argument is ignored by the implementation) -/
def isMSize : Operand → Bool
  | .mem b i _ _ _ => isMReg b && (i.isNone || isMReg i)
  | _ => false

/-- `operand.isvm` with index predicate "vector register of `n` bytes" -/
def isVM (n : Nat) : Operand → Bool
  | .mem b i _ _ _ =>
    (match b with | some r => r.kind == kindGP && r.size == 8 | none => false) &&
    (match i with | some r => r.kind == kindVector && r.size == n | none => false)
  | _ => false

-- identifiers and masks of the fixed registers (tied to Gen.Regs in Props/C06Tables)
def idAL := 256
def idCL := 65792
def idX0 := 512

/-- The 37 operand classes of the instruction database. -/
inductive OpClass where
  | c1 | c3 | al | ax | cl | eax | imm16 | imm2u | imm32 | imm64 | imm8 | k | m | m128 | m16 | m256 | m32
  | m512 | m64 | m8 | r16 | r32 | r64 | r8 | rax | rel32 | rel8 | vm32x | vm32y | vm32z | vm64x | vm64y
  | vm64z | xmm | xmm0 | ymm | zmm
  deriving DecidableEq, Repr, Inhabited

def OpClass.all : List OpClass := [.c1, .c3, .al, .ax, .cl, .eax, .imm16, .imm2u, .imm32, .imm64, .imm8, .k, .m,
  .m128, .m16, .m256, .m32, .m512, .m64, .m8, .r16, .r32, .r64, .r8, .rax, .rel32, .rel8, .vm32x, .vm32y,
  .vm32z, .vm64x, .vm64y, .vm64z, .xmm, .xmm0, .ymm, .zmm]

/-- name of the checker function in operand/checks.go -/
def OpClass.checker : OpClass → Nat
  | .c1 => 0x49733103d5c64552  -- Is1
  | .c3 => 0x497333033bc8247e  -- Is3
  | .al => 0x4973414c0407e76d5d  -- IsAL
  | .ax => 0x49734158041d3db920  -- IsAX
  | .cl => 0x4973434c0435d10fdf  -- IsCL
  | .eax => 0x49734541580510c82afe  -- IsEAX
  | .imm16 => 0x4973494d4d3136078c71a6db  -- IsIMM16
  | .imm2u => 0x4973494d4d32550773e7c5fa  -- IsIMM2U
  | .imm32 => 0x4973494d4d333207b92a0040  -- IsIMM32
  | .imm64 => 0x4973494d4d3634072d3e5130  -- IsIMM64
  | .imm8 => 0x4973494d4d3806d46ce0ea  -- IsIMM8
  | .k => 0x49734b036516dd70  -- IsK
  | .m => 0x49734d038c757845  -- IsM
  | .m128 => 0x49734d31323806ae4283b0  -- IsM128
  | .m16 => 0x49734d3136059bee4eef  -- IsM16
  | .m256 => 0x49734d3235360604fd8629  -- IsM256
  | .m32 => 0x49734d333205aeb5e874  -- IsM32
  | .m512 => 0x49734d3531320662b391b1  -- IsM512
  | .m64 => 0x49734d3634053aa1b904  -- IsM64
  | .m8 => 0x49734d3804fc3a9774  -- IsM8
  | .r16 => 0x4973523136058c94aaa2  -- IsR16
  | .r32 => 0x497352333205b9cf0c39  -- IsR32
  | .r64 => 0x4973523634052ddb5d49  -- IsR64
  | .r8 => 0x4973523804316099ea  -- IsR8
  | .rax => 0x49735241580509a19f0b  -- IsRAX
  | .rel32 => 0x497352454c3332076a6ce40b  -- IsREL32
  | .rel8 => 0x497352454c3806447c508d  -- IsREL8
  | .vm32x => 0x4973564d33325807b189fc4e  -- IsVM32X
  | .vm32y => 0x4973564d33325907c68eccd8  -- IsVM32Y
  | .vm32z => 0x4973564d33325a075f879d62  -- IsVM32Z
  | .vm64x => 0x4973564d36345807e1189923  -- IsVM64X
  | .vm64y => 0x4973564d36345907961fa9b5  -- IsVM64Y
  | .vm64z => 0x4973564d36345a070f16f80f  -- IsVM64Z
  | .xmm => 0x4973584d4d05c55eb13a  -- IsXMM
  | .xmm0 => 0x4973584d4d300632125822  -- IsXMM0
  | .ymm => 0x4973594d4d05c49cdb0d  -- IsYMM
  | .zmm => 0x49735a4d4d05c6da6554  -- IsZMM

/-- name of the class in the "Forms:" documentation rows (api.CheckerName:
checker = "Is" + upper-case of this) -/
def OpClass.doc : OpClass → Nat
  | .c1 => 0x310183dcefb7  -- 1
  | .c3 => 0x33016dd28e9b  -- 3
  | .al => 0x616c02793b656a  -- al
  | .ax => 0x61780263e1b117  -- ax
  | .cl => 0x636c024b0d07e8  -- cl
  | .eax => 0x6561780393657331  -- eax
  | .imm16 => 0x696d6d313605d2a407a7  -- imm16
  | .imm2u => 0x696d6d327505165c444e  -- imm2u
  | .imm32 => 0x696d6d333205e7ffa13c  -- imm32
  | .imm64 => 0x696d6d36340573ebf04c  -- imm64
  | .imm8 => 0x696d6d3804df349292  -- imm8
  | .k => 0x6b010862575d  -- k
  | .m => 0x6d01e101f268  -- m
  | .m128 => 0x6d3132380408d3938a  -- m128
  | .m16 => 0x6d313603b6a9134a  -- m16
  | .m256 => 0x6d32353604a26c9613  -- m256
  | .m32 => 0x6d33320383f2b5d1  -- m32
  | .m512 => 0x6d35313204c422818b  -- m512
  | .m64 => 0x6d36340317e6e4a1  -- m64
  | .m8 => 0x6d3802b988bf8b  -- m8
  | .r16 => 0x72313603a1d3f707  -- r16
  | .r32 => 0x723332039488519c  -- r32
  | .r64 => 0x72363403009c00ec  -- r64
  | .r8 => 0x72380274d2b115  -- r8
  | .rax => 0x726178038a0cc6c4  -- rax
  | .rel32 => 0x72656c33320534b94577  -- rel32
  | .rel8 => 0x72656c38044f2422f5  -- rel8
  | .vm32x => 0x766d33327805ec7f3b1a  -- vm32x
  | .vm32y => 0x766d333279059b780b8c  -- vm32y
  | .vm32z => 0x766d33327a0502715a36  -- vm32z
  | .vm64x => 0x766d36347805bcee5e77  -- vm64x
  | .vm64y => 0x766d36347905cbe96ee1  -- vm64y
  | .vm64z => 0x766d36347a0552e03f5b  -- vm64z
  | .xmm => 0x786d6d0346f3e8f5  -- xmm
  | .xmm0 => 0x786d6d3004394a2a5a  -- xmm0
  | .ymm => 0x796d6d03473182c2  -- ymm
  | .zmm => 0x7a6d6d0345773c9b  -- zmm

def OpClass.ofChecker (n : Nat) : Option OpClass := OpClass.all.find? (fun c => c.checker == n)
def OpClass.ofDoc (n : Nat) : Option OpClass := OpClass.all.find? (fun c => c.doc == n)

/-- The predicates of operand/checks.go, one per class. -/
def OpClass.holds : OpClass → Operand → Bool
  | .c1, op => (match op with | .imm ty v => ty == tU8 && v == 1 | _ => false)
  | .c3, op => (match op with | .imm ty v => ty == tU8 && v == 3 | _ => false)
  | .imm2u, op => (match op with | .imm ty v => ty == tU8 && v < 4 | _ => false)
  | .imm8, op => isImm tU8 op || isImm tI8 op
  | .imm16, op => isImm tU16 op || isImm tI16 op
  | .imm32, op => isImm tU32 op || isImm tI32 op
  | .imm64, op => isImm tU64 op || isImm tI64 op
  | .al, op => isPhys idAL 1 op
  | .cl, op => isPhys idCL 1 op
  | .ax, op => isPhys idAL 3 op
  | .eax, op => isPhys idAL 7 op
  | .rax, op => isPhys idAL 15 op
  | .r8, op => isRegKindSize kindGP 1 op
  | .r16, op => isRegKindSize kindGP 2 op
  | .r32, op => isRegKindSize kindGP 4 op
  | .r64, op => isRegKindSize kindGP 8 op
  | .xmm0, op => isPhys idX0 31 op
  | .xmm, op => isRegKindSize kindVector 16 op
  | .ymm, op => isRegKindSize kindVector 32 op
  | .zmm, op => isRegKindSize kindVector 64 op
  | .k, op => isRegKind kindOpmask op
  | .m, op => isMSize op || isMSize op || isMSize op
  | .m8, op => isMSize op
  | .m16, op => isMSize op
  | .m32, op => isMSize op
  | .m64, op => isMSize op
  | .m128, op => isMSize op
  | .m256, op => isMSize op
  | .m512, op => isMSize op
  | .vm32x, op => isVM 16 op
  | .vm64x, op => isVM 16 op
  | .vm32y, op => isVM 32 op
  | .vm64y, op => isVM 32 op
  | .vm32z, op => isVM 64 op
  | .vm64z, op => isVM 64 op
  | .rel8, op => (match op with | .rel v => decide (-128 ≤ v ∧ v ≤ 127) | _ => false)
  | .rel32, op => (match op with | .rel _ => true | .label _ => true | _ => false)

/-! ## Tables -/

structure FOp where
  ty   : Nat    -- oprndtype code, or implreg code when `impl`
  impl : Bool
  act  : Nat    -- actionN=0, R=1, W=2, RW=3
  deriving DecidableEq, Repr, Inhabited

structure Form where
  opc   : Nat
  cls   : Nat
  feat  : Nat
  isa   : Nat
  arity : Nat
  ops   : List FOp
  deriving DecidableEq, Repr, Inhabited

/-- The small tables of zoptab.go (regenerated into `Gen.FormsMeta`). -/
structure Meta where
  /-- per oprndtype code-1: (const identifier, checker function name) -/
  oprndTypes : List (Nat × Nat)
  /-- per implreg code-1: (const identifier, reg variable name, register value) -/
  implRegs : List (Nat × Nat × RegV)
  /-- suffix const identifiers (code-1) -/
  sffx : List Nat
  /-- `sffxsstringsmap`: array value ↦ strings (encoded) -/
  sffxsStrings : List ((Nat × Nat) × List Nat)
  /-- suffix class identifiers and `sffxsclssuffixessettable` -/
  sffxsCls : List Nat
  sffxsClsSets : List (List (Nat × Nat))
  /-- isas identifiers and `isaslisttable` -/
  isas : List Nat
  isasLists : List (List Nat)
  /-- opcode const identifiers, `opcstringtable`, `opcformstable` ranges -/
  opcs : List Nat
  opcStrings : List Nat
  opcRanges : List (Nat × Nat)
  maxOperands : Nat
  maxSuffixes : Nat
  /-- feature bits (optab.go): terminal, branch, conditional, cancelling -/
  featTerminal : Nat
  featBranch : Nat
  featConditional : Nat
  featCancelling : Nat
  actionR : Nat
  actionW : Nat
  deriving Repr, Inhabited

abbrev Sfx := Nat × Nat

/-- `oprndtype(t).Match(op)`: the generated switch maps the code to a checker. -/
def matchCode (M : Meta) (t : Nat) (op : Operand) : Bool :=
  match t with
  | 0 => false
  | t+1 =>
    match M.oprndTypes[t]? with
    | none => false
    | some (_, chk) =>
      match OpClass.ofChecker chk with
      | some c => c.holds op
      | none => false

/-- `accept := f.SuffixesClass.SuffixesSet(); accept[suffixes]` -/
def admits (M : Meta) (cls : Nat) (s : Sfx) : Bool :=
  match cls with
  | 0 => false
  | c+1 => (M.sffxsClsSets.getD c []).contains s

/-- the operand loop of `form.match`: operand i is tested against
`oprndtype(f.Operands[i].Type)`; a missing entry is type 0 which matches nothing -/
def matchAll (M : Meta) : List FOp → List Operand → Bool
  | _, [] => true
  | [], _ :: _ => false
  | s :: ss, o :: os => matchCode M s.ty o && matchAll M ss os

def Form.matches (M : Meta) (f : Form) (s : Sfx) (ops : List Operand) : Bool :=
  admits M f.cls s && (ops.length == f.arity) && matchAll M f.ops ops

/-- `implreg(t).Register()`; `none` models the panic of the default case -/
def implReg (M : Meta) (t : Nat) : Option RegV :=
  match t with
  | 0 => none
  | t+1 => (M.implRegs[t]?).map (·.2.2)

structure Instr where
  opc : Nat
  sfx : Sfx
  operands : List Operand
  inputs : List Operand
  outputs : List Operand
  isTerminal : Bool
  isBranch : Bool
  isConditional : Bool
  cancelling : Bool
  isa : Nat
  /-- the implementation would panic (bad implicit code / operands exhausted) -/
  panics : Bool
  deriving DecidableEq, Repr, Inhabited

def hasBit (x b : Nat) : Bool := (x &&& b) != 0

/-- the input/output loop of `form.build` -/
def io (M : Meta) : List FOp → List Operand → (List Operand × List Operand × Bool)
  | [], _ => ([], [], false)
  | s :: ss, ops =>
    if s.ty == 0 then ([], [], false) else
    let pick : Option (Operand × List Operand) :=
      if s.impl then (implReg M s.ty).map (fun r => (Operand.reg r, ops))
      else match ops with
        | [] => none
        | o :: os => some (o, os)
    match pick with
    | none => ([], [], true)
    | some (op, rest) =>
      let (i, o, p) := io M ss rest
      (if hasBit s.act M.actionR then op :: i else i, if hasBit s.act M.actionW then op :: o else o, p)

def Form.instr (M : Meta) (f : Form) (s : Sfx) (ops : List Operand) : Instr :=
  let r := io M f.ops ops
  { opc := f.opc, sfx := s, operands := ops, inputs := r.1, outputs := r.2.1,
    isTerminal := hasBit f.feat M.featTerminal, isBranch := hasBit f.feat M.featBranch,
    isConditional := hasBit f.feat M.featConditional, cancelling := hasBit f.feat M.featCancelling,
    isa := f.isa, panics := r.2.2 }

/-- `x86.build`: the first matching form builds the instruction. -/
def build (M : Meta) (forms : List Form) (s : Sfx) (ops : List Operand) : Option Instr :=
  match forms.find? (fun f => f.matches M s ops) with
  | some f => some (f.instr M s ops)
  | none => none

/-! ## The Context layer -/

/-- What the property observes of a `build.Context`: the nodes of the active
function and the number of recorded errors. -/
structure Ctx where
  nodes : List Instr
  errs : Nat
  deriving Repr, Inhabited

/-- `Context.addinstruction(i, err)` with an active function:
`if err == nil { c.Instruction(i) } else { c.adderror(err) }` -/
def addinstruction (c : Ctx) : Option Instr → Ctx
  | some i => { c with nodes := c.nodes ++ [i] }
  | none => { c with errs := c.errs + 1 }

/-! ## Shapes of the generated wrappers (rows of `Gen.Ctors`) -/

/-- One x86 constructor of zctors.go as the translator found it. -/
structure CtorRow where
  name : Nat
  params : List Nat      -- parameter names in declaration order
  variadic : Bool        -- single parameter `ops ...operand.Op`
  callee : Nat           -- function called by the return statement ("build")
  opcConst : Nat         -- identifier X in `X.Forms()`
  formsSel : Nat         -- the method selected on it ("Forms")
  sfxType : Nat          -- type of the suffix literal ("sffxs")
  sfxConsts : List Nat   -- identifiers in the suffix literal
  args : List Nat        -- identifiers of the slice literal `[]operand.Op{…}`, or [ident] when the slice itself is passed
  argsIsSlice : Bool     -- third argument is an identifier (the variadic parameter) rather than a literal
  doc : List (List Nat)  -- "Forms:" rows, each split at blanks into words (mnemonic first)
  deriving DecidableEq, Repr, Inhabited

/-- A Context method or a package-level function of build/zinstructions.go. -/
structure WrapRow where
  name : Nat
  params : List Nat
  variadic : Bool
  recv : Nat             -- receiver variable ("c") / global variable called ("ctx")
  via : Nat              -- method: "addinstruction"; global: 0
  pkg : Nat              -- method: "x86"; global: 0
  callee : Nat           -- x86.<callee> / ctx.<callee>
  args : List Nat
  spread : Bool          -- `ops...`
  doc : List (List Nat)
  deriving DecidableEq, Repr, Inhabited

def nBuild := 0x6275696c6405bda0f2db            -- build
def nForms := 0x466f726d73053cfe34f3            -- Forms
def nSffxs := 0x73666678730504ada137            -- sffxs
def nC := 0x630106b9df6f                    -- c
def nCtx := 0x63747803a05de997                -- ctx
def nAddinstruction := 0x616464696e737472756374696f6e0e354aa09d  -- addinstruction
def nX86 := 0x783836037d86c998                -- x86
def nUnderscore := 0x5f0129d6a3e8                    -- _
def nDot := 0x2e010ed4e242                    -- .
def nSpace := 0x2001e96ccf45                    -- (space)

/-- index of an identifier in an enum's identifier list, as its code -/
def codeOf (ids : List Nat) (id : Nat) : Nat :=
  match ids.idxOf? id with
  | some i => i + 1
  | none => 0

/-- the suffix array denoted by a literal `sffxs{a, b}` -/
def sfxOf (M : Meta) (consts : List Nat) : Option Sfx :=
  match consts with
  | [] => some (0, 0)
  | [a] => if codeOf M.sffx a == 0 then none else some (codeOf M.sffx a, 0)
  | [a, b] => if codeOf M.sffx a == 0 || codeOf M.sffx b == 0 then none else some (codeOf M.sffx a, codeOf M.sffx b)
  | _ => none

/-- `s.Strings()` -/
def sfxStrings (M : Meta) (s : Sfx) : List Nat :=
  match M.sffxsStrings.find? (fun e => e.1 == s) with
  | some e => e.2
  | none => []

/-- `opc.String()` -/
def opcString (M : Meta) (o : Nat) : Nat :=
  match o with
  | 0 => 0
  | o+1 => M.opcStrings.getD o 0

/-- forms of an opcode: the range recorded in `opcformstable` (what `opc.Forms()` returns) -/
def formsOf (M : Meta) (forms : List Form) (o : Nat) : List Form :=
  match o with
  | 0 => []
  | o+1 =>
    match M.opcRanges[o]? with
    | some (lo, hi) => (forms.drop lo).take (hi - lo)
    | none => []

/-- class of an explicit operand specification -/
def specClass (M : Meta) (s : FOp) : Option OpClass :=
  match s.ty with
  | 0 => none
  | t+1 => match M.oprndTypes[t]? with
    | some (_, chk) => OpClass.ofChecker chk
    | none => none

def allSome {α} : List (Option α) → Option (List α)
  | [] => some []
  | none :: _ => none
  | some a :: xs => (allSome xs).map (a :: ·)

/-- explicit operand classes of a form (the first `arity` entries) -/
def Form.classList (M : Meta) (f : Form) : Option (List OpClass) :=
  allSome ((f.ops.take f.arity).map (specClass M))

/-- A documentation row (words), read back: mnemonic key and operand classes. -/
def parseDoc (row : List Nat) : Option (Nat × List OpClass) :=
  match row with
  | [] => none
  | m :: ts => (allSome (ts.map OpClass.ofDoc)).map (Name.key m, ·)

/-- an operand list matches a documented class tuple -/
def tupleMatches : List OpClass → List Operand → Bool
  | [], [] => true
  | c :: cs, o :: os => c.holds o && tupleMatches cs os
  | _, _ => false

/-- One opcode of the enum: const identifier, `String()`, `opcformstable` range. -/
structure OpcEntry where
  ident : Nat
  str : Nat
  lo : Nat
  hi : Nat
  deriving DecidableEq, Repr, Inhabited

def zipEntries : List Nat → List Nat → List (Nat × Nat) → List OpcEntry
  | i :: is, s :: ss, (lo, hi) :: rs => ⟨i, s, lo, hi⟩ :: zipEntries is ss rs
  | _, _, _ => []

def Meta.entries (M : Meta) : List OpcEntry := zipEntries M.opcs M.opcStrings M.opcRanges

/-- the operand words a form is documented with -/
def Form.docWords (M : Meta) (f : Form) : Option (List Nat) :=
  (f.classList M).map (fun cs => cs.map OpClass.doc)

/-- what the doc rows of a function with suffixes `s` must be, given the forms
of its opcode: one row of operand words per form whose suffix class admits `s` -/
def expectedRows (M : Meta) (s : Sfx) (grp : List Form) : List (Option (List Nat)) :=
  (grp.filter (fun f => admits M f.cls s)).map (fun f => f.docWords M)

/-- every row starts with the mnemonic `mn` (a key) and the operand words of
the rows are a permutation of the expected ones -/
def docOK (M : Meta) (mn : Nat) (s : Sfx) (grp : List Form) (doc : List (List Nat)) : Bool :=
  let e := expectedRows M s grp
  e.all Option.isSome &&
  doc.all (fun r => match r with | m :: _ => Name.key m == mn | [] => false) &&
  (doc.map (fun r => some r.tail)).isPerm e

/-- forwarding is the identity: a literal slice of the parameters in
declaration order, or the variadic slice itself -/
def forwardsInOrder (params : List Nat) (variadic : Bool) (args : List Nat) (whole : Bool) : Bool :=
  if variadic then whole && params.length == 1 && args == params
  else !whole && args == params && params.Nodup

/-- The judgement on one constructor row, relative to its opcode entry `e`
(the `k`-th opcode) and the forms `grp` of that opcode: the body is
`return build(<e.ident>.Forms(), sffxs{…}, []operand.Op{params in order})`, the
name is mnemonic_suffixes and the documentation lists exactly the admitted forms. -/
def ctorOK (M : Meta) (_k : Nat) (e : OpcEntry) (grp : List Form) (c : CtorRow) : Bool :=
  c.callee == nBuild && c.formsSel == nForms && c.sfxType == nSffxs && c.opcConst == e.ident &&
  forwardsInOrder c.params c.variadic c.args c.argsIsSlice &&
  match sfxOf M c.sfxConsts with
  | none => false
  | some s =>
    Name.key c.name == Name.kjoin (Name.key nUnderscore) (Name.key e.str :: (sfxStrings M s).map Name.key) &&
    docOK M (Name.kjoin (Name.key nDot) (Name.key e.str :: (sfxStrings M s).map Name.key)) s grp c.doc

/-- Streaming join of the opcode enum, the forms table and the constructor rows
(both grouped by opcode in enum order).  `k` is the code of the opcode at the
head of `es`, `pos` the number of form rows consumed so far. -/
def ctorPass (P : Nat → OpcEntry → List Form → CtorRow → Bool) :
    Nat → Nat → List OpcEntry → List Form → List CtorRow → Bool
  | _, _, [], fs, cs => fs.isEmpty && cs.isEmpty
  | k, pos, e :: es, fs, cs =>
    let grp := fs.takeWhile (fun f => f.opc == k)
    (e.lo == pos && e.hi == pos + grp.length) &&
    ((cs.takeWhile (fun c => c.opcConst == e.ident)).all (P k e grp) &&
    ctorPass P (k+1) (pos + grp.length) es (fs.dropWhile (fun f => f.opc == k))
      (cs.dropWhile (fun c => c.opcConst == e.ident)))

def WrapRow.methodOK (w : WrapRow) : Bool :=
  w.recv == nC && w.via == nAddinstruction && w.pkg == nX86 && w.callee == w.name &&
  forwardsInOrder w.params w.variadic w.args w.spread

def WrapRow.globalOK (w : WrapRow) : Bool :=
  w.recv == nCtx && w.via == 0 && w.pkg == 0 && w.callee == w.name &&
  forwardsInOrder w.params w.variadic w.args w.spread

/-- constructor, method and global rows pairwise: same name, same parameter
list, same documentation rows, recognised bodies -/
def layersOK : List CtorRow → List WrapRow → List WrapRow → Bool
  | [], [], [] => true
  | c :: cs, m :: ms, g :: gs =>
    (m.name == c.name && g.name == c.name && m.methodOK && g.globalOK &&
     m.params.length == c.params.length && g.params.length == c.params.length &&
     m.variadic == c.variadic && g.variadic == c.variadic &&
     m.doc == c.doc && g.doc == c.doc) && layersOK cs ms gs
  | _, _, _ => false

/-- well-formedness of a form row: the first `arity` entries are explicit
operands of a known class, the rest implicit registers of a known code -/
def Form.wf (M : Meta) (f : Form) : Bool :=
  f.arity ≤ f.ops.length && f.ops.length ≤ M.maxOperands &&
  (f.ops.take f.arity).all (fun s => !s.impl && (specClass M s).isSome && s.act ≤ 3) &&
  (f.ops.drop f.arity).all (fun s => s.impl && (implReg M s.ty).isSome && s.act ≤ 3) &&
  (1 ≤ f.cls && f.cls ≤ M.sffxsClsSets.length) && (1 ≤ f.isa && f.isa ≤ M.isasLists.length)

/-! ## Branch / terminal attributes from the mnemonic

What x86 control flow says about a mnemonic, independently of the feature
column of the form table (and of the generator that writes it): the `J…`
mnemonics are the jumps (`JMP` unconditional, every other one conditional —
`Jcc`, `JCXZL`, `JCXZQ`), `RET` leaves the function, nothing else is a branch
(`CALL` returns to the next instruction).  Mnemonics are given as keys
(`Name.key`). -/

/-- most significant byte of a key's value: the first character of the name -/
def firstByte (k : Nat) : Nat :=
  if Name.klen k = 0 then 0 else Name.kval k >>> (8 * (Name.klen k - 1))

def kJMP : Nat := Name.mkKey 0x4A4D50 3
def kRET : Nat := Name.mkKey 0x524554 3

/-- (terminal, branch, conditional) of the mnemonic with key `k` -/
def specFeat (k : Nat) : Bool × Bool × Bool :=
  let isJ := firstByte k == 0x4A
  (k == kRET, isJ, isJ && k != kJMP)

/-- the flags of an instruction are those of its mnemonic -/
def attrsOK (k : Nat) (terminal branch conditional : Bool) : Bool :=
  terminal == (specFeat k).1 && branch == (specFeat k).2.1 && conditional == (specFeat k).2.2

/-- a form row's feature column says what the mnemonic of its opcode says -/
def Form.featOK (M : Meta) (f : Form) : Bool :=
  attrsOK (Name.key (opcString M f.opc)) (hasBit f.feat M.featTerminal) (hasBit f.feat M.featBranch)
    (hasBit f.feat M.featConditional)

/-- the suffix lists a suffix class accepts, as `sffxscls.SuffixesSet` + `sffxs.Strings` give them -/
def sfxSetStrings (M : Meta) (cls : Nat) : List (List Nat) :=
  match cls with
  | 0 => []
  | c+1 => (M.sffxsClsSets.getD c []).map (sfxStrings M)

end Instr
end Avo
