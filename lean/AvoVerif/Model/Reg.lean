/-
Model of reg/types.go, reg/x86.go: register identifiers, specs (byte-lane
masks), physical register table rows, family lookup and view conversion.
Core Lean only.

Lanes: bit n of a mask stands for bytes {0},{1},{2,3},{4..7},{8..15},{16..31},
{32..63} of the underlying 64-bit / 512-bit register (n = 0..6).
-/
namespace Avo.Reg

/-- One row of the physical register table, as reported by the compiled
package (`reg.Families[*].Registers()`); regenerated into `Gen.Regs`. -/
structure RegRow where
  name : String
  kind : Nat
  idx  : Nat
  mask : Nat
  size : Nat
  info : Nat
  id   : Nat
  deriving Repr, DecidableEq, Inhabited

/-- `reg.newid`: `ID(v) | ID(kind)<<8 | ID(idx)<<16` on `uint32`
(`v : uint8`, `kind : uint8`, `idx : uint16`). -/
def newid (v kind idx : Nat) : Nat :=
  (v % 256) ||| ((kind % 256) <<< 8) ||| ((idx % 65536) <<< 16)

def idIsVirtual (id : Nat) : Bool := id &&& 1 == 1
/-- `ID.Kind`: `Kind(id >> 8)` truncated to `uint8`. -/
def idKind (id : Nat) : Nat := (id >>> 8) % 256
/-- `ID.Index`: `Index(id >> 16)` truncated to `uint16`. -/
def idIndex (id : Nat) : Nat := (id >>> 16) % 65536

/-- `Spec.Size`: `(x >> 1) + (x & 1)`. -/
def specSize (s : Nat) : Nat := (s >>> 1) + (s &&& 1)

def S0 := 0
def S8L := 1
def S8H := 2
def S16 := 3
def S32 := 7
def S64 := 15
def S128 := 31
def S256 := 63
def S512 := 127

def kindPseudo := 0
def kindGP := 1
def kindVector := 2
def kindOpmask := 3

def infoRestricted := 2
def infoBasePointer := 4

/-- `Family.Lookup(idx, spec)`: first register of the kind with that physical
index and mask. -/
def lookup (tbl : List RegRow) (kind idx spec : Nat) : Option RegRow :=
  tbl.find? (fun r => r.kind == kind && r.idx == idx && r.mask == spec)

/-- `reg.LookupID`. -/
def lookupID (tbl : List RegRow) (id spec : Nat) : Option RegRow :=
  if idIsVirtual id then none else lookup tbl (idKind id) (idIndex id) spec

/-- A register as the passes see it: identifier and mask. -/
structure R where
  id : Nat
  mask : Nat
  deriving Repr, DecidableEq, Inhabited, BEq

end Avo.Reg
