/-
Model of pass/alloc.go (graph-colouring Allocator) and of
pass.AllocateRegisters / BindRegisters / VerifyAllocation (pass/reg.go).
Core Lean only.
-/
import AvoVerif.Model.MaskSet
namespace Avo.Alloc
open Avo.Reg Avo.MaskSet

/-- What allocation looks at in an instruction. -/
structure AInstr where
  regs : List R        -- `Registers()`: registers of the explicit operands
  outs : List R        -- `OutputRegisters()`
  liveOut : MS
  /-- parallel to `regs`: is the register a direct operand (true) or an address register of a memory operand (false) -/
  direct : List Bool := []
  deriving Repr, Inhabited

inductive AErr where
  | impossible      -- "impossible register allocation"
  | failed          -- "failed to allocate registers"
  | noRegisters     -- "no allocatable registers" / unknown family
  | nonPhysical     -- VerifyAllocation: "non physical register found"
  | highByte        -- VerifyAllocation: high-byte register in an instruction requiring a REX prefix
  | missingAllocator -- an output register's kind has no allocator (the Go code dereferences nil)
  deriving Repr, DecidableEq, Inhabited

/-- Allocator state. `possible`: candidate physical ids per unallocated virtual. -/
structure AState where
  possible : List (Nat × List Nat)
  allocation : List (Nat × Nat)
  edges : List (Nat × Nat)
  deriving Repr, Inhabited

def lookupDefault (al : List (Nat × Nat)) (id : Nat) : Nat :=
  match al.find? (·.1 == id) with
  | some (_, p) => p
  | none => id

/-- Insertion sort of candidate registers: higher priority first, then smaller id. -/
def regBefore (prio : Nat → Int) (a b : Nat) : Bool :=
  prio a > prio b || (prio a == prio b && a < b)

def insertReg (prio : Nat → Int) (x : Nat) : List Nat → List Nat
  | [] => [x]
  | y :: ys => if regBefore prio x y then x :: y :: ys else y :: insertReg prio x ys

def sortRegs (prio : Nat → Int) (xs : List Nat) : List Nat := xs.foldr (insertReg prio) []

/-- `NewAllocatorForKind` + base pointer de-prioritisation: the sorted list of
allocatable physical ids of a kind. -/
def candidates (tbl : List RegRow) (kind : Nat) : List Nat :=
  let rows := tbl.filter (fun r => r.kind == kind)
  let ids := (rows.filter (fun r => r.info &&& infoRestricted == 0)).map (·.id) |>.eraseDups
  let bp := (rows.filter (fun r => r.info &&& infoBasePointer != 0)).map (·.id)
  sortRegs (fun id => if bp.contains id then -1 else 0) ids

/-- `Allocator.Add`. -/
def addVirt (cands : List Nat) (poss : List (Nat × List Nat)) (v : Nat) : List (Nat × List Nat) :=
  if !idIsVirtual v then poss
  else if poss.any (·.1 == v) then poss
  else poss ++ [(v, cands.filter (fun r => idKind r == idKind v))]

/-- `discardconflicting`. -/
def discardConf (poss : List (Nat × List Nat)) (v p : Nat) : List (Nat × List Nat) :=
  poss.map (fun e => if e.1 == v then (e.1, e.2.filter (· != p)) else e)

/-- `Allocator.update`: returns the remaining (virtual–virtual) edges and the pruned candidates. -/
def updateEdges (al : List (Nat × Nat)) : List (Nat × Nat) → List (Nat × List Nat) → List (Nat × Nat) →
    Except AErr (List (Nat × List Nat) × List (Nat × Nat))
  | [], poss, rem => .ok (poss, rem.reverse)
  | (x0, y0) :: es, poss, rem =>
    let x := lookupDefault al x0
    let y := lookupDefault al y0
    if idIsVirtual x && idIsVirtual y then updateEdges al es poss ((x0, y0) :: rem)
    else if !idIsVirtual x && !idIsVirtual y then
      (if x == y then .error .impossible else updateEdges al es poss rem)
    else if !idIsVirtual x then updateEdges al es (discardConf poss y x) rem
    else updateEdges al es (discardConf poss x y) rem

/-- `mostrestricted`: fewest candidates, ties to the smallest id. -/
def mostRestricted : List (Nat × List Nat) → Option (Nat × List Nat)
  | [] => none
  | e :: es =>
    match mostRestricted es with
    | none => some e
    | some b => if e.2.length < b.2.length || (e.2.length == b.2.length && e.1 < b.1) then some e else some b

/-- `Allocate` loop (fuel = number of virtuals + 1 suffices: each round allocates one). -/
def allocLoop : Nat → AState → Except AErr (List (Nat × Nat))
  | 0, _ => .error .failed
  | fuel + 1, st =>
    match updateEdges st.allocation st.edges st.possible [] with
    | .error e => .error e
    | .ok (poss, rem) =>
      match mostRestricted poss with
      | none => .ok st.allocation
      | some (v, ps) =>
        match ps with
        | [] => .error .failed
        | p :: _ =>
          allocLoop fuel { possible := poss.filter (·.1 != v), allocation := st.allocation ++ [(v, p)], edges := rem }

/-- Interference edges contributed by one output register `d` of an instruction:
`out := LiveOut.OfKind(kind d); out.DiscardRegister(d)`; an edge to every id of `out`
whose mask overlaps `d`'s. -/
def edgesOf (d : R) (liveOut : MS) : List (Nat × Nat) :=
  let out := discard (ofKind liveOut (idKind d.id)) d.id d.mask
  out.filterMap (fun p => if d.mask &&& MaskSet.get out p.1 != 0 then some (d.id, p.1) else none)

/-- Kinds that get an allocator: those of the operand registers and of the
(possibly implicit) output registers, which take part in interferences. -/
def kindsOf (is : List AInstr) : List Nat :=
  (is.flatMap (fun i => (i.regs ++ i.outs).map (fun r => idKind r.id))).eraseDups

/-- Build the allocator of one kind and run it. -/
def allocKind (tbl : List RegRow) (is : List AInstr) (kind : Nat) : Except AErr (List (Nat × Nat)) :=
  let cands := candidates tbl kind
  if cands.isEmpty then .error .noRegisters else
  let regsK := (is.flatMap (·.regs)).filter (fun r => idKind r.id == kind)
  let poss0 := regsK.foldl (fun p r => addVirt cands p r.id) []
  let edges := is.flatMap (fun i => (i.outs.filter (fun d => idKind d.id == kind)).flatMap (fun d => edgesOf d i.liveOut))
  let poss := edges.foldl (fun p e => addVirt cands (addVirt cands p e.1) e.2) poss0
  allocLoop (poss.length + 1) { possible := poss, allocation := [], edges := edges }

/-- `AllocateRegisters`. -/
def allocate (tbl : List RegRow) (is : List AInstr) : Except AErr (List (Nat × Nat)) :=
  let kinds := kindsOf is
  kinds.foldl (fun acc k => match acc with
    | .error e => .error e
    | .ok al => match allocKind tbl is k with
      | .error e => .error e
      | .ok a => .ok (al ++ a)) (.ok [])

/-- `BindRegisters` on one register. -/
def bindReg (tbl : List RegRow) (al : List (Nat × Nat)) (r : R) : Option R :=
  if !idIsVirtual r.id then some r
  else match al.find? (·.1 == r.id) with
    | none => none
    | some (_, p) => (lookupID tbl p r.mask).map (fun row => ⟨row.id, row.mask⟩)

/-- `BindRegisters` + `VerifyAllocation` over all operand registers. -/
def verifyBound (tbl : List RegRow) (al : List (Nat × Nat)) (is : List AInstr) : Bool :=
  is.all (fun i => i.regs.all (fun r => (bindReg tbl al r).isSome))

/-- register needs a REX prefix to be encoded (GP index ≥ 8, or the low byte of SP/BP/SI/DI) -/
def needsRex (r : R) : Bool :=
  idKind r.id == kindGP && (idIndex r.id ≥ 8 || (r.mask == S8L && idIndex r.id ≥ 4))

def isHighByte (r : R) : Bool := idKind r.id == kindGP && r.mask == S8H

/-- A high-byte register (AH/CH/DH/BH) cannot be encoded in an instruction that
needs a REX prefix: another GP register with index ≥ 8, the low byte of
SP/BP/SI/DI, or a 64-bit direct register operand (REX.W). `rs`: bound registers
with their role (direct operand / address register). -/
def unencodable (rs : List (R × Bool)) : Bool :=
  rs.any (fun (b, direct) => direct && isHighByte b) &&
  rs.any (fun (b, direct) => needsRex b || (direct && idKind b.id == kindGP && b.mask == S64))

/-- `VerifyAllocation`'s encodability rule on the bound instruction. -/
def verifyEncodable (tbl : List RegRow) (al : List (Nat × Nat)) (is : List AInstr) : Bool :=
  is.all (fun i =>
    let bound := (i.regs.zip i.direct).filterMap (fun (r, d) => (bindReg tbl al r).map (·, d))
    !unencodable bound)

end Avo.Alloc
