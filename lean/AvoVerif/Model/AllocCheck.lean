/-
The executable acceptor for register allocation (C01/C03): the hypotheses of
the preservation theorem evaluated on concrete data — the implementation's own
use/def sets, CFG, live sets and allocation.  Core Lean only.
-/
import AvoVerif.Model.MaskSet
import AvoVerif.Model.Alloc
namespace Avo.AllocCheck
open Avo.Reg Avo.MaskSet Avo.Alloc

structure CInstr where
  uses : List R
  defs : List R
  succ : List (Option Nat)
  liveIn : MS
  liveOut : MS
  deriving Repr, Inhabited

abbrev CProg := Array CInstr

/-- every lane of `a` is in `b` -/
def subsetMS (a b : MS) : Bool := a.all (fun p => get b p.1 &&& p.2 == p.2)

def liveInAt (P : CProg) (n : Nat) : MS := (P.getD n default).liveIn

/-- in ⊇ use ∪ (out ∖ def) and out ⊇ in(succ), successors inside the function. -/
def checkPostFixAt (P : CProg) (c : CInstr) : Bool :=
  subsetMS (ofRegs c.uses) c.liveIn &&
  subsetMS (difference c.liveOut (ofRegs c.defs)) c.liveIn &&
  c.succ.all (fun s => match s with
    | none => true
    | some s => s < P.size && subsetMS (liveInAt P s) c.liveOut)

def checkPostFix (P : CProg) : Bool := P.toList.all (checkPostFixAt P)

/-- No definition lands on a *different* register's live-out bytes that share its storage. -/
def checkValidAt (A : List (Nat × Nat)) (c : CInstr) : Bool :=
  c.defs.all (fun d => c.liveOut.all (fun p =>
    p.1 == d.id || lookupDefault A p.1 != lookupDefault A d.id || d.mask &&& p.2 == 0))

def checkValid (P : CProg) (A : List (Nat × Nat)) : Bool := P.toList.all (checkValidAt A)

/-- "Reads only bytes it has written": no virtual register byte is live at entry. -/
def checkEntry (P : CProg) : Bool := (liveInAt P 0).all (fun p => !idIsVirtual p.1 || p.2 == 0)

/-- Allocation maps virtual ids to physical ids of the same kind. -/
def checkAllocShape (A : List (Nat × Nat)) : Bool :=
  A.all (fun p => idIsVirtual p.1 && !idIsVirtual p.2 && idKind p.1 == idKind p.2)

/-! ### `accept-regs`: the registers an instruction mentions -/

/-- What `accept-regs` carries for one instruction. `own` is the harness's own traversal of the operand values
(register operands; base and index of memory operands — `false` marks an address register); `impl` is what
`Instruction.Registers()` answered and `uses` what `InputRegisters()` answered. -/
structure RInstr where
  own : List (R × Bool)
  impl : List R
  uses : List R
  deriving Repr, Inhabited

def hasReg (l : List R) (r : R) : Bool := l.any (fun x => x.id == r.id && x.mask == r.mask)

/-- every lane of `r` is in `s` -/
def coversReg (s : MS) (r : R) : Bool := get s r.id &&& r.mask == r.mask

/-- The allocator and the verifier see exactly the registers of the operands (as a set: order and repetitions are
not pinned by the property), and every address register of a memory operand is declared as read. -/
def checkRegsAt (c : RInstr) : Bool :=
  let own := c.own.map (·.1)
  own.all (hasReg c.impl) && c.impl.all (hasReg own) &&
  c.own.all (fun p => p.2 || coversReg (ofRegs c.uses) p.1)

/-! ### `accept-bind`: one (original register, register found in its place after BindRegisters) pair -/

/-- The stack pointer or K0 by the HARDWARE numbering carried in the id (general-purpose index 4, opmask index 0) —
independent of which rows of the register file carry the `Restricted` flag (that the numbering is the hardware's is
C20's subject). -/
def isSPorK0 (id : Nat) : Bool :=
  (idKind id == kindGP && idIndex id == 4) || (idKind id == kindOpmask && idIndex id == 0)

/-- `none` = accepted; `some reason` otherwise. -/
def checkBindOne (tbl : List RegRow) (al : List (Nat × Nat)) (o b : R) : Option String :=
  if idIsVirtual b.id then some s!"virtual-remains {b.id}"
  else if !idIsVirtual o.id then (if o.id == b.id && o.mask == b.mask then none else some s!"physical-changed {o.id}")
  else match al.find? (·.1 == o.id) with
    | none => some s!"unallocated {o.id}"
    | some (_, p) =>
      if b.id != p then some s!"inconsistent {o.id}"
      else if b.mask != o.mask then some s!"width-changed {o.id}"
      else if idKind p != idKind o.id then some s!"class-changed {o.id}"
      else match lookupID tbl p o.mask with
        | none => some s!"no-such-view {o.id}"
        | some row =>
          if row.id != p then some s!"not-a-register-of-the-file {o.id}"
          else if row.info &&& infoRestricted != 0 then some s!"restricted {o.id}"
          else if isSPorK0 p then some s!"stack-pointer-or-k0 {o.id}"
          else if o.mask == S8H && idIndex p ≥ 4 then some s!"high-byte-on-bad-register {o.id}"
          else none

def checkBind (tbl : List RegRow) (al : List (Nat × Nat)) (pairs : List (R × R)) : Option String :=
  pairs.findSome? (fun p => checkBindOne tbl al p.1 p.2)

/-! ### `accept-file`: a whole file through the entry point `pass.Compile` -/

/-- What the per-function route (the real allocation passes on an identical copy of ONE function) said. -/
inductive FnOutcome where
  | ok        -- an assignment was found, bound and verified
  | err       -- no valid assignment was found (allocation / binding / verification reported an error)
  | unknown   -- the function did not get as far as allocation on that route: not judged here
  deriving Repr, DecidableEq, Inhabited

/-- `none` = accepted; `some j` = `Compile` reported success although function `j` of the file has no valid
assignment. (An error of `Compile` is always acceptable to the property.) -/
def checkFile (perFn : List FnOutcome) (compiled : Bool) : Option Nat :=
  if compiled then perFn.findIdx? (· == .err) else none

/-! ### `accept-print`: the printed assembly of a successfully compiled file -/

/-- how `reg.virtual.Asm()` starts: `<virtual:idx:kind:size>` -/
def virtualMark : List Char := "<virtual".toList

def hasSub (p : List Char) : List Char → Bool
  | [] => p.isEmpty
  | c :: cs => p.isPrefixOf (c :: cs) || hasSub p cs

/-- the printed text mentions no virtual register -/
def noVirtualText (s : List Char) : Bool := !hasSub virtualMark s

end Avo.AllocCheck
