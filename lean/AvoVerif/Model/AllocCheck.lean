/-
The executable acceptor for register allocation (C01/C03): the hypotheses of
the preservation theorem evaluated on concrete data — the implementation's own
use/def sets, CFG, live sets and allocation.  Core Lean only.
-/
import AvoVerif.Model.MaskSet
import AvoVerif.Model.Alloc
namespace Avo.AllocCheck
open Avo.Reg Avo.MaskSet Avo.Alloc

structure CInstr where
  uses : List R
  defs : List R
  succ : List (Option Nat)
  liveIn : MS
  liveOut : MS
  deriving Repr, Inhabited

abbrev CProg := Array CInstr

/-- every lane of `a` is in `b` -/
def subsetMS (a b : MS) : Bool := a.all (fun p => get b p.1 &&& p.2 == p.2)

def liveInAt (P : CProg) (n : Nat) : MS := (P.getD n default).liveIn

/-- in ⊇ use ∪ (out ∖ def) and out ⊇ in(succ), successors inside the function. -/
def checkPostFixAt (P : CProg) (c : CInstr) : Bool :=
  subsetMS (ofRegs c.uses) c.liveIn &&
  subsetMS (difference c.liveOut (ofRegs c.defs)) c.liveIn &&
  c.succ.all (fun s => match s with
    | none => true
    | some s => s < P.size && subsetMS (liveInAt P s) c.liveOut)

def checkPostFix (P : CProg) : Bool := P.toList.all (checkPostFixAt P)

/-- No definition lands on a *different* register's live-out bytes that share its storage. -/
def checkValidAt (A : List (Nat × Nat)) (c : CInstr) : Bool :=
  c.defs.all (fun d => c.liveOut.all (fun p =>
    p.1 == d.id || lookupDefault A p.1 != lookupDefault A d.id || d.mask &&& p.2 == 0))

def checkValid (P : CProg) (A : List (Nat × Nat)) : Bool := P.toList.all (checkValidAt A)

/-- "Reads only bytes it has written": no virtual register byte is live at entry. -/
def checkEntry (P : CProg) : Bool := (liveInAt P 0).all (fun p => !idIsVirtual p.1 || p.2 == 0)

/-- Allocation maps virtual ids to physical ids of the same kind. -/
def checkAllocShape (A : List (Nat × Nat)) : Bool :=
  A.all (fun p => idIsVirtual p.1 && !idIsVirtual p.2 && idKind p.1 == idKind p.2)

end Avo.AllocCheck
