import AvoVerif.Drv.C14
def main : IO Unit := Avo.Drv.mainLoop Avo.Drv.C14.handlers
