import AvoVerif.Drv.C04
def main : IO Unit := Avo.Drv.mainLoop Avo.Drv.C04.handlers
