import AvoVerif.Drv.C07
def main : IO Unit := Avo.Drv.mainLoop Avo.Drv.C07.handlers
