import AvoVerif.Drv.C02
import AvoVerif.Drv.C09
-- C02's driver also answers C09's acceptor: the control-flow graph liveness runs on is judged against the
-- opcode-derived control-flow specification.
def main : IO Unit := Avo.Drv.mainLoop (Avo.Drv.C02.handlers ++ Avo.Drv.C09.handlers.filter (fun h => h.1 == "accept-cfg"))
