import AvoVerif.Drv.C02
def main : IO Unit := Avo.Drv.mainLoop Avo.Drv.C02.handlers
