import AvoVerif.Drv.C10
def main : IO Unit := Avo.Drv.mainLoop Avo.Drv.C10.handlers
