import AvoVerif.Drv.C17
def main : IO Unit := Avo.Drv.mainLoop Avo.Drv.C17.handlers
