import AvoVerif.Drv.C06
def main : IO Unit := Avo.Drv.mainLoop Avo.Drv.C06.handlers
