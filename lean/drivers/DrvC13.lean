import AvoVerif.Drv.C13
def main : IO Unit := Avo.Drv.mainLoop Avo.Drv.C13.handlers
