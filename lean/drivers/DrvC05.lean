import AvoVerif.Drv.C05
def main : IO Unit := Avo.Drv.mainLoop Avo.Drv.C05.handlers
