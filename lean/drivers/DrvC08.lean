import AvoVerif.Drv.C08
def main : IO Unit := Avo.Drv.mainLoop Avo.Drv.C08.handlers
