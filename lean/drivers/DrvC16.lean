import AvoVerif.Drv.C16
def main : IO Unit := Avo.Drv.mainLoop Avo.Drv.C16.handlers
