import AvoVerif.Drv.C01
import AvoVerif.Drv.C02
import AvoVerif.Drv.C09
-- C01's driver also answers C02's instruction-level acceptor (the use/def sets the allocator relies on are
-- cross-checked against the specification derived from the form's operand actions) and C09's acceptor (the
-- control-flow graph against the opcode-derived specification).
def main : IO Unit := Avo.Drv.mainLoop (Avo.Drv.C01.handlers ++ Avo.Drv.C02.handlers.filter (fun h => h.1 == "accept-usedef")
  ++ Avo.Drv.C09.handlers.filter (fun h => h.1 == "accept-cfg"))
