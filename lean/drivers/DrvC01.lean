import AvoVerif.Drv.C01
def main : IO Unit := Avo.Drv.mainLoop Avo.Drv.C01.handlers
