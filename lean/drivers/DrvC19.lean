import AvoVerif.Drv.C19
def main : IO Unit := Avo.Drv.mainLoop Avo.Drv.C19.handlers
