import AvoVerif.Drv.C12
def main : IO Unit := Avo.Drv.mainLoop Avo.Drv.C12.handlers
