import AvoVerif.Drv.C09
def main : IO Unit := Avo.Drv.mainLoop Avo.Drv.C09.handlers
