import AvoVerif.Drv.C18
def main : IO Unit := Avo.Drv.mainLoop Avo.Drv.C18.handlers
