import AvoVerif.Drv.C15
def main : IO Unit := Avo.Drv.mainLoop Avo.Drv.C15.handlers
