import AvoVerif.Drv.C20
def main : IO Unit := Avo.Drv.mainLoop Avo.Drv.C20.handlers
