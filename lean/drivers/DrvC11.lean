import AvoVerif.Drv.C11
def main : IO Unit := Avo.Drv.mainLoop Avo.Drv.C11.handlers
