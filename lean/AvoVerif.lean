import AvoVerif.Model.Attr
