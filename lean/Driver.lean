import AvoVerif.Drv.Common
import AvoVerif.Drv.C19
open Avo.Drv

def handlers : List (String × Handler) := [
  ("attr", Avo.Drv.C19.handle),
  ("inclpass", Avo.Drv.C19.handle),
  ("accept-attr", Avo.Drv.C19.handle),
  ("accept-incl", Avo.Drv.C19.handle)
]

def dispatch (line : String) : String :=
  let ts := tokens line
  match ts with
  | [] => "bad-op"
  | cmd :: _ =>
    match handlers.find? (·.1 == cmd) with
    | none => "bad-op"
    | some (_, h) => (h ts).getD "bad-op"

partial def loop (hin : IO.FS.Stream) (hout : IO.FS.Stream) : IO Unit := do
  let line ← hin.getLine
  if line.isEmpty then return ()
  let l := if line.endsWith "\n" then (line.dropEnd 1).toString else line
  hout.putStrLn (dispatch l)
  loop hin hout

def main : IO Unit := do
  let hin ← IO.getStdin
  let hout ← IO.getStdout
  loop hin hout
  hout.flush
