#!/bin/sh
# The repository's own test suite with the verif guard OFF (no -tags verif).
export GOFLAGS=-mod=mod GOPROXY=off GOSUMDB=off GOTOOLCHAIN=local
cd /repo && go test -json -vet=off -count=1 -timeout 25m ./...
