#!/usr/bin/env python3
"""Run the repository's test suite with the verif guard OFF and compare with
/root/.vp/BASELINE.json's stable_pass list."""
import json, subprocess, sys
base = json.load(open('/root/.vp/BASELINE.json'))
want = set(base['stable_pass'])
p = subprocess.run(['/verif/baseline_off.sh'], stdout=subprocess.PIPE, stderr=subprocess.STDOUT, text=True)
passed, failed = set(), set()
for line in p.stdout.splitlines():
    try:
        e = json.loads(line)
    except Exception:
        continue
    if e.get('Test') and e.get('Action') in ('pass', 'fail'):
        (passed if e['Action'] == 'pass' else failed).add(f"{e['Package']}::{e['Test']}")
missing = sorted(want - passed)
print(f"baseline stable_pass={len(want)} passed_now={len(passed)} failed_now={len(failed)} missing={len(missing)}")
for m in missing[:20]:
    print("  MISSING", m)
for m in sorted(failed)[:20]:
    print("  FAILED", m)
sys.exit(1 if missing or failed else 0)
