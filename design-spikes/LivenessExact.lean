/-! Spike: single-location liveness, Gauss–Seidel sweeps, soundness + completeness vs path spec. -/

structure Prog where
  succ : Nat → List Nat
  use  : Nat → Bool
  dfn  : Nat → Bool

inductive LiveIn (P : Prog) : Nat → Prop
  | here {i} : P.use i = true → LiveIn P i
  | step {i s} : P.dfn i = false → s ∈ P.succ i → LiveIn P s → LiveIn P i

def LiveOut (P : Prog) (i : Nat) : Prop := ∃ s, s ∈ P.succ i ∧ LiveIn P s

structure St where
  inS : Nat → Bool
  outS : Nat → Bool

def upd (f : Nat → Bool) (i : Nat) (b : Bool) : Nat → Bool := fun j => if j = i then b else f j

@[simp] theorem upd_same (f i b) : upd f i b i = b := by simp [upd]
theorem upd_other (f i b j) (h : j ≠ i) : upd f i b j = f j := by simp [upd, h]

def newOut (P : Prog) (st : St) (i : Nat) : Bool := st.outS i || (P.succ i).any st.inS
def newIn (P : Prog) (st : St) (i : Nat) : Bool := st.inS i || (newOut P st i && !P.dfn i)

def visit (P : Prog) (st : St) (i : Nat) : St × Bool :=
  ({ inS := upd st.inS i (newIn P st i), outS := upd st.outS i (newOut P st i) },
   (newOut P st i != st.outS i) || (newIn P st i != st.inS i))

def sweep (P : Prog) : List Nat → St → St × Bool
  | [], st => (st, false)
  | i :: is, st =>
    let r1 := visit P st i
    let r2 := sweep P is r1.1
    (r2.1, r1.2 || r2.2)

def iter (P : Prog) (order : List Nat) : Nat → St → St × Bool
  | 0, st => (st, true)
  | fuel+1, st =>
    let r := sweep P order st
    if r.2 then iter P order fuel r.1 else (r.1, false)

def init (P : Prog) : St := { inS := P.use, outS := fun _ => false }

/-! ### Soundness -/

def Sound (P : Prog) (st : St) : Prop :=
  ∀ i, (st.inS i = true → LiveIn P i) ∧ (st.outS i = true → LiveOut P i)

theorem sound_init (P : Prog) : Sound P (init P) := by
  intro i; constructor
  · intro h; exact LiveIn.here h
  · intro h; simp [init] at h

theorem newOut_sound (P st i) (hs : Sound P st) (h : newOut P st i = true) : LiveOut P i := by
  unfold newOut at h
  rcases Bool.or_eq_true _ _ |>.mp h with h | h
  · exact (hs i).2 h
  · obtain ⟨s, hs1, hs2⟩ := List.any_eq_true.mp h
    exact ⟨s, hs1, (hs s).1 hs2⟩

theorem newIn_sound (P st i) (hs : Sound P st) (h : newIn P st i = true) : LiveIn P i := by
  unfold newIn at h
  rcases Bool.or_eq_true _ _ |>.mp h with h | h
  · exact (hs i).1 h
  · have h' := Bool.and_eq_true _ _ |>.mp h
    obtain ⟨s, hs1, hs2⟩ := newOut_sound P st i hs h'.1
    have hd : P.dfn i = false := by simpa using h'.2
    exact LiveIn.step hd hs1 hs2

theorem visit_sound (P st i) (hs : Sound P st) : Sound P (visit P st i).1 := by
  intro j
  by_cases hj : j = i
  · subst hj
    simp only [visit, upd_same]
    exact ⟨newIn_sound P st j hs, newOut_sound P st j hs⟩
  · simp only [visit, upd_other _ _ _ _ hj]
    exact hs j

theorem sweep_sound (P) : ∀ (is : List Nat) (st : St), Sound P st → Sound P (sweep P is st).1
  | [], _, h => h
  | i :: is, st, h => by
    simp only [sweep]
    exact sweep_sound P is _ (visit_sound P st i h)

theorem iter_sound (P order) : ∀ fuel st, Sound P st → Sound P (iter P order fuel st).1
  | 0, _, h => h
  | fuel+1, st, h => by
    simp only [iter]
    split
    · exact iter_sound P order fuel _ (sweep_sound P order st h)
    · exact sweep_sound P order st h

/-! ### Completeness at a fixed point -/

/-- visit with no change leaves the state extensionally unchanged -/
theorem visit_nochange (P st i) (h : (visit P st i).2 = false) :
    (visit P st i).1.inS = st.inS ∧ (visit P st i).1.outS = st.outS ∧
    newOut P st i = st.outS i ∧ newIn P st i = st.inS i := by
  simp only [visit, Bool.or_eq_false_iff, bne_eq_false_iff_eq] at h
  obtain ⟨h1, h2⟩ := h
  refine ⟨?_, ?_, h1, h2⟩
  · funext j; by_cases hj : j = i
    · subst hj; simp [visit, h2]
    · simp [visit, upd_other _ _ _ _ hj]
  · funext j; by_cases hj : j = i
    · subst hj; simp [visit, h1]
    · simp [visit, upd_other _ _ _ _ hj]

def FixAt (P : Prog) (st : St) (i : Nat) : Prop :=
  newOut P st i = st.outS i ∧ newIn P st i = st.inS i

theorem sweep_nochange (P) : ∀ (is : List Nat) (st : St), (sweep P is st).2 = false →
    (sweep P is st).1.inS = st.inS ∧ (sweep P is st).1.outS = st.outS ∧ ∀ i ∈ is, FixAt P st i
  | [], st, _ => ⟨rfl, rfl, by intro i hi; cases hi⟩
  | i :: is, st, h => by
    simp only [sweep, Bool.or_eq_false_iff] at h
    obtain ⟨h1, h2⟩ := h
    obtain ⟨e1, e2, f1, f2⟩ := visit_nochange P st i h1
    have hst : (visit P st i).1 = st := by
      cases hv : (visit P st i).1 with
      | mk a b =>
        rw [hv] at e1 e2; simp at e1 e2; subst e1; subst e2; rfl
    rw [hst] at h2
    obtain ⟨g1, g2, g3⟩ := sweep_nochange P is st h2
    simp only [sweep, hst]
    refine ⟨g1, g2, ?_⟩
    intro j hj
    rcases List.mem_cons.mp hj with hj | hj
    · subst hj; exact ⟨f1, f2⟩
    · exact g3 j hj

def Infl (P : Prog) (st : St) : Prop := ∀ i, P.use i = true → st.inS i = true

theorem visit_infl (P st i) (h : Infl P st) : Infl P (visit P st i).1 := by
  intro j hj
  by_cases hji : j = i
  · subst hji; simp [visit, newIn, h j hj]
  · simp [visit, upd_other _ _ _ _ hji, h j hj]

theorem sweep_infl (P) : ∀ (is : List Nat) (st : St), Infl P st → Infl P (sweep P is st).1
  | [], _, h => h
  | i :: is, st, h => by simp only [sweep]; exact sweep_infl P is _ (visit_infl P st i h)

/-- every index on a path stays inside `order` -/
def Closed (P : Prog) (order : List Nat) : Prop := ∀ i ∈ order, ∀ s ∈ P.succ i, s ∈ order

theorem complete_of_fix (P order st) (hc : Closed P order) (hinfl : Infl P st)
    (hfix : ∀ i ∈ order, FixAt P st i) : ∀ i, LiveIn P i → i ∈ order → st.inS i = true := by
  intro i hl
  induction hl with
  | here hu => intro _; exact hinfl _ hu
  | @step i s hd hs _ ih =>
    intro hi
    have hsin : st.inS s = true := ih (hc i hi s hs)
    obtain ⟨fo, fi⟩ := hfix i hi
    have ho : st.outS i = true := by
      rw [← fo]; unfold newOut
      have : (P.succ i).any st.inS = true := List.any_eq_true.mpr ⟨s, hs, hsin⟩
      simp [this]
    rw [← fi]; unfold newIn newOut
    simp [ho, hd]

theorem iter_result (P order) : ∀ fuel st, Infl P st → (iter P order fuel st).2 = false →
    Infl P (iter P order fuel st).1 ∧ ∀ i ∈ order, FixAt P (iter P order fuel st).1 i
  | 0, st, _, h => by simp [iter] at h
  | fuel+1, st, hi, h => by
    simp only [iter] at h ⊢
    split
    · rename_i hc
      simp only [hc, if_true] at h
      exact iter_result P order fuel _ (sweep_infl P order st hi) h
    · rename_i hc
      have hc' : (sweep P order st).2 = false := by simpa using hc
      obtain ⟨e1, e2, f⟩ := sweep_nochange P order st hc'
      have hst : (sweep P order st).1 = st := by
        cases hv : (sweep P order st).1 with
        | mk a b => rw [hv] at e1 e2; simp at e1 e2; subst e1; subst e2; rfl
      rw [hst]
      exact ⟨hi, f⟩

/-- Exactness: when the iteration stops because nothing changed, in = path spec on `order`. -/
theorem liveness_exact (P order fuel) (hc : Closed P order)
    (hstop : (iter P order fuel (init P)).2 = false) :
    ∀ i ∈ order, ((iter P order fuel (init P)).1.inS i = true ↔ LiveIn P i) := by
  intro i hi
  have hinfl0 : Infl P (init P) := by intro j hj; simpa [init] using hj
  obtain ⟨hinfl, hfix⟩ := iter_result P order fuel (init P) hinfl0 hstop
  constructor
  · exact (iter_sound P order fuel (init P) (sound_init P) i).1
  · intro hl; exact complete_of_fix P order _ hc hinfl hfix i hl hi

#print axioms liveness_exact
