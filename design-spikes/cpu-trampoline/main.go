package main

import (
	"fmt"
	"math/rand"
	"runtime"
	"runtime/debug"
)

type State struct {
	GP    [16]uint64
	Flags uint64
	K     [8]uint64
	Z     [32][64]byte
}

func call(fn uintptr, in *State, out *State)
func fnaddr(i int) uintptr
func t0()
func t1()
func t2()
func t3()
func t4()
func t5()
func t6()
func t7()

var gpn = []string{"AX", "CX", "DX", "BX", "SP", "BP", "SI", "DI", "R8", "R9", "R10", "R11", "R12", "R13", "R14", "R15"}

func main() {
	runtime.LockOSThread()
	debug.SetGCPercent(-1)
	rng := rand.New(rand.NewSource(1))
	for ti, name := range names {
		in := new(State)
		out := new(State)
		for i := range in.GP {
			in.GP[i] = rng.Uint64()
		}
		in.Flags = 0x202 | (rng.Uint64() & 0x8d5) // CF PF AF ZF SF OF random, IF set, DF clear
		for i := range in.K {
			in.K[i] = rng.Uint64()
		}
		for i := range in.Z {
			for j := range in.Z[i] {
				in.Z[i][j] = byte(rng.Intn(256))
			}
		}
		call(fnaddr(ti), in, out)
		fmt.Printf("%-28s:", name)
		for i := range in.GP {
			if i == 4 {
				continue
			}
			if in.GP[i] != out.GP[i] {
				fmt.Printf(" %s:%#x->%#x", gpn[i], in.GP[i], out.GP[i])
			}
		}
		if in.Flags != out.Flags {
			fmt.Printf(" FLAGS:%#x->%#x", in.Flags, out.Flags)
		}
		for i := range in.K {
			if in.K[i] != out.K[i] {
				fmt.Printf(" K%d changed", i)
			}
		}
		for i := range in.Z {
			if in.Z[i] != out.Z[i] {
				lo, hi := 64, -1
				for j := range in.Z[i] {
					if in.Z[i][j] != out.Z[i][j] {
						if j < lo {
							lo = j
						}
						if j > hi {
							hi = j
						}
					}
				}
				fmt.Printf(" Z%d bytes[%d..%d] changed", i, lo, hi)
			}
		}
		fmt.Println()
	}
}
