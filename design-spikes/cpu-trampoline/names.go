package main

var names = []string{"ADDB AH, R8","MOVL AX, AX","MOVQ X1, X1","VXORPD Z0, Z0, K1, Z2","MULQ BX","ANDQ $0xffffffff, CX","VPXOR X3, X3, X3","MOVW $0x1234, R9"}
