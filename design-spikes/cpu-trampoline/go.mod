module spike2

go 1.23.0
