/-! Spike: register renaming preserves semantics under a liveness post-fixpoint + validity. -/

abbrev Loc := Nat
abbrev Val := Nat
abbrev Mem := Nat → Nat

structure Instr where
  uses : List Loc
  defs : List Loc
  /-- meaning: values of use slots, memory ↦ values for def slots, new memory, successor choice -/
  sem  : List Val → Mem → List Val × Mem × Nat
  succ : List (Option Nat)

structure Prog where
  code : Nat → Option Instr

structure State where
  regs : Loc → Val
  mem  : Mem
  pc   : Option Nat

def writeAll (r : Loc → Val) : List Loc → List Val → Loc → Val
  | d :: ds, v :: vs => writeAll (fun x => if x = d then v else r x) ds vs
  | _, _ => r

def nextPc (i : Instr) (k : Nat) : Option Nat := (i.succ[k]?).join

def step (P : Prog) (σ : State) : State :=
  match σ.pc with
  | none => σ
  | some pc =>
    match P.code pc with
    | none => { σ with pc := none }
    | some i =>
      let r := i.sem (i.uses.map σ.regs) σ.mem
      { regs := writeAll σ.regs i.defs r.1, mem := r.2.1, pc := nextPc i r.2.2 }

def run (P : Prog) : Nat → State → State
  | 0, σ => σ
  | k+1, σ => run P k (step P σ)

def renameI (ρ : Loc → Loc) (i : Instr) : Instr :=
  { i with uses := i.uses.map ρ, defs := i.defs.map ρ }

def rename (ρ : Loc → Loc) (P : Prog) : Prog := { code := fun n => (P.code n).map (renameI ρ) }

structure Live where
  inn : Nat → Loc → Prop
  out : Nat → Loc → Prop

/-- liveness post-fixpoint (any over-approximation of true liveness) -/
structure PostFix (P : Prog) (L : Live) : Prop where
  use_in  : ∀ n i, P.code n = some i → ∀ u ∈ i.uses, L.inn n u
  out_in  : ∀ n i, P.code n = some i → ∀ ℓ, L.out n ℓ → ℓ ∉ i.defs → L.inn n ℓ
  succ_out : ∀ n i, P.code n = some i → ∀ s, some s ∈ i.succ → ∀ ℓ, L.inn s ℓ → L.out n ℓ

/-- a definition never lands on the storage of a different live-out location -/
def Valid (P : Prog) (L : Live) (ρ : Loc → Loc) : Prop :=
  ∀ n i, P.code n = some i → ∀ d ∈ i.defs, ∀ ℓ, L.out n ℓ → ρ d = ρ ℓ → d = ℓ

def Rel (L : Live) (ρ : Loc → Loc) (σ σ' : State) : Prop :=
  σ.pc = σ'.pc ∧ σ.mem = σ'.mem ∧ ∀ n, σ.pc = some n → ∀ ℓ, L.inn n ℓ → σ.regs ℓ = σ'.regs (ρ ℓ)

theorem writeAll_rename (ρ : Loc → Loc) (ℓ : Loc) :
    ∀ (ds : List Loc) (vs : List Val) (r r' : Loc → Val),
      (∀ d ∈ ds, ρ d = ρ ℓ → d = ℓ) → (ℓ ∈ ds.take vs.length ∨ r ℓ = r' (ρ ℓ)) →
      writeAll r ds vs ℓ = writeAll r' (ds.map ρ) vs (ρ ℓ)
  | [], vs, r, r', _, hr => by
    rcases hr with hr | hr
    · simp at hr
    · simp [writeAll, hr]
  | d :: ds, [], r, r', _, hr => by
    rcases hr with hr | hr
    · simp at hr
    · simp [writeAll, hr]
  | d :: ds, v :: vs, r, r', h, hr => by
    simp only [writeAll, List.map_cons]
    apply writeAll_rename ρ ℓ ds vs
    · intro d' hd'; exact h d' (List.mem_cons_of_mem _ hd')
    · by_cases hld : ℓ = d
      · subst hld; right; simp
      · have hne : ρ ℓ ≠ ρ d := by
          intro heq
          exact hld (h d (List.mem_cons_self ..) heq.symm).symm
        rcases hr with hr | hr
        · left
          simp only [List.length_cons, List.take_succ_cons, List.mem_cons] at hr
          rcases hr with hr | hr
          · exact absurd hr hld
          · exact hr
        · right; simp [hld, hne, hr]

theorem writeAll_notmem (ℓ : Loc) : ∀ (ds : List Loc) (vs : List Val) (r : Loc → Val),
    ℓ ∉ ds → writeAll r ds vs ℓ = r ℓ
  | [], _, _, _ => by simp [writeAll]
  | d :: ds, [], _, _ => by simp [writeAll]
  | d :: ds, v :: vs, r, h => by
    simp only [writeAll]
    rw [writeAll_notmem ℓ ds vs _ (fun hm => h (List.mem_cons_of_mem _ hm))]
    have : ℓ ≠ d := fun e => h (e ▸ List.mem_cons_self ..)
    simp [this]

theorem nextPc_mem (i : Instr) (k s : Nat) (h : nextPc i k = some s) : some s ∈ i.succ := by
  unfold nextPc at h
  cases hk : i.succ[k]? with
  | none => simp [hk] at h
  | some o =>
    simp [hk] at h
    subst h
    exact List.mem_of_getElem? hk

def WFSem (P : Prog) : Prop :=
  ∀ n i, P.code n = some i → ∀ vs m, (i.sem vs m).1.length = i.defs.length

theorem step_rel (P : Prog) (L : Live) (ρ : Loc → Loc) (hpf : PostFix P L) (hv : Valid P L ρ)
    (hwf : WFSem P) (σ σ' : State) (hr : Rel L ρ σ σ') : Rel L ρ (step P σ) (step (rename ρ P) σ') := by
  obtain ⟨hpc, hmem, hregs⟩ := hr
  cases hp : σ.pc with
  | none =>
    have hp' : σ'.pc = none := by rw [← hpc, hp]
    simp only [step, hp, hp']
    exact ⟨by simp [hp, hp'], hmem, by intro n hn; simp [hp] at hn⟩
  | some n =>
    have hp' : σ'.pc = some n := by rw [← hpc, hp]
    cases hc : P.code n with
    | none =>
      simp only [step, hp, hp', rename, hc, Option.map_none]
      exact ⟨rfl, hmem, by intro m hm; simp at hm⟩
    | some i =>
      have huse : i.uses.map σ.regs = (i.uses.map ρ).map σ'.regs := by
        rw [List.map_map]
        apply List.map_congr_left
        intro u hu
        exact hregs n hp u (hpf.use_in n i hc u hu)
      simp only [step, hp, hp', rename, hc, Option.map_some, renameI]
      rw [← huse, ← hmem]
      refine ⟨rfl, rfl, ?_⟩
      intro s hs ℓ hl
      have hsucc : some s ∈ i.succ := nextPc_mem i _ s hs
      have hout : L.out n ℓ := hpf.succ_out n i hc s hsucc ℓ hl
      by_cases hd : ℓ ∈ i.defs
      · apply writeAll_rename
        · intro d hdm heq; exact hv n i hc d hdm ℓ hout heq
        · left
          rw [hwf n i hc, List.take_length]
          exact hd
      · apply writeAll_rename
        · intro d hdm heq; exact hv n i hc d hdm ℓ hout heq
        · right; exact hregs n hp ℓ (hpf.out_in n i hc ℓ hout hd)

theorem run_rel (P : Prog) (L : Live) (ρ : Loc → Loc) (hpf : PostFix P L) (hv : Valid P L ρ)
    (hwf : WFSem P) : ∀ k σ σ', Rel L ρ σ σ' → Rel L ρ (run P k σ) (run (rename ρ P) k σ')
  | 0, _, _, h => h
  | k+1, σ, σ', h => run_rel P L ρ hpf hv hwf k _ _ (step_rel P L ρ hpf hv hwf σ σ' h)

/-- Main statement: same memory and same control at every step, for all initial states that agree on
    the locations live at entry. -/
theorem rename_preserves (P : Prog) (L : Live) (ρ : Loc → Loc) (hpf : PostFix P L) (hv : Valid P L ρ)
    (hwf : WFSem P) (σ σ' : State) (h0 : Rel L ρ σ σ') (k : Nat) :
    (run P k σ).mem = (run (rename ρ P) k σ').mem ∧ (run P k σ).pc = (run (rename ρ P) k σ').pc := by
  have := run_rel P L ρ hpf hv hwf k σ σ' h0
  exact ⟨this.2.1, this.1⟩

#print axioms rename_preserves
