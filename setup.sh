#!/bin/sh
# Build the framework from files on disk only (offline): harness, regenerated
# Gen/Oracle Lean modules, the whole Lean project and the driver executable.
set -e
cd "$(dirname "$0")"
exec python3 -m vlib.setup "$@"
